------------------------------ MODULE Pipeline ------------------------------
(* C08: a crash or a failed write at any instant is recoverable without     *)
(* loss or divergence - the state machine over the recorded operation       *)
(* shapes.  Definitions (mutation classes, what a cut leaves behind, queue  *)
(* and restart semantics, the predicates behind the clauses) are in         *)
(* PipelineDefs; this module enumerates                                      *)
(*    operation shape x (a publication follows | not) x cut x {crash, error} *)
(* and states the clauses of C08 as invariants.  TLC is run with -continue:  *)
(* the result is the SET of cuts at which the design breaks a clause, not    *)
(* the first one.  A cut reported here is a statement about the model; it    *)
(* becomes a finding only when harness-fault reproduces it on the real code  *)
(* (PipelineTrace).                                                          *)
EXTENDS PipelineDefs

----------------------------------------------------------------------------
(* Exhaustive enumeration over the recorded shapes *)

M(t, e) == [t |-> t, e |-> e]
Op(kind, cls, task, seq, eff, pend) ==
    [kind |-> kind, cls |-> cls, task |-> task, seq |-> seq, eff |-> eff,
     q0 |-> [pending |-> pend, running |-> {}]]

SP == "sync_parent_c"   \* sync_c_with_parent_p
SRC == "sync_repo_c"
SRP == "sync_repo_p"
UPD == "update_rrdp_if_needed"

Catalogue == <<
  \* API command with publication effect (ROA add/remove, ASPA, child
  \* suspend/remove): object set, sync task, command entry
  Op("api_pub", "api", FALSE,
     <<M("OBJS","c"), M("QADD",SRC), M("CMD","c")>>, {"c"}, {}),
  \* the same with a synchronisation already queued
  Op("api_pub_requeue", "api", FALSE,
     <<M("OBJS","c"), M("QADD",SRC), M("QDEL",SRC), M("QADD",SRC),
       M("CMD","c")>>, {"c"}, {}),
  \* API command without publication effect whose follow-up is scheduled
  \* post-save (child resources changed: the child is told to synchronise)
  Op("api_post", "api", FALSE,
     <<M("OBJS","p"), M("CMD","p"), M("QDEL",SP), M("QADD",SP)>>, {}, {SP}),
  \* key roll initiation: new key, signer entry, then the usual pipeline
  Op("api_roll_init", "api", FALSE,
     <<M("AUX",""), M("AUX",""), M("OBJS","c"), M("QDEL",SP), M("QADD",SP),
       M("CMD","c")>>, {}, {SP}),
  \* key roll activation: objects move to the new key
  Op("api_roll_activate", "api", FALSE,
     <<M("OBJS","c"), M("QDEL",SP), M("QADD",SP), M("QADD",SRC),
       M("QDEL",SRC), M("QADD",SRC), M("CMD","c")>>, {"c"}, {SP}),
  \* CA creation steps
  Op("api_init_ca", "api", FALSE,
     <<M("AUX",""), M("AUX",""), M("CMD","c")>>, {}, {}),
  Op("api_add_publisher", "api", FALSE, <<M("AUX",""), M("WAL","")>>, {}, {}),
  \* sync with the parent, first half: entitlements -> key + request
  Op("task_sync_parent_request", "sync_parent", TRUE,
     <<M("CLAIM",SP), M("STATUS","p"), M("STATUS","c"), M("OBJS","c"),
       M("QADD",SP), M("CMD","c"), M("FIN",SP), M("QDEL",SP), M("QADD",SP)>>,
     {}, {SP}),
  \* second half, local parent: the request is a command on the parent
  \* (certificate issued), the response a command on the child
  Op("task_sync_parent_issue", "sync_parent", TRUE,
     <<M("CLAIM",SP), M("STATUS","c"), M("OBJS","p"), M("QADD",SRP),
       M("CMD","p"), M("STATUS","p"), M("OBJS","c"), M("QADD",SRC),
       M("CMD","c"), M("STATUS","c"), M("FIN",SP), M("QADD",SP)>>,
     {"p", "c"}, {SP}),
  \* sync with the repository: delta sent = content change set at the server,
  \* RRDP update scheduled, status shadow updated
  Op("task_sync_repo", "sync_repo", TRUE,
     <<M("CLAIM",SRC), M("STATUS","c"), M("WAL",""), M("QADD",UPD),
       M("STATUS","c"), M("FIN",SRC)>>, {}, {SRC}),
  Op("task_sync_repo_requeue", "sync_repo", TRUE,
     <<M("CLAIM",SRC), M("STATUS","c"), M("WAL",""), M("QDEL",UPD),
       M("QADD",UPD), M("STATUS","c"), M("FIN",SRC)>>, {}, {SRC, UPD}),
  \* RRDP update: staged changes applied, then the files
  Op("task_update_rrdp", "update_rrdp", TRUE,
     <<M("CLAIM",UPD), M("WAL",""), M("DELTA",""), M("SNAP",""),
       M("NEWNOTIF",""), M("RENAME",""), M("CLEAN",""), M("RS_TMP",""),
       M("RS_FILE",""), M("RS_C2O",""), M("RS_N2C",""), M("RS_RMOLD",""),
       M("FIN",UPD)>>, {}, {UPD}),
  \* republish / renew with something due: object sets, then sync tasks, no
  \* command entry (re-issued manifests are not in the audit log)
  Op("task_republish", "republish", FALSE,
     <<M("OBJS","c"), M("OBJS","p"), M("QADD",SRC), M("QADD",SRP)>>, {}, {})
>>

VARIABLES
    oi,        \* index into Catalogue
    later,     \* does another publication follow before the end?
    k, mode,   \* the cut
    phase      \* "idle" | "faulted" | "restarted" | "pumped" | "final"

vars == <<oi, later, k, mode, phase>>

TheOp == Catalogue[oi]
X == Path(TheOp, k, mode)
Down == GoesDown(TheOp, k, mode)
QCut == QFold(TheOp.q0, X)
QNow == IF Down THEN RestartQ(QCut) ELSE QCut

Init ==
    /\ oi \in 1..Len(Catalogue) /\ later \in BOOLEAN
    /\ k = 0 /\ mode = "none" /\ phase = "idle"

\* the process dies in front of the kk-th mutation
Crash(kk) ==
    /\ phase = "idle" /\ kk \in 1..Len(TheOp.seq)
    /\ k' = kk /\ mode' = "crash" /\ phase' = "faulted"
    /\ UNCHANGED <<oi, later>>

\* the kk-th mutation fails with an I/O error
IoError(kk) ==
    /\ phase = "idle" /\ kk \in 1..Len(TheOp.seq)
    /\ k' = kk /\ mode' = "error" /\ phase' = "faulted"
    /\ UNCHANGED <<oi, later>>

\* only a process that went down restarts; after a swallowed or reported
\* I/O error the instance keeps running
Restart ==
    /\ phase = "faulted" /\ Down
    /\ phase' = "restarted" /\ UNCHANGED <<oi, later, k, mode>>

Pump ==
    /\ \/ phase = "restarted"
       \/ phase = "faulted" /\ ~Down
    /\ phase' = "pumped" /\ UNCHANGED <<oi, later, k, mode>>

\* the interrupted request is submitted again (a task is "submitted again"
\* by the queue: it is pending or running->pending), the rest of the
\* history happens, background tasks run
Resubmit ==
    /\ phase = "pumped"
    /\ phase' = "final" /\ UNCHANGED <<oi, later, k, mode>>

Next == (\E kk \in 1..20 : Crash(kk) \/ IoError(kk))
        \/ Restart \/ Pump \/ Resubmit

Spec == Init /\ [][Next]_vars

----------------------------------------------------------------------------
(* The clauses of C08 on the model *)

AfterCut == phase \in {"faulted", "restarted"}

\* every entity loads: a mutation is atomic (temp file + rename, disk.rs),
\* so every key holds a complete value; what could fail to load is an audit
\* log with a gap - the command entries that took effect are a prefix of
\* the operation's command entries, per aggregate
AllLoad ==
    phase # "idle" =>
        LET E == ExecIdx(TheOp, k, mode) IN
        \A i \in Idx(TheOp.seq, "CMD") \cap E :
            \A j \in IdxE(TheOp.seq, "CMD", TheOp.seq[i].e) :
                j < i => j \in E

AckedNeverLost ==
    (phase # "idle" /\ Acked(TheOp, k, mode)) =>
        \A c \in {TheOp.seq[i].e : i \in Idx(TheOp.seq, "CMD")} :
            Count(X, "CMD", c) = Count(TheOp.seq, "CMD", c)

\* audit log, state and published-object set agree after the cut
UnackedAllOrNothing == AfterCut => Ahead(TheOp, X) = {}

\* what is served is a valid tree: rsync has a current directory, the
\* notification file points to a snapshot that exists
RPCleanAfterRestart == AfterCut => ~NoCurrent(X) /\ ~NotifAhead(X)

\* after the background tasks and the re-submission the state equals the
\* twin's.  What the model knows to stay different:
DiskStaleFinal ==
    \/ (RrdpStale(TheOp, X) \/ RsyncStale(TheOp, X) \/ NoCurrent(X)) /\ ~later
    \/ UpdateLost(TheOp, X, QNow) /\ ~later
    \/ OldLeft(X) /\ later
StatusStaleFinal == StatusStale(TheOp, X) /\ ~later
TaskLostFinal == ~Down /\ LostTasks(TheOp, X, TheOp.q0) # {}
TwinEquivalence ==
    phase = "final" =>
        ~DiskStaleFinal /\ ~StatusStaleFinal /\ ~TaskLostFinal

=============================================================================
