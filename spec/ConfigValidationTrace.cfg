SPECIFICATION TraceSpec
POSTCONDITION AllLinesJudged
CHECK_DEADLOCK FALSE
