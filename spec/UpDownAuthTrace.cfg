CONSTANTS
  MaxGen = 9
  CheckRecipient = FALSE
  Mutant = "none"
  CaKeys <- AllCaKeys
  Lims <- AllLims
  Uris <- AllUris
  Vals <- AllVals
  Updatable <- AllUpdatable
  Suspendable <- AllSuspendable
SPECIFICATION TraceSpec
INVARIANT TraceInvariant
PROPERTY RefusedUnchanged
PROPERTY EffectsWithinSender
PROPERTY ReplySignedByCurrentServerKey
PROPERTY ReplyWithinSender
POSTCONDITION TraceAccepted
CHECK_DEADLOCK FALSE
