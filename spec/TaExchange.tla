------------------------------ MODULE TaExchange ------------------------------
(***************************************************************************)
(* C15: the trust anchor proxy and the trust anchor signer only accept     *)
(* each other's fresh messages.                                            *)
(*                                                                         *)
(* Parties: the proxy pA with its local TA children; the signer S1 it is   *)
(* associated with; another signer instance S2 (initialised for the same   *)
(* proxy, own TA key and identity); another proxy pB; an adversary that    *)
(* holds every message ever sent and can replay it, present it late        *)
(* (stale nonce), cross-wire it (S2's responses, pB's requests), change    *)
(* its clear text and keep the signature (nonce, content, or the clear     *)
(* text of another message), or sign the content it likes with a key of    *)
(* its own (kr) or with the proxy's key.                                   *)
(*                                                                         *)
(* A message is a record [t, nonce, by, content, num]:                     *)
(*   t "req"/"resp"; nonce (1,2,.. in order of creation); by = the         *)
(*   identity key under which the signed part validates; content = set of  *)
(*   <<child, request>> the message carries (request = "i:ka" issuance     *)
(*   for key ka, "r:ka" revocation); num = <<manifest, CRL>> number of     *)
(*   the TA objects in a response.                                         *)
(* A message is presented as <<message, auth>>: auth says that the clear   *)
(* text is the signed text.                                                *)
(*                                                                         *)
(* The statement demands (no more): the proxy accepts a response ONLY IF   *)
(* ProxyAccepts, the signer processes a request ONLY IF SignerAccepts,     *)
(* anything else is refused without change; the responses that are         *)
(* accepted answer pending child requests, each once, and are handed to    *)
(* the child once; TA manifest and CRL numbers only ever increase.  It     *)
(* does not demand that the signer refuses a request it has seen before.   *)
(***************************************************************************)
EXTENDS Naturals, FiniteSets, Sequences, TLC

CONSTANTS
    Children,       \* {"ca1", "ca2"}
    ReqNames,       \* requests a child can make, e.g. {"i:ka", "i:kb"}
    MaxNonce,       \* model bounds
    MaxMsgs,
    MaxReassoc,
    Mutant          \* "none" or a deliberately wrong model (anti-vacuity)

Signers == {"S1", "S2"}
ProxyKey == "pA"
None == 0

VARIABLES
    open,     \* nonce of the open signer request, 0 if none
    nn,       \* number of nonces created so far
    reqs,     \* reqs[c]: child requests waiting to be sent to the signer
    resp,     \* resp[c]: responses waiting to be fetched by the child
    assoc,    \* identity of the signer the proxy is associated with
    pnum,     \* <<manifest, CRL>> number of the TA objects the proxy holds
    rnum,     \* ... of the TA objects in the repository
    sg,       \* sg[s] = [id, trusts, num, done, iss] for each signer
    want,     \* want[c]: requests child c has pending (environment)
    have,     \* have[c]: keys child c holds a certificate for (environment)
    msgs      \* every message ever sent

vars == <<open, nn, reqs, resp, assoc, pnum, rnum, sg, want, have, msgs>>
proxyVars == <<open, reqs, resp, assoc, pnum>>

Lt(a, b) == a[1] < b[1] /\ a[2] < b[2]
Le(a, b) == a[1] <= b[1] /\ a[2] <= b[2]
Inc(a) == <<a[1] + 1, a[2] + 1>>

Init ==
    /\ open = None /\ nn = 0
    /\ reqs = [c \in Children |-> {}] /\ resp = [c \in Children |-> {}]
    /\ assoc = "g1"
    /\ pnum = <<1, 1>> /\ rnum = <<1, 1>>
    /\ sg = [S1 |-> [id |-> "g1", trusts |-> ProxyKey, num |-> <<1, 1>>,
                     done |-> 0, iss |-> {}],
             S2 |-> [id |-> "g2", trusts |-> ProxyKey, num |-> <<1, 1>>,
                     done |-> 0, iss |-> {}]]
    /\ want = [c \in Children |-> {}] /\ have = [c \in Children |-> {}]
    /\ msgs = <<>>

Pending == UNION {{<<c, r>> : r \in reqs[c]} : c \in Children}

KeyOf(r) == SubSeq(r, 3, Len(r))
IsIssue(r) == SubSeq(r, 1, 1) = "i"

-----------------------------------------------------------------------------
(* The acceptance rules.                                                   *)

ProxyAccepts(e, auth) ==
    /\ e.t = "resp"
    /\ open # None /\ e.nonce = open
    /\ auth
    /\ e.by = assoc

SignerAccepts(s, e, auth) ==
    /\ e.t = "req"
    /\ auth
    /\ e.by = sg[s].trusts

-----------------------------------------------------------------------------
(* Step relations used by the properties (model and trace).                *)

\* what an accepted response does
RespEffect(e) ==
    /\ open' = None
    /\ \A c \in Children :
         LET ans == {r \in ReqNames : <<c, r>> \in e.content} IN
         /\ reqs'[c] = reqs[c] \ ans
         /\ resp'[c] = resp[c] \cup ans
    /\ pnum' = e.num
    /\ assoc' = assoc
    /\ sg' = sg /\ nn' = nn

\* what a processed request does to signer s; m is the response it made
SignEffect(s, e, m) ==
    /\ UNCHANGED <<proxyVars, nn, rnum>>
    /\ \A z \in Signers : z # s => sg'[z] = sg[z]
    /\ sg'[s].id = sg[s].id /\ sg'[s].trusts = sg[s].trusts
    /\ Lt(sg[s].num, sg'[s].num)
    /\ sg'[s].done = sg[s].done + 1
    /\ m = [t |-> "resp", nonce |-> e.nonce, by |-> sg[s].id,
            content |-> e.content, num |-> sg'[s].num]

\* hand-over to child c during a synchronisation of c
SyncEffect(c, ok) ==
    LET given == resp[c] \ resp'[c] IN
    /\ given \subseteq want[c]
    /\ resp'[c] \subseteq resp[c]
    /\ ok => given = want[c] \cap resp[c]
    /\ \A r \in given :
         /\ r \notin want'[c] /\ r \notin reqs'[c]
         /\ IF IsIssue(r) THEN KeyOf(r) \in have'[c]
                          ELSE KeyOf(r) \notin have'[c]
    /\ reqs[c] \subseteq reqs'[c]
    /\ reqs'[c] \subseteq reqs[c] \cup (want[c] \ resp[c])
    /\ \A d \in Children \ {c} : reqs'[d] = reqs[d] /\ resp'[d] = resp[d]
    /\ UNCHANGED <<open, nn, assoc, pnum, sg, msgs>>

-----------------------------------------------------------------------------
(* The parts of the property for one step.  `kind` names the step, e/auth  *)
(* is the presented message, ok says the real call succeeded, untouched    *)
(* that nothing stored changed (besides the audit trail).                  *)

RefusedUnchangedStep(kind, s, e, auth, ok, untouched) ==
    /\ kind = "Resp" /\ ~ProxyAccepts(e, auth) =>
           ~ok /\ untouched /\ UNCHANGED vars
    /\ kind = "Sign" /\ ~SignerAccepts(s, e, auth) =>
           ~ok /\ untouched /\ UNCHANGED vars
    \* a second request while one is open is refused, too
    /\ kind = "MakeReq" /\ open # None => ~ok /\ UNCHANGED vars

OneResponsePerRequestStep(kind, s, e, auth, ok, m) ==
    /\ kind = "Resp" /\ ok =>
           /\ ProxyAccepts(e, auth)
           /\ e.content \subseteq Pending
           /\ RespEffect(e)
    /\ kind = "Sign" /\ ok =>
           /\ SignerAccepts(s, e, auth)
           /\ SignEffect(s, e, m)
    \* an authentic message that is declined changes nothing
    /\ kind \in {"Resp", "Sign"} /\ ~ok => UNCHANGED vars
    /\ kind = "MakeReq" /\ ok =>
           /\ open = None /\ open' = nn + 1 /\ nn' = nn + 1
           /\ m = [t |-> "req", nonce |-> nn + 1, by |-> ProxyKey,
                   content |-> Pending, num |-> <<0, 0>>]
           /\ UNCHANGED <<reqs, resp, assoc, pnum, sg>>
    /\ kind = "GetReq" /\ ok =>
           /\ open # None
           /\ m = [t |-> "req", nonce |-> open, by |-> ProxyKey,
                   content |-> Pending, num |-> <<0, 0>>]
           /\ UNCHANGED <<proxyVars, nn, sg>>

\* a child that presents ONE provisioning request (one key) at a time: at
\* most that one response is handed over, or that one request is queued;
\* everything else that waits for the child keeps waiting
SyncOneEffect(c, ok) ==
    LET given == resp[c] \ resp'[c]
        added == reqs'[c] \ reqs[c] IN
    /\ Cardinality(given) + Cardinality(added) <= 1
    /\ given \subseteq want[c] /\ resp'[c] \subseteq resp[c]
    /\ added \subseteq want[c] \ resp[c]
    /\ \A r \in given :
         /\ r \notin want'[c] /\ r \notin reqs'[c]
         /\ IF IsIssue(r) THEN KeyOf(r) \in have'[c]
                          ELSE KeyOf(r) \notin have'[c]
    /\ reqs[c] \subseteq reqs'[c]
    /\ \A d \in Children \ {c} : reqs'[d] = reqs[d] /\ resp'[d] = resp[d]
    /\ UNCHANGED <<open, nn, assoc, pnum, sg, msgs>>

DeliveredExactlyOnceStep(kind, c, ok) ==
    /\ kind = "Sync" => SyncEffect(c, ok)
    /\ kind = "SyncOne" => SyncOneEffect(c, ok)
    \* responses leave the proxy only towards the child that asks
    /\ kind \notin {"Sync", "SyncOne"} => \A d \in Children : resp[d] \subseteq resp'[d]
    /\ kind \in {"Roll", "Activate", "Wants", "RWants"} =>
            UNCHANGED <<proxyVars, nn, sg, msgs>>
    /\ kind \in {"Sync", "SyncOne"} => \A d \in Children \ {c} : resp[d] = resp'[d]

TaNumbersIncreaseStep(kind, ok) ==
    /\ Le(pnum, pnum') /\ Le(rnum, rnum')
    /\ kind = "Resp" /\ ok => Lt(pnum, pnum')
    /\ kind = "Reassoc" /\ ok => Lt(pnum, pnum')
    /\ kind \notin {"Resp", "Reassoc"} => pnum' = pnum
    /\ Le(rnum', pnum')
    /\ kind # "Reassoc" => \A s \in Signers : Le(sg[s].num, sg'[s].num)

\* requests waiting and responses waiting never overlap
Disjoint == \A c \in Children : reqs[c] \cap resp[c] = {}

-----------------------------------------------------------------------------
(* The model: what proxy, signer and children are designed to do.          *)

Variants == {"orig", "tnonce", "tcontent", "swap", "rsrand", "rsproxy"}

Wanted == IF open # None THEN open ELSE nn

\* the message (and whether its clear text is what was signed) that the
\* adversary makes of message i with variant v (k: the other message of a
\* swap); <<>> if the variant does not apply
Present(i, v, k) ==
    LET b == msgs[i] IN
    CASE v = "orig" -> <<b, TRUE>>
      [] v = "tnonce" ->
            IF b.nonce = Wanted THEN <<>>
            ELSE <<[b EXCEPT !.nonce = Wanted], FALSE>>
      [] v = "tcontent" ->
            IF b.t = "req" /\ b.content = {} THEN <<>>
            ELSE <<[b EXCEPT !.num = <<b.num[1] + 7, b.num[2]>>], FALSE>>
      [] v = "swap" ->
            IF k = i \/ msgs[k].t # b.t
               \/ [msgs[k] EXCEPT !.by = b.by] = b THEN <<>>
            ELSE <<[msgs[k] EXCEPT !.by = b.by], FALSE>>
      [] v = "rsrand" ->
            <<[b EXCEPT !.by = "kr",
                        !.nonce = IF b.t = "resp" THEN Wanted ELSE @], TRUE>>
      [] v = "rsproxy" ->
            <<[b EXCEPT !.by = ProxyKey,
                        !.nonce = IF b.t = "resp" THEN Wanted ELSE @], TRUE>>

\* model mutants
MProxyAccepts(e, auth) ==
    CASE Mutant = "nononce" -> e.t = "resp" /\ open # None /\ auth
                                /\ e.by = assoc
      [] Mutant = "noopen" -> e.t = "resp" /\ auth /\ e.by = assoc
                               /\ (open = None \/ e.nonce = open)
      [] Mutant = "nosig" -> e.t = "resp" /\ open # None /\ e.nonce = open
      [] Mutant = "nocontent" -> e.t = "resp" /\ open # None
                                  /\ e.nonce = open /\ e.by = assoc
      [] OTHER -> ProxyAccepts(e, auth)

MSignerAccepts(s, e, auth) ==
    CASE Mutant = "signernosig" -> e.t = "req" /\ auth
      [] Mutant = "signernocontent" -> e.t = "req" /\ e.by = sg[s].trusts
      [] OTHER -> SignerAccepts(s, e, auth)

\* can signer s carry out the requests of e
SignerCan(s, e) ==
    \A x \in e.content : IsIssue(x[2]) \/ <<x[1], KeyOf(x[2])>> \in sg[s].iss

Sign(s, i, v, k) ==
    /\ i \in 1..Len(msgs) /\ msgs[i].t = "req" /\ Len(msgs) < MaxMsgs
    /\ Present(i, v, k) # <<>>
    /\ LET e == Present(i, v, k)[1]  auth == Present(i, v, k)[2] IN
       IF MSignerAccepts(s, e, auth) /\ SignerCan(s, e)
       THEN /\ sg' = [sg EXCEPT
                  ![s].num = Inc(@), ![s].done = @ + 1,
                  ![s].iss = (@ \cup {<<x[1], KeyOf(x[2])>> :
                                  x \in {y \in e.content : IsIssue(y[2])}})
                             \ {<<x[1], KeyOf(x[2])>> :
                                  x \in {y \in e.content : ~IsIssue(y[2])}}]
            /\ msgs' = Append(msgs,
                   [t |-> "resp", nonce |-> e.nonce, by |-> sg[s].id,
                    content |-> e.content, num |-> Inc(sg[s].num)])
            /\ UNCHANGED <<open, nn, reqs, resp, assoc, pnum, rnum, want,
                           have>>
       ELSE UNCHANGED vars

Resp(i, v, k) ==
    /\ i \in 1..Len(msgs) /\ msgs[i].t = "resp"
    /\ Present(i, v, k) # <<>>
    /\ LET e == Present(i, v, k)[1]  auth == Present(i, v, k)[2] IN
       IF MProxyAccepts(e, auth)
       THEN /\ open' = IF Mutant = "noclose" THEN open ELSE None
            /\ reqs' = [c \in Children |->
                  reqs[c] \ {r \in ReqNames : <<c, r>> \in e.content}]
            /\ resp' = [c \in Children |->
                  LET ans == {r \in ReqNames : <<c, r>> \in e.content} IN
                  IF Mutant = "dropresp" /\ ans # {} THEN ans
                  ELSE resp[c] \cup ans]
            /\ pnum' = e.num
            /\ rnum' = IF Mutant = "nopublish" THEN rnum ELSE e.num
            /\ UNCHANGED <<nn, assoc, sg, want, have, msgs>>
       ELSE UNCHANGED vars

MakeReq ==
    /\ Len(msgs) < MaxMsgs /\ nn < MaxNonce
    /\ IF open = None \/ Mutant = "twoopen"
       THEN /\ open' = nn + 1 /\ nn' = nn + 1
            /\ msgs' = Append(msgs,
                   [t |-> "req", nonce |-> nn + 1, by |-> ProxyKey,
                    content |-> Pending, num |-> <<0, 0>>])
            /\ UNCHANGED <<reqs, resp, assoc, pnum, rnum, sg, want, have>>
       ELSE UNCHANGED vars

GetReq ==
    /\ Len(msgs) < MaxMsgs /\ open # None
    /\ msgs' = Append(msgs,
           [t |-> "req", nonce |-> open, by |-> ProxyKey,
            content |-> Pending, num |-> <<0, 0>>])
    /\ UNCHANGED <<open, nn, reqs, resp, assoc, pnum, rnum, sg, want, have>>

OtherProxyReq ==
    /\ Len(msgs) < MaxMsgs /\ nn < MaxNonce
    /\ \A j \in 1..Len(msgs) : msgs[j].by # "pB"
    /\ nn' = nn + 1
    /\ msgs' = Append(msgs, [t |-> "req", nonce |-> nn + 1, by |-> "pB",
                             content |-> {}, num |-> <<0, 0>>])
    /\ UNCHANGED <<open, reqs, resp, assoc, pnum, rnum, sg, want, have>>

\* environment: a child gets something to ask for (first certificate,
\* then a key roll)
ChildWants(c) ==
    /\ want[c] = {}
    /\ \/ /\ have[c] = {} /\ "i:ka" \notin reqs[c] \cup resp[c]
          /\ "i:ka" \in ReqNames
          /\ want' = [want EXCEPT ![c] = {"i:ka"}]
       \/ /\ "ka" \in have[c] /\ "kb" \notin have[c]
          /\ "i:kb" \notin reqs[c] \cup resp[c] /\ "i:kb" \in ReqNames
          /\ want' = [want EXCEPT ![c] = {"i:kb"}]
       \/ /\ {"ka", "kb"} \subseteq have[c]
          /\ "r:ka" \notin reqs[c] \cup resp[c] /\ "r:ka" \in ReqNames
          /\ want' = [want EXCEPT ![c] = {"r:ka"}]
    /\ UNCHANGED <<open, nn, reqs, resp, assoc, pnum, rnum, sg, have, msgs>>

\* a child talks to the proxy: fetches what waits for it, queues the rest
Sync(c) ==
    /\ want[c] # {}
    /\ LET given == want[c] \cap resp[c] IN
       /\ resp' = [resp EXCEPT ![c] = IF Mutant = "keepresp" THEN @
                                      ELSE @ \ given]
       /\ reqs' = [reqs EXCEPT ![c] = @ \cup (want[c] \ resp[c])]
       /\ want' = [want EXCEPT ![c] = @ \ given]
       /\ have' = [have EXCEPT ![c] =
              (@ \cup {KeyOf(r) : r \in {x \in given : IsIssue(x)}})
                 \ {KeyOf(r) : r \in {x \in given : ~IsIssue(x)}}]
    /\ UNCHANGED <<open, nn, assoc, pnum, rnum, sg, msgs>>

\* A child of the trust anchor whose requests reach the proxy one at a time
\* (the name rc).  The proxy keeps a request and a response slot per child
\* KEY, and processes one provisioning request per call
\* (manager.rs rfc6492_process_request -> ta_slow_rfc6492_request): a child
\* may have requests for several keys, and a response can still be waiting
\* for it while another of its requests is answered in a later exchange.
\* (A hosted child presents all its open requests in one synchronisation,
\* and krill refuses signed messages addressed to the trust anchor, so in a
\* deployment this interleaving needs an interrupted synchronisation; the
\* harness presents the requests through the processing entry itself.)
Remote == {"rc"} \cap Children
RWants(c, r) ==
    /\ c \in Remote /\ r \in ReqNames
    /\ r \notin want[c] \cup reqs[c] \cup resp[c]
    /\ Cardinality(want[c]) < 2
    /\ IF IsIssue(r) THEN KeyOf(r) \notin have[c] ELSE KeyOf(r) \in have[c]
    /\ want' = [want EXCEPT ![c] = @ \cup {r}]
    /\ UNCHANGED <<open, nn, reqs, resp, assoc, pnum, rnum, sg, have, msgs>>
SyncOne(c, r) ==
    /\ c \in Remote /\ r \in want[c]
    /\ IF r \in resp[c]
       THEN /\ resp' = [resp EXCEPT ![c] = @ \ {r}]
            /\ want' = [want EXCEPT ![c] = @ \ {r}]
            /\ have' = [have EXCEPT ![c] =
                   IF IsIssue(r) THEN @ \cup {KeyOf(r)} ELSE @ \ {KeyOf(r)}]
            /\ reqs' = reqs
       ELSE /\ reqs' = [reqs EXCEPT ![c] = @ \cup {r}]
            /\ UNCHANGED <<resp, want, have>>
    /\ UNCHANGED <<open, nn, assoc, pnum, rnum, sg, msgs>>

\* the signer S1 is initialised again (new identity, numbering continued
\* by the operator) and the proxy is associated with it
Reassoc ==
    /\ \/ sg["S1"].id = "g1" /\ MaxReassoc >= 1
       \/ sg["S1"].id = "g3" /\ MaxReassoc >= 2
    /\ LET newid == IF sg["S1"].id = "g1" THEN "g3" ELSE "g4"
           \* the operator continues the numbering ("numreset": does not)
           start == IF Mutant = "numreset" THEN <<1, 1>> ELSE Inc(pnum) IN
       /\ sg' = [sg EXCEPT !["S1"] =
                    [id |-> newid, trusts |-> ProxyKey, num |-> start,
                     done |-> 0, iss |-> {}]]
       /\ assoc' = newid
       /\ pnum' = start /\ rnum' = start
    /\ UNCHANGED <<open, nn, reqs, resp, want, have, msgs>>

Next ==
    \/ \E c \in Children \ Remote : ChildWants(c) \/ Sync(c)
    \/ \E c \in Remote, r \in ReqNames : RWants(c, r) \/ SyncOne(c, r)
    \/ MakeReq \/ GetReq \/ OtherProxyReq \/ Reassoc
    \/ \E s \in Signers, i \in 1..Len(msgs), v \in Variants,
          k \in 1..Len(msgs) : Sign(s, i, v, k)
    \/ \E i \in 1..Len(msgs), v \in Variants, k \in 1..Len(msgs) :
          Resp(i, v, k)

Spec == Init /\ [][Next]_vars
=============================================================================
