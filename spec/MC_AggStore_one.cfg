\* 3 threads x 2 aggregates x 1 operation, every operation kind
CONSTANTS
  t1 = t1
  t2 = t2
  t3 = t3
  e1 = e1
  e2 = e2
  w1 = w1
  n1 = n1
  Threads = {t1,t2,t3}
  Entities = {e1,e2}
  WalEntities = {}
  NewEntities = {}
  MaxOps = 1
  Ops = {"ok","noop","reject","presave_fail","cond","read","fread","snap","lsnap","hist","list"}
  LockMode = "write"
SPECIFICATION Spec
INVARIANT Safety
PROPERTY AppendOnly
CHECK_DEADLOCK TRUE
SYMMETRY SymTE
