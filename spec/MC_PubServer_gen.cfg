CONSTANTS
  Pubs <- PubsNested
  Uris <- UrisNested
  Contents <- Cont
  Size <- SizeSmall
  MinNr = 0
  MaxNr = 2
  MinAge = "zero"
  MaxAge = "inf"
  MaxNrEquality = FALSE
  MaxSerial = 9
  MaxSession = 9
  DeltaChoices <- Deltas2
  Depth = 24
  MaxStreak = 2
  MaxElems = 3
  Exhaustive = FALSE
INIT GenInit
NEXT GenNext
INVARIANT PrintBehaviour
CHECK_DEADLOCK FALSE
