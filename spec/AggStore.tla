----------------------------- MODULE AggStore -----------------------------
(***************************************************************************)
(* The aggregate store and the write-ahead-log store of Krill on top of    *)
(* the locking key-value back-ends.                                        *)
(*                                                                         *)
(* Anchors: src/commons/eventsourcing/store.rs (AggregateStore::           *)
(* execute_opt_command 271-562, add_with_context 192-244, command_history  *)
(* 593-663), src/commons/eventsourcing/wal.rs (WalStore::                  *)
(* execute_opt_command 267-439), src/commons/storage/backends/memory.rs    *)
(* 141-164 and disk.rs 191-227 (execute on a scope = read lock on the      *)
(* namespace root, then write lock on the scope).                          *)
(*                                                                         *)
(* One action per sub-step that is separated from the next by a storage,   *)
(* cache or lock operation.  What the code does is modelled, including:    *)
(*  - reads (get_latest) run through the same locked code path as          *)
(*    commands;                                                            *)
(*  - a successful command does NOT set changed_from_cached, so the cache  *)
(*    is only refreshed when the aggregate was not loaded from the cache   *)
(*    or when stored commands had to be re-applied: the cache may lag      *)
(*    behind the stored commands by one command (store.rs:448-545);        *)
(*  - a rejected command is stored with its error and bumps the version;   *)
(*  - a failing pre-save listener leaves nothing: no key, no cache update; *)
(*  - kv.store quietly overwrites an existing key; the only guard is the   *)
(*    "command key in use" check, whose failure is process::exit(1);       *)
(*  - the scheduler takes snapshots through a *fresh* store instance       *)
(*    (scheduler.rs:549-626), i.e. with an empty private cache;            *)
(*  - the WAL store keeps no audit record of rejected commands, returns    *)
(*    early on a rejection (no cache update) and deletes all wal-N keys    *)
(*    when it writes a snapshot.                                           *)
(*                                                                         *)
(* Not modelled here: crashes and I/O errors (C08), the writer preference  *)
(* of std::sync::RwLock and flock semantics (C18).                         *)
(*                                                                         *)
(* Abstraction of an aggregate state: its version and the sequence of      *)
(* identifiers of the commands whose events have been applied ("eff").     *)
(* What the events do to the data is the business of `apply`, which is     *)
(* bound differentially by the C06 check.                                  *)
(***************************************************************************)
EXTENDS Integers, Sequences, FiniteSets, TLC

CONSTANTS
    Threads,        \* thread identifiers
    Entities,       \* entity names
    WalEntities,    \* the entities kept in a WalStore (subset of Entities)
    NewEntities,    \* entities that do not exist initially (created by "add")
    MaxOps,         \* operations per thread
    Ops,            \* operation kinds the environment uses
    LockMode        \* "write" = as coded; "read" = weakened scope lock

ASSUME WalEntities \subseteq Entities /\ NewEntities \subseteq Entities
ASSUME LockMode \in {"write", "read"}

AggEntities == Entities \ WalEntities
IsWal(e) == e \in WalEntities

\* Operation kinds.
\*  ok, noop, reject, presave_fail : command_with_context / send_command
\*                       with that outcome of process_command / pre-save
\*  cond   : a command whose outcome (ok / reject / noop) depends on the
\*           state it meets; the choice is left open
\*  read   : get_latest on the live store
\*  fread  : get_latest on a fresh store instance (empty cache)
\*  snap   : save_snapshot / update_snapshot on a fresh store instance
\*  lsnap  : save_snapshot / update_snapshot on the live store
\*  add    : add_with_context (aggregate store only)
\*  hist   : command_history (aggregate store only)
\*  list   : list() - takes the namespace root lock exclusively
CmdOps == {"ok", "noop", "reject", "presave_fail", "cond"}
AllOps == CmdOps \cup {"read", "fread", "snap", "lsnap", "add", "hist", "list"}
ASSUME Ops \subseteq AllOps

IsCmd(o) == o \in CmdOps
IsFresh(o) == o \in {"fread", "snap"}
IsSnap(o) == o \in {"snap", "lsnap"}

None == [none |-> TRUE]
NoThread == 999                     \* no thread (threads are small naturals)
NoEnt == "noent"

VARIABLES
    cmds,       \* [Entities -> partial function version -> record]:
                \*   the keys command-N.json (wal-N.json for a WAL entity)
    snap,       \* [Entities -> state or None]: snapshot.json
    cache,      \* [Entities -> state or None]: cache of the live store
    hcache,     \* [Entities -> sequence of <<version, record>>]: history cache
    order,      \* ghost: [Entities -> sequence of ids]: effective commands
                \*   in the order in which they were stored
    lock,       \* [Entities -> set of threads holding the scope lock]
    root,       \* set of threads holding the namespace root lock shared
    rootw,      \* thread holding the root lock exclusively, or NoThread
    pc,         \* [Threads -> program counter]
    ent,        \* [Threads -> entity being worked on]
    op,         \* [Threads -> operation kind]
    kind,       \* [Threads -> resolved outcome of the command]
    loc,        \* [Threads -> local copy of the aggregate]
    changed,    \* [Threads -> BOOLEAN]: changed_from_cached
    cver,       \* [Threads -> version the command is processed at]
    pend,       \* [Threads -> record about to be stored]
    res,        \* [Threads -> "ok" | "err" | "none"]: result for the caller
    before,     \* [Threads -> what the entity looked like when the lock was
                \*   taken: keys, cache, state] (for the leaves-no-trace props)
    nops,       \* [Threads -> number of completed operations]
    returned,   \* set of acknowledgements handed to callers
    exited      \* the "command key in use" guard fired: process::exit(1)

vars == <<cmds, snap, cache, hcache, order, lock, root, rootw, pc, ent, op,
          kind, loc, changed, cver, pend, res, before, nops, returned,
          exited>>

-----------------------------------------------------------------------------
(* Aggregate states and stored records *)

InitState == [ver |-> 1, eff |-> <<>>]      \* A::init: version 1
WalInitState == [ver |-> 0, eff |-> <<>>]   \* revision 0

Id(t, i) == <<t, i>>
ActorOf(t) == t                      \* every thread acts as its own actor
SetupThread == 0                   \* who wrote what exists initially
SetupId(v) == <<SetupThread, v>>

OkRec(id, a) == [kind |-> "ok", id |-> id, actor |-> a]
ErrRec(id, a) == [kind |-> "err", id |-> id, actor |-> a]
InitRec(id, a) == [kind |-> "init", id |-> id, actor |-> a]

\* Aggregate::apply_command: bump the version, apply the events if any.
Apply(st, rec) ==
    [ver |-> st.ver + 1,
     eff |-> IF rec.kind = "ok" THEN Append(st.eff, rec.id) ELSE st.eff]

\* Apply every stored command from st.ver on, as long as the next key exists.
RECURSIVE ReplayFromIn(_, _)
ReplayFromIn(st, cm) ==
    IF st.ver \in DOMAIN cm THEN ReplayFromIn(Apply(st, cm[st.ver]), cm)
    ELSE st
ReplayFrom(st, e) == ReplayFromIn(st, cmds[e])

\* Same, but stop at version v.
RECURSIVE ReplayToIn(_, _, _)
ReplayToIn(st, cm, v) ==
    IF st.ver < v /\ st.ver \in DOMAIN cm
    THEN ReplayToIn(Apply(st, cm[st.ver]), cm, v)
    ELSE st

Exists(e) == IF IsWal(e) THEN snap[e] # None ELSE 0 \in DOMAIN cmds[e]

\* The state rebuilt from scratch (aggregate store) / from the snapshot
\* and the log (WAL store: there is nothing older than the snapshot).
FullReplay(e) ==
    IF ~Exists(e) THEN None
    ELSE IF IsWal(e) THEN ReplayFrom(snap[e], e)
    ELSE ReplayFrom(InitState, e)

\* What a fresh store loads: the snapshot if there is one, else init.
SnapReplay(e) ==
    IF ~Exists(e) THEN None
    ELSE IF snap[e] # None THEN ReplayFrom(snap[e], e)
    ELSE ReplayFrom(InitState, e)

\* What the live store returns for get_latest.
LiveState(e) ==
    IF cache[e] # None THEN ReplayFrom(cache[e], e) ELSE SnapReplay(e)

NextVer(e) == LET s == FullReplay(e) IN IF s = None THEN 0 ELSE s.ver

Count(seq, x) == Cardinality({i \in 1..Len(seq) : seq[i] = x})
IsPrefix(s, t) == Len(s) <= Len(t) /\ \A i \in 1..Len(s) : s[i] = t[i]

\* The command history as command_history() finds it: versions 1, 2, ...
\* as long as get_command succeeds, continuing after the cached records.
RECURSIVE HistScanIn(_, _, _)
HistScanIn(cm, v, acc) ==
    IF v \in DOMAIN cm THEN HistScanIn(cm, v + 1, Append(acc, <<v, cm[v]>>))
    ELSE acc
HistScan(e, cached) ==
    HistScanIn(cmds[e],
               IF cached = <<>> THEN 1 ELSE cached[Len(cached)][1] + 1,
               cached)

-----------------------------------------------------------------------------
(* Initial state: existing aggregates have their init command (version 0), *)
(* nothing cached (the daemon warms the cache through get_latest, which    *)
(* the "read" operation covers); WAL entities have their first snapshot.   *)

InitCmds(e) ==
    IF e \in NewEntities \/ IsWal(e) THEN <<>>
    ELSE (0 :> InitRec(SetupId(0), SetupThread))

Init ==
    /\ cmds = [e \in Entities |-> InitCmds(e)]
    /\ snap = [e \in Entities |->
                IF IsWal(e) /\ e \notin NewEntities THEN WalInitState
                ELSE None]
    /\ cache = [e \in Entities |-> None]
    /\ hcache = [e \in Entities |-> <<>>]
    /\ order = [e \in Entities |-> <<>>]
    /\ lock = [e \in Entities |-> {}]
    /\ root = {}
    /\ rootw = NoThread
    /\ pc = [t \in Threads |-> "idle"]
    /\ ent = [t \in Threads |-> NoEnt]
    /\ op = [t \in Threads |-> "none"]
    /\ kind = [t \in Threads |-> "none"]
    /\ loc = [t \in Threads |-> None]
    /\ changed = [t \in Threads |-> FALSE]
    /\ cver = [t \in Threads |-> 0]
    /\ pend = [t \in Threads |-> None]
    /\ res = [t \in Threads |-> "none"]
    /\ before = [t \in Threads |-> None]
    /\ nops = [t \in Threads |-> 0]
    /\ returned = {}
    /\ exited = FALSE

-----------------------------------------------------------------------------
(* Actions *)

MyId(t) == Id(t, nops[t] + 1)

\* A caller starts an operation (and is about to wait for the root lock).
Begin(t, e, o) ==
    /\ pc[t] = "idle" /\ nops[t] < MaxOps /\ ~exited
    /\ o \in Ops
    /\ (o \in {"add", "hist"} => ~IsWal(e))
    /\ (o = "presave_fail" => ~IsWal(e))
    /\ pc' = [pc EXCEPT ![t] = IF o = "hist" THEN "hist"
                               ELSE IF o = "list" THEN "rootw" ELSE "root"]
    /\ ent' = [ent EXCEPT ![t] = e]
    /\ op' = [op EXCEPT ![t] = o]
    /\ kind' = [kind EXCEPT ![t] = IF o = "cond" THEN "open" ELSE o]
    /\ loc' = [loc EXCEPT ![t] = None]
    /\ changed' = [changed EXCEPT ![t] = FALSE]
    /\ pend' = [pend EXCEPT ![t] = None]
    /\ res' = [res EXCEPT ![t] = "none"]
    /\ before' = [before EXCEPT ![t] = None]
    /\ UNCHANGED <<cmds, snap, cache, hcache, order, lock, root, rootw, cver,
                   nops, returned, exited>>

\* execute_scoped: read lock on the namespace root ...
AcquireRoot(t) ==
    /\ pc[t] = "root" /\ rootw = NoThread
    /\ root' = root \cup {t}
    /\ pc' = [pc EXCEPT ![t] = "scope"]
    /\ UNCHANGED <<cmds, snap, cache, hcache, order, lock, rootw, ent, op,
                   kind, loc, changed, cver, pend, res, before, nops,
                   returned, exited>>

\* ... then the lock on the scope (exclusive as coded).
ScopeFree(e) == IF LockMode = "write" THEN lock[e] = {} ELSE TRUE

AcquireScope(t) ==
    /\ pc[t] = "scope" /\ ScopeFree(ent[t])
    /\ lock' = [lock EXCEPT ![ent[t]] = @ \cup {t}]
    /\ before' = [before EXCEPT ![t] =
                    [keys |-> DOMAIN cmds[ent[t]], cache |-> cache[ent[t]],
                     snap |-> snap[ent[t]], order |-> order[ent[t]],
                     state |-> None]]
    /\ pc' = [pc EXCEPT ![t] = IF op[t] = "add" THEN "addcheck" ELSE "load"]
    /\ UNCHANGED <<cmds, snap, cache, hcache, order, root, rootw, ent, op,
                   kind, loc, changed, cver, pend, res, nops, returned,
                   exited>>

\* add_with_context: refuse if command-0 exists ...
AddCheck(t) ==
    /\ pc[t] = "addcheck"
    /\ IF 0 \in DOMAIN cmds[ent[t]]
       THEN /\ res' = [res EXCEPT ![t] = "err"]
            /\ pc' = [pc EXCEPT ![t] = "rel"]
       ELSE /\ res' = res
            /\ pc' = [pc EXCEPT ![t] = "addstore"]
    /\ UNCHANGED <<cmds, snap, cache, hcache, order, lock, root, rootw, ent,
                   op, kind, loc, changed, cver, pend, before, nops, returned,
                   exited>>

\* ... else store the init command ...
AddStore(t) ==
    /\ pc[t] = "addstore"
    /\ cmds' = [cmds EXCEPT ![ent[t]] =
                  (0 :> InitRec(MyId(t), ActorOf(t))) @@ @]
    /\ loc' = [loc EXCEPT ![t] = InitState]
    /\ cver' = [cver EXCEPT ![t] = 0]
    /\ pc' = [pc EXCEPT ![t] = "addcache"]
    /\ UNCHANGED <<snap, cache, hcache, order, lock, root, rootw, ent, op,
                   kind, changed, pend, res, before, nops, returned, exited>>

\* ... and put the new aggregate into the cache.
AddCache(t) ==
    /\ pc[t] = "addcache"
    /\ cache' = [cache EXCEPT ![ent[t]] = loc[t]]
    /\ res' = [res EXCEPT ![t] = "ok"]
    /\ pc' = [pc EXCEPT ![t] = "rel"]
    /\ UNCHANGED <<cmds, snap, hcache, order, lock, root, rootw, ent, op,
                   kind, loc, changed, cver, pend, before, nops, returned,
                   exited>>

\* Load: from the cache, else the snapshot, else the init command.
Load(t) ==
    LET e == ent[t]
        c == IF IsFresh(op[t]) THEN None ELSE cache[e]
    IN
    /\ pc[t] = "load"
    /\ IF c # None
       THEN /\ loc' = [loc EXCEPT ![t] = c]
            /\ changed' = [changed EXCEPT ![t] = FALSE]
            /\ pc' = [pc EXCEPT ![t] = "apply"]
            /\ res' = res
       ELSE IF snap[e] # None
       THEN /\ loc' = [loc EXCEPT ![t] = snap[e]]
            /\ changed' = [changed EXCEPT ![t] = TRUE]
            /\ pc' = [pc EXCEPT ![t] = "apply"]
            /\ res' = res
       ELSE IF ~IsWal(e) /\ 0 \in DOMAIN cmds[e]
       THEN /\ loc' = [loc EXCEPT ![t] = InitState]
            /\ changed' = [changed EXCEPT ![t] = TRUE]
            /\ pc' = [pc EXCEPT ![t] = "apply"]
            /\ res' = res
       ELSE \* unknown aggregate: the closure returns early
            /\ loc' = loc
            /\ changed' = [changed EXCEPT ![t] = TRUE]
            /\ res' = [res EXCEPT ![t] = "err"]
            /\ pc' = [pc EXCEPT ![t] = "rel"]
    /\ kind' = [kind EXCEPT ![t] = IF c = None /\ ~Exists(e) /\ snap[e] = None
                                   THEN "unknown" ELSE @]
    /\ UNCHANGED <<cmds, snap, cache, hcache, order, lock, root, rootw, ent,
                   op, cver, pend, before, nops, returned, exited>>

\* Apply the stored commands the loaded copy has not seen yet.
ApplyStored(t) ==
    LET e == ent[t]
        st == ReplayFrom(loc[t], e)
    IN
    /\ pc[t] = "apply"
    /\ loc' = [loc EXCEPT ![t] = st]
    /\ changed' = [changed EXCEPT ![t] = @ \/ st.ver # loc[t].ver]
    /\ before' = [before EXCEPT ![t].state = st]
    /\ pc' = [pc EXCEPT ![t] =
                IF ~IsCmd(op[t]) THEN "cache"
                ELSE IF IsWal(e) THEN "process" ELSE "check"]
    /\ res' = [res EXCEPT ![t] = IF IsCmd(op[t]) THEN @ ELSE "ok"]
    /\ UNCHANGED <<cmds, snap, cache, hcache, order, lock, root, rootw, ent,
                   op, kind, cver, pend, nops, returned, exited>>

\* The new command key must not be in use; if it is, the process exits.
CheckKeyFree(t) ==
    /\ pc[t] = "check"
    /\ cver' = [cver EXCEPT ![t] = loc[t].ver]
    /\ IF loc[t].ver \in DOMAIN cmds[ent[t]]
       THEN exited' = TRUE /\ pc' = [pc EXCEPT ![t] = "dead"]
       ELSE exited' = exited /\ pc' = [pc EXCEPT ![t] = "process"]
    /\ UNCHANGED <<cmds, snap, cache, hcache, order, lock, root, rootw, ent,
                   op, kind, loc, changed, pend, res, before, nops, returned>>

\* process_command and, for a command with events, the pre-save listener.
ProcessAgg(t, k) ==
    LET id == MyId(t) IN
    /\ pc[t] = "process" /\ ~IsWal(ent[t])
    /\ k \in {"ok", "noop", "reject", "presave_fail"}
    /\ kind[t] \in {k, "open"}
    /\ kind' = [kind EXCEPT ![t] = k]
    /\ CASE k = "ok" ->
              \* events applied, pre-save listener content: store next.
              \* NB: changed_from_cached is NOT set on this path.
              /\ loc' = [loc EXCEPT ![t] = Apply(@, OkRec(id, ActorOf(t)))]
              /\ pend' = [pend EXCEPT ![t] = OkRec(id, ActorOf(t))]
              /\ changed' = changed
              /\ res' = [res EXCEPT ![t] = "ok"]
              /\ pc' = [pc EXCEPT ![t] = "store"]
         [] k = "presave_fail" ->
              \* events applied to the local copy, listener fails:
              \* changed_from_cached := false, nothing is stored
              /\ loc' = [loc EXCEPT ![t] = Apply(@, OkRec(id, ActorOf(t)))]
              /\ pend' = pend
              /\ changed' = [changed EXCEPT ![t] = FALSE]
              /\ res' = [res EXCEPT ![t] = "err"]
              /\ pc' = [pc EXCEPT ![t] = "cache"]
         [] k = "noop" ->
              /\ loc' = loc /\ pend' = pend /\ changed' = changed
              /\ res' = [res EXCEPT ![t] = "ok"]
              /\ pc' = [pc EXCEPT ![t] = "cache"]
         [] k = "reject" ->
              \* the error is applied (version bump) and stored
              /\ loc' = [loc EXCEPT ![t] = Apply(@, ErrRec(id, ActorOf(t)))]
              /\ pend' = [pend EXCEPT ![t] = ErrRec(id, ActorOf(t))]
              /\ changed' = [changed EXCEPT ![t] = TRUE]
              /\ res' = [res EXCEPT ![t] = "err"]
              /\ pc' = [pc EXCEPT ![t] = "store"]
    /\ UNCHANGED <<cmds, snap, cache, hcache, order, lock, root, rootw, ent,
                   op, cver, before, nops, returned, exited>>

\* WalStore: no audit of errors (early return, not even a cache update),
\* the key check comes after process_command.
ProcessWal(t, k) ==
    LET id == MyId(t) IN
    /\ pc[t] = "process" /\ IsWal(ent[t])
    /\ k \in {"ok", "noop", "reject"}
    /\ kind[t] \in {k, "open"}
    /\ kind' = [kind EXCEPT ![t] = k]
    /\ cver' = [cver EXCEPT ![t] = loc[t].ver]
    /\ CASE k = "ok" ->
              IF loc[t].ver \in DOMAIN cmds[ent[t]]
              THEN /\ exited' = TRUE /\ pc' = [pc EXCEPT ![t] = "dead"]
                   /\ UNCHANGED <<loc, pend, changed, res>>
              ELSE /\ loc' = [loc EXCEPT ![t] =
                                Apply(@, OkRec(id, ActorOf(t)))]
                   /\ pend' = [pend EXCEPT ![t] = OkRec(id, ActorOf(t))]
                   /\ changed' = [changed EXCEPT ![t] = TRUE]
                   /\ res' = [res EXCEPT ![t] = "ok"]
                   /\ pc' = [pc EXCEPT ![t] = "store"]
                   /\ exited' = exited
         [] k = "noop" ->
              /\ res' = [res EXCEPT ![t] = "ok"]
              /\ pc' = [pc EXCEPT ![t] = "cache"]
              /\ UNCHANGED <<loc, pend, changed, exited>>
         [] k = "reject" ->
              /\ res' = [res EXCEPT ![t] = "err"]
              /\ pc' = [pc EXCEPT ![t] = "rel"]
              /\ UNCHANGED <<loc, pend, changed, exited>>
    /\ UNCHANGED <<cmds, snap, cache, hcache, order, lock, root, rootw, ent,
                   op, before, nops, returned>>

\* kv.store of the command (quietly overwrites).
StoreCmd(t) ==
    /\ pc[t] = "store"
    /\ cmds' = [cmds EXCEPT ![ent[t]] = (cver[t] :> pend[t]) @@ @]
    /\ order' = [order EXCEPT ![ent[t]] =
                   IF pend[t].kind = "ok" THEN Append(@, pend[t].id) ELSE @]
    /\ pc' = [pc EXCEPT ![t] = "cache"]
    /\ UNCHANGED <<snap, cache, hcache, lock, root, rootw, ent, op, kind,
                   loc, changed, cver, pend, res, before, nops, returned,
                   exited>>

\* if changed_from_cached { cache_update } - a fresh store instance
\* updates its own private cache, which nobody else ever sees.
CacheStep(t) ==
    /\ pc[t] = "cache"
    /\ cache' = IF changed[t] /\ ~IsFresh(op[t])
                THEN [cache EXCEPT ![ent[t]] = loc[t]] ELSE cache
    /\ pc' = [pc EXCEPT ![t] = IF IsSnap(op[t]) THEN "snapshot" ELSE "rel"]
    /\ UNCHANGED <<cmds, snap, hcache, order, lock, root, rootw, ent, op,
                   kind, loc, changed, cver, pend, res, before, nops,
                   returned, exited>>

\* save_snapshot; the WAL store also deletes every wal-N key.
Snapshot(t) ==
    /\ pc[t] = "snapshot"
    /\ snap' = [snap EXCEPT ![ent[t]] = loc[t]]
    /\ cmds' = IF IsWal(ent[t]) THEN [cmds EXCEPT ![ent[t]] = <<>>] ELSE cmds
    /\ pc' = [pc EXCEPT ![t] = "rel"]
    /\ UNCHANGED <<cache, hcache, order, lock, root, rootw, ent, op, kind,
                   loc, changed, cver, pend, res, before, nops, returned,
                   exited>>

ReleaseScope(t) ==
    /\ pc[t] = "rel"
    /\ lock' = [lock EXCEPT ![ent[t]] = @ \ {t}]
    /\ pc' = [pc EXCEPT ![t] = "relroot"]
    /\ UNCHANGED <<cmds, snap, cache, hcache, order, root, rootw, ent, op,
                   kind, loc, changed, cver, pend, res, before, nops,
                   returned, exited>>

\* What the caller gets.  Only commands and adds are acknowledged in
\* `returned`; the other operations are judged at pc = "rel".
Ack(t) ==
    [id |-> MyId(t), e |-> ent[t], kind |-> kind[t], res |-> res[t],
     ver |-> IF res[t] = "ok" THEN loc[t].ver ELSE 0]

ReleaseRoot(t) ==
    /\ pc[t] = "relroot"
    /\ root' = root \ {t}
    /\ returned' = IF IsCmd(op[t]) \/ op[t] = "add"
                   THEN returned \cup {Ack(t)} ELSE returned
    /\ nops' = [nops EXCEPT ![t] = @ + 1]
    /\ pc' = [pc EXCEPT ![t] = "idle"]
    /\ UNCHANGED <<cmds, snap, cache, hcache, order, lock, rootw, ent, op,
                   kind, loc, changed, cver, pend, res, before, exited>>

\* command_history with the history cache.  Each get_command takes the
\* scope lock on its own; the scan is modelled as one step (commands are
\* only ever appended, so a scan that races with a store sees a prefix).
History(t) ==
    LET e == ent[t] IN
    /\ pc[t] = "hist"
    /\ lock[e] = {} \/ LockMode = "read"
    /\ hcache' = [hcache EXCEPT ![e] = HistScan(e, @)]
    /\ nops' = [nops EXCEPT ![t] = @ + 1]
    /\ pc' = [pc EXCEPT ![t] = "idle"]
    /\ UNCHANGED <<cmds, snap, cache, order, lock, root, rootw, ent, op,
                   kind, loc, changed, cver, pend, res, before, returned,
                   exited>>

\* list(): execute(None, ..) holds the namespace root lock exclusively.
AcquireRootW(t) ==
    /\ pc[t] = "rootw" /\ root = {} /\ rootw = NoThread
    /\ rootw' = t
    /\ pc' = [pc EXCEPT ![t] = "relrootw"]
    /\ UNCHANGED <<cmds, snap, cache, hcache, order, lock, root, ent, op,
                   kind, loc, changed, cver, pend, res, before, nops,
                   returned, exited>>

ReleaseRootW(t) ==
    /\ pc[t] = "relrootw"
    /\ rootw' = NoThread
    /\ nops' = [nops EXCEPT ![t] = @ + 1]
    /\ pc' = [pc EXCEPT ![t] = "idle"]
    /\ UNCHANGED <<cmds, snap, cache, hcache, order, lock, root, ent, op,
                   kind, loc, changed, cver, pend, res, before, returned,
                   exited>>

Step(t) ==
    \/ \E e \in Entities, o \in Ops : Begin(t, e, o)
    \/ AcquireRoot(t) \/ AcquireScope(t)
    \/ AddCheck(t) \/ AddStore(t) \/ AddCache(t)
    \/ Load(t) \/ ApplyStored(t) \/ CheckKeyFree(t)
    \/ \E k \in {"ok", "noop", "reject", "presave_fail"} : ProcessAgg(t, k)
    \/ \E k \in {"ok", "noop", "reject"} : ProcessWal(t, k)
    \/ StoreCmd(t) \/ CacheStep(t) \/ Snapshot(t)
    \/ ReleaseScope(t) \/ ReleaseRoot(t)
    \/ History(t) \/ AcquireRootW(t) \/ ReleaseRootW(t)

\* Everything has been done (or the process has exited): stutter, so that
\* any other state without a successor is reported as a deadlock.
Finished ==
    /\ exited \/ \A t \in Threads : pc[t] = "idle" /\ nops[t] = MaxOps
    /\ UNCHANGED vars

Next == (\E t \in Threads : Step(t)) \/ Finished

Spec == Init /\ [][Next]_vars

-----------------------------------------------------------------------------
(* Properties *)

TypeOK ==
    /\ \A e \in Entities :
         /\ DOMAIN cmds[e] \subseteq Nat
         /\ \A v \in DOMAIN cmds[e] :
              cmds[e][v].kind \in {"ok", "err", "init"}
         /\ snap[e] = None \/ snap[e].ver \in Nat
         /\ cache[e] = None \/ cache[e].ver \in Nat
         /\ lock[e] \subseteq Threads
    /\ root \subseteq Threads
    /\ rootw \in Threads \cup {NoThread}
    /\ \A t \in Threads :
         /\ pc[t] \in {"idle", "root", "scope", "addcheck", "addstore",
                       "addcache", "load", "apply", "check", "process",
                       "store", "cache", "snapshot", "rel", "relroot",
                       "hist", "rootw", "relrootw", "dead"}
         /\ nops[t] \in 0..MaxOps
         /\ res[t] \in {"ok", "err", "none"}
    /\ exited \in BOOLEAN

\* The scope lock is exclusive and only taken under the root lock.
LockDiscipline ==
    /\ \A e \in Entities : Cardinality(lock[e]) <= 1
    /\ \A e \in Entities : lock[e] \subseteq root
    /\ rootw # NoThread => root = {}

\* The guard against overwriting a command never fires.
NoExit == ~exited

\* Keys of an aggregate are command-0 .. command-(n-1); the keys of a WAL
\* entity are wal-r .. wal-(r+n-1) where r is the snapshot's revision.
VersionsContiguous ==
    \A e \in Entities :
        LET n == Cardinality(DOMAIN cmds[e]) IN
        IF IsWal(e)
        THEN snap[e] # None =>
                DOMAIN cmds[e] = snap[e].ver .. (snap[e].ver + n - 1)
        ELSE DOMAIN cmds[e] = 0 .. (n - 1)

InFlight == {MyId(t) : t \in {u \in Threads : pc[u] # "idle"}}

\* Every acknowledged state-changing or rejected command has exactly one
\* version, every effect is applied exactly once, nothing else is stored.
ExactlyOnceAt(e) ==
    LET acks == {r \in returned : r.e = e}
        Hits(id) == {v \in DOMAIN cmds[e] : cmds[e][v].id = id}
    IN
    /\ \A r \in acks :
         CASE r.kind = "ok" ->
                /\ r.res = "ok"
                /\ Count(order[e], r.id) = 1
                /\ ~IsWal(e) =>
                     /\ Hits(r.id) = {r.ver - 1}
                     /\ cmds[e][r.ver - 1].kind = "ok"
           [] r.kind = "reject" ->
                /\ r.res = "err"
                /\ Count(order[e], r.id) = 0
                /\ ~IsWal(e) =>
                     /\ Cardinality(Hits(r.id)) = 1
                     /\ \A v \in Hits(r.id) : cmds[e][v].kind = "err"
                /\ IsWal(e) => Hits(r.id) = {}
           [] r.kind \in {"noop", "presave_fail"} ->
                /\ r.res = IF r.kind = "noop" THEN "ok" ELSE "err"
                /\ Hits(r.id) = {}
                /\ Count(order[e], r.id) = 0
           [] r.kind = "add" ->
                r.res = "ok" => Hits(r.id) = {0}
           [] r.kind = "unknown" ->
                r.res = "err" /\ Hits(r.id) = {}
           [] OTHER -> FALSE
    \* two callers never get the same version of the same entity
    /\ \A r1, r2 \in acks :
         (r1.res = "ok" /\ r2.res = "ok"
          /\ r1.kind \in {"ok", "add"} /\ r2.kind \in {"ok", "add"}
          /\ r1.id # r2.id) => r1.ver # r2.ver
    \* nothing is stored that was not asked for, nothing twice
    /\ \A v \in DOMAIN cmds[e] :
         \/ cmds[e][v].id[1] = SetupThread
         \/ cmds[e][v].id \in InFlight
         \/ \E r \in acks : r.id = cmds[e][v].id
    /\ \A v1, v2 \in DOMAIN cmds[e] :
         cmds[e][v1].id = cmds[e][v2].id => v1 = v2
    \* the effects, rebuilt from the store, are the acknowledged effective
    \* commands in the order of their versions, each exactly once
    /\ Exists(e) =>
         /\ FullReplay(e).eff = order[e]
         /\ \A i, j \in 1..Len(order[e]) :
              order[e][i] = order[e][j] => i = j

ExactlyOnce == \A e \in Entities : ExactlyOnceAt(e)

\* Whatever state is handed to a caller is a prefix of the one order.
ReaderSeesPrefix ==
    \A t \in Threads :
        (pc[t] \in {"rel", "relroot"} /\ res[t] = "ok" /\ loc[t] # None) =>
            /\ IsPrefix(loc[t].eff, order[ent[t]])
            /\ ~IsWal(ent[t]) =>
                 loc[t] = ReplayToIn(InitState, cmds[ent[t]], loc[t].ver)

AtEnd(t, k) ==
    pc[t] = "rel" /\ IsCmd(op[t]) /\ kind[t] = k /\ before[t].state # None

\* A rejected command: one audit record with the error, version + 1,
\* nothing else (aggregate store); nothing at all (WAL store).
RejectLeavesOnlyAudit ==
    \A t \in Threads : AtEnd(t, "reject") =>
        LET e == ent[t]
            pre == before[t].state
        IN
        IF IsWal(e)
        THEN /\ DOMAIN cmds[e] = before[t].keys
             /\ order[e] = before[t].order
             /\ cache[e] = before[t].cache
             /\ snap[e] = before[t].snap
        ELSE /\ DOMAIN cmds[e] = before[t].keys \cup {pre.ver}
             /\ pre.ver \notin before[t].keys
             /\ cmds[e][pre.ver] = ErrRec(MyId(t), ActorOf(t))
             /\ loc[t] = [ver |-> pre.ver + 1, eff |-> pre.eff]
             /\ cache[e] = loc[t]
             /\ order[e] = before[t].order
             /\ snap[e] = before[t].snap
             /\ res[t] = "err"

\* A command without effect: no key, no version; the caller gets the
\* current state (the cache may have caught up with the stored commands).
NoopLeavesNoTrace ==
    \A t \in Threads : AtEnd(t, "noop") =>
        LET e == ent[t] IN
        /\ DOMAIN cmds[e] = before[t].keys
        /\ order[e] = before[t].order
        /\ snap[e] = before[t].snap
        /\ loc[t] = before[t].state
        /\ cache[e] \in {before[t].cache, before[t].state}
        /\ res[t] = "ok"

\* A failing pre-save listener: no key, the cache is not touched at all.
PreSaveFailLeavesNothing ==
    \A t \in Threads : AtEnd(t, "presave_fail") =>
        LET e == ent[t] IN
        /\ DOMAIN cmds[e] = before[t].keys
        /\ order[e] = before[t].order
        /\ snap[e] = before[t].snap
        /\ cache[e] = before[t].cache
        /\ res[t] = "err"

\* command_history lists every stored command, in order, with its actor;
\* what the history cache holds stays true.
HistoryListsAll ==
    \A e \in AggEntities :
        LET h == HistScan(e, hcache[e]) IN
        /\ Len(h) = Cardinality(DOMAIN cmds[e] \ {0})
        /\ \A i \in 1..Len(h) :
             /\ h[i][1] = i
             /\ h[i][2] = cmds[e][i]
             /\ h[i][2].id[1] \in Threads => h[i][2].actor = ActorOf(h[i][2].id[1])

\* C06, protocol part: replay from scratch, snapshot plus later commands
\* and the live store's cache plus later commands are the same sequence.
ReplayEqSnapshotEqLive ==
    \A e \in Entities : Exists(e) =>
        LET full == FullReplay(e) IN
        /\ SnapReplay(e) = full
        /\ LiveState(e) = full
        /\ full.eff = order[e]
        /\ snap[e] # None /\ ~IsWal(e) =>
             snap[e] = ReplayToIn(InitState, cmds[e], snap[e].ver)
        /\ cache[e] # None /\ ~IsWal(e) =>
             cache[e] = ReplayToIn(InitState, cmds[e], cache[e].ver)

\* Stored commands of an aggregate are never changed or removed.
AppendOnly ==
    [][\A e \in AggEntities : \A v \in DOMAIN cmds[e] :
          v \in DOMAIN cmds'[e] /\ cmds'[e][v] = cmds[e][v]]_vars

\* Outside of critical sections, cache (if any) lags at most one command.
CacheLagBounded ==
    \A e \in AggEntities :
        (lock[e] = {} /\ cache[e] # None) => NextVer(e) - cache[e].ver <= 1

\* What the lock is there for (everything but the lock itself): used with
\* the weakened lock to show that the properties depend on it.
Consequences ==
    /\ NoExit /\ VersionsContiguous /\ ExactlyOnce /\ ReaderSeesPrefix
    /\ RejectLeavesOnlyAudit /\ NoopLeavesNoTrace
    /\ PreSaveFailLeavesNothing /\ HistoryListsAll
    /\ ReplayEqSnapshotEqLive

Safety ==
    /\ TypeOK /\ LockDiscipline /\ NoExit /\ VersionsContiguous
    /\ ExactlyOnce /\ ReaderSeesPrefix /\ RejectLeavesOnlyAudit
    /\ NoopLeavesNoTrace /\ PreSaveFailLeavesNothing /\ HistoryListsAll
    /\ ReplayEqSnapshotEqLive /\ CacheLagBounded
=============================================================================
