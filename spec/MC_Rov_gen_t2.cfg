CONSTANTS
  Depth = 3
  Origins = {1, 2}
  MaxRoas = 1
  MaxAnns = 3
  RoaDepth = 0
  AnnDepth = 3
  MlOffsets = {2}
  WithBeyond = FALSE
  RoaAsns = {1}
  SampleMod = 1
  SampleSeed = 0
  AnnsFirst = TRUE
INIT GenInit
NEXT GenNext
INVARIANT Sane
INVARIANT PrintCase
CHECK_DEADLOCK FALSE
