CONSTANTS
  Names = {"start", "rep", "sa", "sb"}
  Recurring = {"rep"}
  StartTask = "start"
  MaxTs = 3
  MaxRun = 2
  MaxDup = 2
  RequeueMin = 1
  ModesUsed = {"IfMissing", "ReplaceExisting", "ReplaceExistingSoonest", "FinishOrReplaceExisting", "FinishOrReplaceExistingSoonest"}
SPECIFICATION Spec
INVARIANT TypeOK
INVARIANT RecurringQueued
PROPERTY ClaimIsEarliestDue
PROPERTY NoOrphanAfterStartup
PROPERTY NoTaskLost
CHECK_DEADLOCK FALSE
