---------------------------- MODULE MC_RepoFiles ----------------------------
(* Model-checking wrapper for RepoFiles.                                   *)
EXTENDS RepoFiles, PubServerNames, Json

PubsOne == {A}
UrisOne == {<<"a", "x">>, <<"a", "y">>}
UrisOneX == {<<"a", "x">>}

Deltas1 == SmallDeltas(1)
Deltas2 == SmallDeltas(2)

\* cleanup operations and the files of the rsync tree commute: explore one
\* canonical order (the trace specification accepts every order)
CanonOp == CHOOSE op \in NextOps : TRUE

\* ---- history: the behaviour as the harness executes it -------------------
VARIABLES hist, fsn
hvars == <<hist, fsn>>
mcvars == <<allvars, hvars>>

CONSTANTS Depth, FaultOdds

RBound == serial <= MaxSerial /\ session <= MaxSession
\* the last request, the client memory and the histories are observations
RView == <<pubs, cur, staged, session, serial, deltas, notif, newnotif, files,
           rsCur, rsOld, rsTmp, w, wres, faults>>

Log(e) == hist' = Append(hist, e) /\ UNCHANGED fsn
LogWrite(a) == hist' = Append(hist, [a |-> a, cut |-> 0, mode |-> "none"]) /\ fsn' = 0
\* at most one fault per write (the harness cuts a write once)
NoCutYet == hist[Len(hist)].cut = 0
LogCut(m) == hist' = [hist EXCEPT ![Len(hist)] = [@ EXCEPT !.cut = fsn + 1, !.mode = m]]
             /\ fsn' = fsn + 1

MCInit == RInit /\ hist = <<[a |-> "Init", cut |-> 0, mode |-> "none"]>> /\ fsn = 0

\* in simulation a fault is drawn with odds 1 : FaultOdds per step
Lucky == FaultOdds = 1 \/ RandomElement(1..FaultOdds) = 1

MCNext ==
    \/ \E p \in Pubs : p \notin pubs /\ RAdd(p) /\ Log([a |-> "Add", p |-> p])
    \/ \E p \in Pubs : p \in pubs /\ RRemove(p) /\ Log([a |-> "Remove", p |-> p])
    \/ \E p \in pubs, E \in DeltaChoices : DeltaOK(p, E) /\ RDelta(p, E)
            /\ Log([a |-> "Delta", p |-> p, elems |-> E])
    \/ AnyStaged /\ RUpdate /\ LogWrite("Update")
    \/ RReset /\ LogWrite("Reset")
    \/ RRewrite /\ LogWrite("Rewrite")
    \/ ~Idle /\ NextOps # {} /\ FsStep(CanonOp) /\ fsn' = fsn + 1 /\ UNCHANGED hist
    \/ EndWrite /\ UNCHANGED hvars
    \/ RealFail /\ UNCHANGED hvars
    \/ faults < MaxFaults /\ ~Idle /\ NoCutYet /\ Lucky /\ Crash /\ LogCut("crash")
    \/ faults < MaxFaults /\ ~Idle /\ NoCutYet /\ Lucky /\ NextOps # {} /\ IoError(CanonOp)
            /\ LogCut("error")

MCSpec == MCInit /\ [][MCNext]_mcvars

Behaviour == ToJson([actions |-> hist])

\* generator: print the behaviour when it has Depth actions and is between
\* writes
DepthBound == Len(hist) <= Depth
PrintBehaviour ==
    Len(hist) = Depth /\ Idle => PrintT(<<"REPLAY", Behaviour>>)

\* an invariant whose violation prints the behaviour that leads to it
Expose(inv) == inv \/ (PrintT(<<"REPLAY", Behaviour>>) /\ FALSE)
XNotificationParsable == Expose(NotificationParsable)
XInterruptedWriteNeverBlocks == Expose(InterruptedWriteNeverBlocks)
XDeltasBoundedOnDisk == Expose(DeltasBoundedOnDisk)
XDeltasNeverExceedMaxNr == Expose(DeltasNeverExceedMaxNrOnDisk)
XClientCatchesUp == Expose(ClientCatchesUp)
XNotificationRefsExist == Expose(NotificationRefsExist)
XRsyncEq == Expose(wres = "ok" /\ Idle => rsCur.exists /\ rsCur.objs = CurAll(cur))
=============================================================================
