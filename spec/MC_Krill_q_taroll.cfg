CONSTANTS
  Top = "A"
  CaOf <- IdCa
  ShadowRebuilt = TRUE
  Sub = {"B"}
SPECIFICATION MCSpec
INVARIANT TypeOK
INVARIANT C01_Clean
INVARIANT C01_Vrps
INVARIANT C02_NoOverclaim
PROPERTY MC_IssuedWithinEntitlement
INVARIANT C02_Converged
INVARIANT C04_KeysHaveCerts
INVARIANT C04_PubKeysMatch
INVARIANT TaExactlyOnce
INVARIANT C01_TopValid
VIEW CoreView
CHECK_DEADLOCK FALSE
CONSTANTS
  Res = {"p1", "p2"}
  TopRes = {"p1", "p2"}
  Roa <- MCRoa1
  AspaDefs <- NoAspa
  ParentOf <- Flat
  Ops = {"roll", "taroll", "roa", "res"}
CONSTANTS
  MaxApi = 7
