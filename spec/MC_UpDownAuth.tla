--------------------------- MODULE MC_UpDownAuth ---------------------------
(* Model checking of UpDownAuth: the server model, driven by every message *)
(* of the lattice in every reachable state and by identity updates on      *)
(* either side, satisfies the three parts of C12.  The ghost variable      *)
(* `last` records the request of the last step and its outcome.            *)
EXTENDS UpDownAuth

VARIABLE last

\* small universes for the exhaustive runs (the rules do not depend on
\* how many keys, limits and objects there are)
SmallCaKeys == {"a1", "b1"}
SmallLims == {None, {"r1"}}
SmallUris == {"p1/x", "p2/x", "zz/x"}
SmallVals == {"d1"}
OneSuspendable == {<<"P", "c1">>}
SmallUpdatable == {<<"P", "c1">>, <<"P", "c2">>, <<"R", "p1">>, <<"P", "P">>}
\* a tiny universe for the action coverage run
TinyCaKeys == {"a1"}
TinyLims == {None}
TinyUris == {"p1/x", "zz/x"}
TinyUpdatable == {<<"P", "c1">>, <<"R", "p1">>, <<"P", "P">>}
\* the larger universe of the thorough tier
BigLims == {None, {"r1"}, {"r3"}}
BigVals == {"d1", "d2"}

NoReq == [kind |-> "none"]

MCInit == Init /\ last = NoReq

Step(m) ==
    /\ Request(m)
    /\ last' = [kind |-> "req", m |-> m, out |-> Outcome(m)[1],
                rk |-> Outcome(m)[2]]

MCPerform == \E m \in Msgs : Accepts(m) /\ PayloadOk(m) /\ Step(m)
MCDecline == \E m \in Msgs : Accepts(m) /\ ~PayloadOk(m) /\ Step(m)
MCRefuse == \E m \in Msgs : ~Accepts(m) /\ Step(m)
MCChildId ==
    /\ \E s \in CaServers : \E c \in DOMAIN reg[s] : ChildId(s, c)
    /\ last' = NoReq
MCServerId == (\E s \in CaServers : ServerId(s)) /\ last' = NoReq
MCPubReReg == (\E q \in DOMAIN reg["R"] : PubReReg(q)) /\ last' = NoReq
MCSuspend == (\E x \in Suspendable : Suspend(x[1], x[2])) /\ last' = NoReq

MCNext ==
    \/ MCPerform \/ MCDecline \/ MCRefuse
    \/ MCChildId \/ MCServerId \/ MCPubReReg \/ MCSuspend

MCSpec == MCInit /\ [][MCNext]_<<vars, last>>

IsReq == last'.kind = "req"

\* "untouched" of the model: the model has no state besides vars
RefusedUnchanged ==
    [][IsReq => RefusedUnchangedStep(last'.m, last'.out, UNCHANGED vars)
      ]_<<vars, last>>

EffectsWithinSender ==
    [][IsReq => EffectsWithinSenderStep(last'.m, last'.out)]_<<vars, last>>

ReplySignedByCurrentServerKey ==
    [][IsReq => ReplySignedByCurrentServerKeyStep(
                    last'.m, last'.out, last'.rk)]_<<vars, last>>

\* A replaced identity is never accepted again, the new one is.
ReplacedIdentityRefused ==
    [][IsReq /\ last'.out = "ok" =>
          last'.m.key = Registered(last'.m.tgt, last'.m.snd)]_<<vars, last>>

\* The request of the last step and the status counters do not influence
\* any rule: states are identified by the rest (every transition is still
\* generated and checked against the action properties).
View == <<reg, srv, iss, pub, susp, held>>
=============================================================================
