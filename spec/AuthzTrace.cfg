INIT Init
NEXT Next
INVARIANT Judge
POSTCONDITION Visited
CHECK_DEADLOCK FALSE
