------------------------------ MODULE Malformed ------------------------------
(* C16 -- untrusted input never brings the daemon down.                     *)
(*                                                                          *)
(* The specification of how every endpoint that parses client data treats   *)
(* input it cannot or need not accept.  The catalogue below lists the       *)
(* endpoints (RFC 6492 provisioning, RFC 8181 publication, the JSON request *)
(* types of the API with the manager call behind them, the request path,    *)
(* the textual notations of stored values) and, per endpoint, the classes   *)
(* of malformed and of well-formed-but-odd input.                           *)
(*                                                                          *)
(* For every endpoint e, class c, addressed entity t and channel ch the     *)
(* action Malformed(e, c, t, ch) is enabled in every state; its only        *)
(* outcome is an error reply with configuration and published content       *)
(* unchanged.  Input of a class that is not malformed by construction may   *)
(* alternatively be Accepted (reply ok; configuration and content may       *)
(* change).  No action makes the process stop: `alive` stays TRUE.          *)
(*                                                                          *)
(* The abstract state says which entities exist (publication server         *)
(* initialised, CA "ca", its child "child", publisher "pub"): input handling *)
(* takes different paths depending on whether the addressed entity exists.  *)
(* cfg / pubv are abstract versions of the configuration and of the         *)
(* published content; they change exactly when the real digests change.     *)
EXTENDS Naturals, FiniteSets, TLC

CONSTANT MaxVersion     \* bound of the version counters (model checking)

VARIABLES
    repo,       \* publication server initialised
    cas,        \* existing CAs            (subset of {"ca"})
    kids,       \* children of "ca"        (subset of {"child"})
    pubs,       \* registered publishers   (subset of {"pub"})
    cfg,        \* version of the configuration
    pubv,       \* version of the published content
    alive,      \* the process is running
    reply       \* kind of the last reply: "none" | "error" | "ok"

facts == <<repo, cas, kids, pubs>>
vars == <<repo, cas, kids, pubs, cfg, pubv, alive, reply>>

-----------------------------------------------------------------------------
(* Catalogue                                                                *)

Both == {"direct", "http"}

E(kind, chans, needs, feats) ==
    [kind |-> kind, chans |-> chans, needs |-> needs, feats |-> feats]

(* needs: the facts the handling of the endpoint depends on                 *)
(* feats: the kinds of client-controlled values inside the message          *)
Endpoint == [
    \* signed CMS messages
    rfc6492       |-> E("cms",  Both, {"ca", "child"}, {"updown"}),
    rfc8181       |-> E("cms",  Both, {"repo", "pub"}, {"delta"}),
    \* JSON request types: serde decoding + manager call
    roa_update    |-> E("json", Both, {"ca"}, {"roa", "pfx", "asn"}),
    roa_try       |-> E("json", Both, {"ca"}, {"roa", "pfx", "asn"}),
    roa_dryrun    |-> E("json", Both, {"ca"}, {"roa", "pfx", "asn"}),
    roa_suggest   |-> E("json", Both, {"ca"}, {"res"}),
    aspa_update   |-> E("json", Both, {"ca"}, {"asn"}),
    aspa_single   |-> E("json", Both, {"ca"}, {"asn"}),
    bgpsec_update |-> E("json", Both, {"ca"}, {"asn", "cert"}),
    child_add     |-> E("json", Both, {"ca"}, {"res", "handle", "cert"}),
    child_update  |-> E("json", Both, {"ca", "child"}, {"res", "cert"}),
    child_import  |-> E("json", Both, {"ca"}, {"res", "handle", "cert"}),
    parent_add    |-> E("json", Both, {"ca"},
                        {"handle", "cert", "uri", "xml"}),
    repo_update   |-> E("json", Both, {"ca"}, {"cert", "uri", "xml"}),
    ca_init       |-> E("json", Both, {}, {"handle"}),
    pub_add       |-> E("json", Both, {"repo"}, {"handle", "cert"}),
    pubd_init     |-> E("json", Both, {"repo"}, {"uri"}),
    pubd_delete   |-> E("json", Both, {"repo"}, {"uri"}),
    import        |-> E("json", Both, {"repo", "ca"},
                        {"roa", "pfx", "asn", "res", "handle", "uri"}),
    \* the request line: method and path segments, through the dispatcher
    http_path     |-> E("path", {"http"}, {"ca", "child", "pub"}, {}),
    \* notations of values accepted from clients and stored
    text_roa      |-> E("text", {"direct"}, {}, {"roa", "pfx", "asn"}),
    text_prefix   |-> E("text", {"direct"}, {}, {"pfx"}),
    text_asn      |-> E("text", {"direct"}, {}, {"asn"}),
    text_resources |-> E("text", {"direct"}, {}, {"res", "pfx", "asn"}),
    text_handle   |-> E("text", {"direct"}, {}, {"handle"}),
    text_aspa     |-> E("text", {"direct"}, {}, {"asn"}),
    text_uri      |-> E("text", {"direct"}, {}, {"uri"}),
    text_idcert   |-> E("text", {"direct"}, {}, {"cert"}),
    \* input of the BGP analyser (announcement dump)
    text_ris      |-> E("text", {"direct"}, {"ca"}, {"pfx", "asn"})
]

Endpoints == DOMAIN Endpoint

(* Classes that cannot be valid by construction: the reply must be an error *)
CmsStrict == {"empty", "random_bytes", "truncated", "wrong_econtent_type",
              "signed_garbage", "signed_xml_truncated", "signed_wrong_root"}
CmsOdd == {"valid", "trailing_bytes", "tag_flip", "length_flip", "byte_flip",
           "splice", "unknown_signer", "signed_reply_as_request",
           "signed_other_protocol", "signed_xml_extra_attr",
           "signed_xml_extra_element", "signed_xml_odd_values",
           "signed_xml_wrong_version", "signed_xml_huge",
           "http_content_type"}

JsonStrict == {"empty", "not_json", "truncated", "root_scalar",
               "deep_nesting"}
JsonOdd == {"valid", "wrong_type", "huge_number", "negative_number",
            "float_number", "missing_field", "extra_field", "dup_key",
            "dup_entry", "empty_string", "long_string", "null_value",
            "unicode_string", "trailing_garbage", "byte_flip"}

PathStrict == {"seg_pct_nonutf8"}
PathOdd == {"valid", "seg_overlong", "seg_illegal_chars", "seg_pct_slash",
            "seg_empty", "seg_dotdot", "seg_unicode", "num_huge",
            "num_negative", "num_nonint", "extra_segments",
            "trailing_slash", "method_odd", "query_string", "long_path",
            "garbage_body", "seg_uri_unsafe"}

TextOdd == {"valid", "empty", "random_text", "overlong", "whitespace",
            "huge_number", "negative_number", "non_integer"}

(* Classes of the client-controlled values; for the two protocols: valid,   *)
(* correctly signed requests of a registered client whose elements collide  *)
(* with each other or with what the preceding request left staged (not      *)
(* malformed by construction: either kind of reply is fine)                 *)
FeatClasses == [
    delta  |-> {"delta_dup_publish", "delta_dup_withdraw",
                "delta_publish_withdraw", "delta_update_withdraw",
                "delta_dup_update", "delta_publish_existing_twice",
                "delta_staged_collision"},
    updown |-> {"updown_issue_twice", "updown_revoke_issue",
                "updown_issue_revoke", "updown_revoke_twice",
                \* ... after the server's resource class was dropped and
                \* re-created under another name (the child's record of
                \* used keys still names the old class)
                "updown_revoke_renumbered"},
    roa    |-> {"maxlen_lt_len", "maxlen_gt_family", "maxlen_huge", "as0"},
    pfx    |-> {"len_gt_family", "host_bits", "v6_full_range",
                "pfx_garbage"},
    asn    |-> {"asn_overflow", "asn_negative", "asn_text", "asn_garbage"},
    res    |-> {"range_overflow", "range_reversed", "res_garbage",
                "res_huge_list"},
    handle |-> {"handle_overlong", "handle_illegal", "handle_empty",
                "handle_uri_unsafe"},
    cert   |-> {"cert_truncated", "cert_bitflip", "cert_not_base64",
                "cert_empty"},
    uri    |-> {"uri_scheme", "uri_no_slash", "uri_garbage",
                "uri_overlong"},
    xml    |-> {"xml_valid", "xml_garbage", "xml_truncated", "xml_extra",
                "xml_wrong_root"}
]

ValueClasses(e) == UNION { FeatClasses[f] : f \in Endpoint[e].feats }

Classes(e) ==
    LET k == Endpoint[e].kind IN
    CASE k = "cms"  -> CmsStrict \cup CmsOdd \cup ValueClasses(e)
      [] k = "json" -> JsonStrict \cup JsonOdd \cup ValueClasses(e)
      [] k = "path" -> PathStrict \cup PathOdd
      [] k = "text" -> TextOdd \cup ValueClasses(e)

Strict(e) ==
    LET k == Endpoint[e].kind IN
    CASE k = "cms"  -> CmsStrict
      [] k = "json" -> JsonStrict
      [] k = "path" -> PathStrict
      [] k = "text" -> {}

(* Which entity the request addresses: the one that may exist ("known"      *)
(* names "ca" / "child" / "pub") or one that never exists ("nobody").       *)
Targets(e) ==
    IF Endpoint[e].needs \cap {"ca", "child", "pub"} = {}
    THEN {"known"} ELSE {"known", "unknown"}

Vectors ==
    { <<e, c, t, ch>> \in
        Endpoints \X (UNION { Classes(e) : e \in Endpoints })
                  \X {"known", "unknown"} \X Both :
        /\ c \in Classes(e)
        /\ t \in Targets(e)
        /\ ch \in Endpoint[e].chans }

-----------------------------------------------------------------------------
(* Facts                                                                    *)

FactSet == { f \in {"repo", "ca", "child", "pub"} :
               \/ f = "repo" /\ repo
               \/ f = "ca" /\ "ca" \in cas
               \/ f = "child" /\ "child" \in kids
               \/ f = "pub" /\ "pub" \in pubs }

(* what must exist before a fact can hold *)
Close(F) ==
    LET F1 == F \cup (IF "child" \in F THEN {"ca"} ELSE {})
        F2 == F1 \cup (IF F1 \cap {"ca", "pub"} # {} THEN {"repo"} ELSE {})
    IN  F2

(* The state is the smallest one that agrees with itself on everything the  *)
(* endpoint depends on: the vector generator emits one representative per   *)
(* distinguishable context.                                                 *)
Canonical(e) == FactSet = Close(FactSet \cap Endpoint[e].needs)

-----------------------------------------------------------------------------
(* Actions                                                                  *)

Init ==
    /\ repo = FALSE /\ cas = {} /\ kids = {} /\ pubs = {}
    /\ cfg = 0 /\ pubv = 0 /\ alive = TRUE /\ reply = "none"

Bump(v) == IF v < MaxVersion THEN v + 1 ELSE v

(* the trusted administrator builds the contexts *)
Admin ==
    /\ alive
    /\ \/ ~repo /\ repo' = TRUE /\ UNCHANGED <<cas, kids, pubs>>
       \/ repo /\ cas = {} /\ cas' = {"ca"} /\ UNCHANGED <<repo, kids, pubs>>
       \/ cas # {} /\ kids = {} /\ kids' = {"child"}
          /\ UNCHANGED <<repo, cas, pubs>>
       \/ repo /\ pubs = {} /\ pubs' = {"pub"}
          /\ UNCHANGED <<repo, cas, kids>>
    /\ cfg' = Bump(cfg) /\ pubv' \in {pubv, Bump(pubv)}
    /\ reply' = "none" /\ UNCHANGED alive

(* Every endpoint answers every class of input, whatever the state, with an *)
(* error reply that leaves everything as it was.                            *)
Malformed(e, c, t, ch) ==
    /\ alive
    /\ reply' = "error"
    /\ UNCHANGED <<repo, cas, kids, pubs, cfg, pubv, alive>>

(* Input that is odd but not malformed by construction may be acted upon.   *)
Accepted(e, c, t, ch) ==
    /\ alive
    /\ c \notin Strict(e)
    /\ reply' = "ok"
    /\ cfg' \in {cfg, Bump(cfg)}
    /\ pubv' \in {pubv, Bump(pubv)}
    /\ UNCHANGED <<repo, cas, kids, pubs, alive>>

Request == \E v \in Vectors :
    \/ Malformed(v[1], v[2], v[3], v[4])
    \/ Accepted(v[1], v[2], v[3], v[4])

Next == Admin \/ Request

Spec == Init /\ [][Next]_vars

-----------------------------------------------------------------------------
(* Properties                                                               *)

TypeOK ==
    /\ repo \in BOOLEAN /\ cas \subseteq {"ca"} /\ kids \subseteq {"child"}
    /\ pubs \subseteq {"pub"}
    /\ cfg \in 0..MaxVersion /\ pubv \in 0..MaxVersion
    /\ alive \in BOOLEAN /\ reply \in {"none", "error", "ok"}
    /\ FactSet = Close(FactSet)

(* no input stops the process *)
AlwaysAlive == alive

(* every endpoint answers every class in every state *)
AlwaysAnswers == \A v \in Vectors : ENABLED Malformed(v[1], v[2], v[3], v[4])

(* an error reply leaves configuration and published content unchanged *)
ErrorLeavesState ==
    [][reply' = "error" => UNCHANGED <<repo, cas, kids, pubs, cfg, pubv>>]_vars

(* the catalogue is consistent *)
CatalogueOK ==
    /\ \A e \in Endpoints : Strict(e) \subseteq Classes(e)
    /\ \A e \in Endpoints : "valid" \in Classes(e) \ Strict(e)
    /\ \A e \in Endpoints : Endpoint[e].chans # {}
    /\ \A e \in Endpoints : Endpoint[e].feats \subseteq DOMAIN FeatClasses
=============================================================================
