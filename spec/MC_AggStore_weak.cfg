\* The scope lock weakened to a shared lock: TLC must find a violation.
\* This documents that the model has teeth; it is not a statement about
\* the code and never counts as a finding.
CONSTANTS
  t1 = t1
  t2 = t2
  t3 = t3
  e1 = e1
  e2 = e2
  w1 = w1
  n1 = n1
  Threads = {t1, t2}
  Entities = {e1}
  WalEntities = {}
  NewEntities = {}
  MaxOps = 2
  Ops = {"ok", "reject", "read"}
  LockMode = "read"
SPECIFICATION Spec
INVARIANT Consequences
PROPERTY AppendOnly
CHECK_DEADLOCK TRUE
