CONSTANTS
  Top = "A"
  CaOf <- IdCa
  ShadowRebuilt = TRUE
  Sub = {"B", "C"}
SPECIFICATION LiveSpec
PROPERTY Sanity_RollNewNeverRests





CHECK_DEADLOCK FALSE
CONSTANTS
  Res = {"p1"}
  TopRes = {"p1"}
  Roa <- MCRoa1
  AspaDefs <- NoAspa
  ParentOf <- Chain
  Ops = {"roll", "roa", "suspend"}
CONSTANTS
  MaxApi = 4
