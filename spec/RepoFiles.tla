------------------------------ MODULE RepoFiles ------------------------------
(***************************************************************************)
(* The files of the publication server: what RrdpServer::update_rrdp_files *)
(* and RsyncdStore::write put on disk, one action per file system          *)
(* mutation, with a crash or an I/O error possible in front of every one,  *)
(* and RRDP clients that remember what they fetched.                       *)
(*                                                                         *)
(* Anchors: src/server/pubd/rrdp.rs update_rrdp_files :460-499,            *)
(*   write_delta_files :502-617, write_snapshot_file :620-634,             *)
(*   write_notification_file :637-687, cleanup_old_rrdp_files :690-861;    *)
(*   src/server/pubd/rsync.rs write :72-164; src/commons/file.rs           *)
(*   create_file :84-113 (opens without O_TRUNC) and save :125-137;        *)
(*   src/server/pubd/content.rs write_repository :458-463 (RRDP first,     *)
(*   rsync second), session_reset :256-273;                                *)
(*   src/server/pubd/manager.rs update_rrdp_if_needed :221-238 (no write   *)
(*   when nothing is staged), init :66-76.                                 *)
(*                                                                         *)
(* The logical state is PubServer's; it lives in the key-value store and   *)
(* survives a crash (durability of the store is C08's subject).  A write   *)
(* is started by an RRDP update that had staged changes, by a session      *)
(* reset, by RepositoryManager::init and by write_repository ("Rewrite").  *)
(*                                                                         *)
(* Files are identified by (session, serial, kind); the random path        *)
(* component is a function of those.  The hash of a file is identified     *)
(* with its body.                                                          *)
(*                                                                         *)
(* Four defects this specification exposed in the pinned tree have been    *)
(* repaired in /repo; constants select the behaviour that is modelled, so  *)
(* that the defective variants stay checkable (MC_RepoFiles_pinned.cfg):   *)
(*  - TruncateOnCreate: file::create_file used to open without O_TRUNC:    *)
(*    a shorter text over a longer left-over kept the old tail             *)
(*    (new-notification.xml after an interrupted write; files in a         *)
(*    left-over rsync tmp-N directory).  Repaired by 99a13ae1.             *)
(*  - RemoveTmpFirst: tmp-N is named after the serial only; a left-over    *)
(*    tmp-N used to be reused, with its stale files, by a later write with *)
(*    the same serial (after a session reset).  Repaired by 6e18ad8e: it   *)
(*    is removed first (fault point "rsync_remove_tmp").                   *)
(*  - RemoveOldFirst: rename(current, old) used to fail for ever once a    *)
(*    non-empty old/ was left over (S3).  Repaired by 0b66fb18: old/ is    *)
(*    removed first (fault point "rsync_remove_old", which can therefore   *)
(*    fire twice in one write).                                            *)
(*  - MaxNrEquality (PubServer): see there.  Repaired by 3d66903f.         *)
(* Still as coded: clean-up is best effort, an error there is skipped;     *)
(* tmp-N directories of other serials are never cleaned (harmless).        *)
(***************************************************************************)
EXTENDS PubServer

CONSTANTS
    MaxFaults,          \* model bound on crashes + injected errors
    TruncateOnCreate,   \* FALSE: file::create_file opens without O_TRUNC
                        \*   (as coded, file.rs:84-113)
    RemoveTmpFirst,     \* TRUE: a left-over rsync/tmp-<serial> is removed
                        \*   before it is created (rsync.rs, fault point
                        \*   "rsync_remove_tmp"); FALSE: it is reused
    RemoveOldFirst      \* FALSE: a left-over rsync/old is not removed
                        \*   before rename(current, old) (as coded,
                        \*   rsync.rs:118-131); TRUE: it is, through the
                        \*   fault point "rsync_remove_old"

VARIABLES
    notif,      \* notification.xml
    newnotif,   \* new-notification.xml
    files,      \* RRDP files: set of [s, n, k, body, dup]
    rsCur,      \* rsync/current: [exists, objs]
    rsOld,      \* rsync/old
    rsTmp,      \* rsync/tmp-N: set of [n, objs]
    w,          \* the write in progress
    wres,       \* outcome of the last write: "none" | "ok" | "crash" |
                \*   "ioerr" (injected error aborted it) | "fail" (the code
                \*   reported an error without an injected fault)
    seen,       \* what RRDP clients may hold: set of [s, n, body, dup]
    pubAt,      \* history: publication state at (session, serial)
    faults      \* number of injected faults so far

dvars == <<notif, newnotif, files, rsCur, rsOld, rsTmp>>
rvars == <<notif, newnotif, files, rsCur, rsOld, rsTmp, w, wres, seen, pubAt, faults>>
allvars == <<vars, rvars>>

Garbage == "?"

NoRef == [s |-> 0, n |-> 0, k |-> "?", dn |-> 0, body |-> {}, dup |-> FALSE]
NoNotif == [state |-> "none", s |-> 0, n |-> 0, snap |-> NoRef, deltas |-> <<>>]
NoDir == [exists |-> FALSE, objs |-> {}]
IdleW == [phase |-> "idle"]

Idle == w.phase = "idle"

SeqSet(s) == {s[i] : i \in 1..Len(s)}

(***************************************************************************)
(* Planning a write (the code reads the old notification first).           *)
(***************************************************************************)
\* newest first
Contig(refs) == \A i \in 1..Len(refs) : refs[i].dn = refs[1].dn - i + 1

OldRefs == IF notif.state = "ok" /\ notif.s = session /\ Contig(notif.deltas)
           THEN notif.deltas ELSE <<>>
Retained == IF deltas = <<>> THEN <<>>
            ELSE SelectSeq(OldRefs, LAMBDA r : r.dn >= deltas[Len(deltas)].n)
LastWritten == IF Retained = <<>> THEN 0 ELSE Retained[1].dn
ToWrite == SelectSeq(deltas, LAMBDA d : d.n > LastWritten)

UpToDate == notif.state = "ok" /\ notif.s = session /\ notif.n = serial

SnapBody == CurAll(cur)
SnapDup == CurDup(cur)

\* every object of the snapshot is written, one file per (publisher, URI)
SnapObjs == UNION {{<<p, o>> : o \in cur[p]} : p \in Pubs}

RsyncPlan == [phase |-> "rsync", step |-> "tmp", tf |-> SnapObjs]

BeginWriteAfter ==
    /\ wres' = "none"
    /\ pubAt' = pubAt \cup {[s |-> session', n |-> serial', body |-> CurAll(cur'),
                             dup |-> CurDup(cur')]}

(***************************************************************************)
(* Logical actions (only between writes: one scheduler thread, and the     *)
(* harness is sequential).                                                 *)
(***************************************************************************)
Quiet == UNCHANGED rvars

RAdd(p) == Idle /\ AddPublisher(p) /\ Quiet
RRemove(p) == Idle /\ RemovePublisher(p) /\ Quiet
RDelta(p, E) == Idle /\ Delta(p, E) /\ Quiet
RList(p) == Idle /\ List(p) /\ Quiet

\* the plan, as a function of the new logical state (primed) and old disk
PlanNow ==
    LET ret == IF deltas' = <<>> THEN <<>>
               ELSE SelectSeq(IF notif.state = "ok" /\ notif.s = session' /\ Contig(notif.deltas)
                              THEN notif.deltas ELSE <<>>,
                              LAMBDA r : r.dn >= deltas'[Len(deltas')].n)
        lastw == IF ret = <<>> THEN 0 ELSE ret[1].dn
        tow == SelectSeq(deltas', LAMBDA d : d.n > lastw)
        upto == notif.state = "ok" /\ notif.s = session' /\ notif.n = serial'
        objs == UNION {{<<p, o>> : o \in cur'[p]} : p \in Pubs}
    IN  IF upto THEN [phase |-> "rsync", step |-> "tmp", tf |-> objs]
        ELSE [phase |-> "rrdp", step |-> "deltas", dq |-> tow, refs |-> <<>>,
              keep |-> ret]

StartWrite ==
    /\ w' = PlanNow
    /\ BeginWriteAfter
    /\ UNCHANGED <<dvars, seen, faults>>

\* update_rrdp_if_needed: nothing staged -> nothing happens at all
RUpdate ==
    /\ Idle
    /\ RrdpUpdate
    /\ IF AnyStaged THEN StartWrite ELSE Quiet

RReset == Idle /\ SessionReset /\ StartWrite

RRewrite == Idle /\ UNCHANGED vars /\ StartWrite

(***************************************************************************)
(* File system steps.  An op is a tuple as the harness reports it.         *)
(***************************************************************************)
FileKey(f) == <<f.s, f.n, f.k>>
PutFile(f) == {g \in files : FileKey(g) # FileKey(f)} \cup {f}

DeltaFile(d) == [s |-> session, n |-> d.n, k |-> "delta", body |-> d.body, dup |-> d.dup]
SnapFile == [s |-> session, n |-> serial, k |-> "snap", body |-> SnapBody, dup |-> SnapDup]
RefOf(f) == [s |-> f.s, n |-> f.n, k |-> f.k, dn |-> f.n, body |-> f.body, dup |-> f.dup]

TmpOf(n) == {t \in rsTmp : t.n = n}
TmpObjs(n) == IF TmpOf(n) = {} THEN {} ELSE (CHOOSE t \in TmpOf(n) : TRUE).objs

\* the ops allowed next
NextOps ==
    CASE w.phase = "rrdp" /\ w.step = "deltas" /\ w.dq # <<>> ->
            {<<"delta", session, w.dq[1].n>>}
      [] w.phase = "rrdp" /\ w.step = "deltas" /\ w.dq = <<>> ->
            {<<"snap", session, serial>>}
      [] w.phase = "rrdp" /\ w.step = "newnotif" -> {<<"newnotif">>}
      [] w.phase = "rrdp" /\ w.step = "rename" -> {<<"rename">>}
      [] w.phase = "clean" -> w.ops
      [] w.phase = "rsync" /\ w.step = "tmp" ->
            IF RemoveTmpFirst /\ TmpOf(serial) # {} THEN {<<"rmtmp", serial>>}
            ELSE {<<"tmp", serial>>}
      [] w.phase = "rsync" /\ w.step = "files" /\ w.tf # {} ->
            {<<"tmpfile", serial, x[2][1]>> : x \in w.tf}
      [] w.phase = "rsync" /\ w.step = "files" /\ w.tf = {} ->
            IF rsCur.exists
            THEN (IF RemoveOldFirst /\ rsOld.exists THEN {<<"rmold">>} ELSE {<<"cur2old">>})
            ELSE {<<"new2cur", serial>>}
      [] w.phase = "rsync" /\ w.step = "new2cur" -> {<<"new2cur", serial>>}
      [] w.phase = "rsync" /\ w.step = "rmold" ->
            IF rsOld.exists THEN {<<"rmold">>} ELSE {}
      [] OTHER -> {}

Lo == IF deltas = <<>> THEN 0 ELSE deltas[Len(deltas)].n
Hi == IF deltas = <<>> THEN 0 ELSE deltas[1].n

CleanOps(fs) ==
    {<<"rmsession", s>> : s \in {f.s : f \in fs} \ {session}}
    \cup {IF n < Lo \/ n > Hi THEN <<"rmserial", n>> ELSE <<"rmsnap", n>> :
            n \in {f.n : f \in {g \in fs : g.s = session}} \ {serial}}

\* text length class of a notification: the number of delta entries
\* (serials have one digit in all runs)
NotifText(refs) == [state |-> "ok", s |-> session, n |-> serial,
                    snap |-> RefOf(SnapFile), deltas |-> refs]

Overwrite(O, u, c) ==
    LET old == {o \in O : o[1] = u}
        oc == (CHOOSE o \in old : TRUE)[2]
        nc == IF old = {} \/ TruncateOnCreate THEN c
              ELSE IF oc # Garbage /\ Size[c] >= Size[oc] THEN c ELSE Garbage
    IN  (O \ old) \cup {<<u, nc>>}

SameLogical == UNCHANGED vars

FsStep(op) ==
    /\ ~Idle
    /\ op \in NextOps
    /\ SameLogical
    /\ UNCHANGED <<wres, pubAt, faults>>
    /\ CASE op[1] = "delta" ->
              LET d == w.dq[1] IN
              /\ files' = PutFile(DeltaFile(d))
              /\ w' = [w EXCEPT !.dq = Tail(@), !.refs = Append(@, RefOf(DeltaFile(d)))]
              /\ UNCHANGED <<notif, newnotif, rsCur, rsOld, rsTmp, seen>>
         [] op[1] = "snap" ->
              /\ files' = PutFile(SnapFile)
              /\ w' = [w EXCEPT !.step = "newnotif"]
              /\ UNCHANGED <<notif, newnotif, rsCur, rsOld, rsTmp, seen>>
         [] op[1] = "newnotif" ->
              LET refs == w.refs \o w.keep
                  nd == Len(refs)
                  torn == ~TruncateOnCreate /\ newnotif.exists /\ newnotif.nd > nd
              IN
              /\ newnotif' = [exists |-> TRUE,
                              nd |-> IF torn THEN newnotif.nd ELSE nd,
                              text |-> IF torn THEN [NoNotif EXCEPT !.state = "corrupt"]
                                       ELSE NotifText(refs)]
              /\ w' = [w EXCEPT !.step = "rename"]
              /\ UNCHANGED <<notif, files, rsCur, rsOld, rsTmp, seen>>
         [] op[1] = "rename" ->
              /\ notif' = newnotif.text
              /\ newnotif' = [exists |-> FALSE, nd |-> 0, text |-> NoNotif]
              /\ seen' = IF newnotif.text.state = "ok"
                         THEN seen \cup {[s |-> session, n |-> serial,
                                          body |-> SnapBody, dup |-> SnapDup]}
                         ELSE seen
              /\ w' = IF CleanOps(files) = {} THEN RsyncPlan
                      ELSE [phase |-> "clean", ops |-> CleanOps(files)]
              /\ UNCHANGED <<files, rsCur, rsOld, rsTmp>>
         [] op[1] = "rmsession" ->
              /\ files' = {f \in files : f.s # op[2]}
              /\ w' = IF w.ops = {op} THEN RsyncPlan ELSE [w EXCEPT !.ops = @ \ {op}]
              /\ UNCHANGED <<notif, newnotif, rsCur, rsOld, rsTmp, seen>>
         [] op[1] = "rmserial" ->
              /\ files' = {f \in files : ~(f.s = session /\ f.n = op[2])}
              /\ w' = IF w.ops = {op} THEN RsyncPlan ELSE [w EXCEPT !.ops = @ \ {op}]
              /\ UNCHANGED <<notif, newnotif, rsCur, rsOld, rsTmp, seen>>
         [] op[1] = "rmsnap" ->
              /\ files' = {f \in files : ~(f.s = session /\ f.n = op[2] /\ f.k = "snap")}
              /\ w' = IF w.ops = {op} THEN RsyncPlan ELSE [w EXCEPT !.ops = @ \ {op}]
              /\ UNCHANGED <<notif, newnotif, rsCur, rsOld, rsTmp, seen>>
         [] op[1] = "rmtmp" ->
              /\ rsTmp' = rsTmp \ TmpOf(serial)
              /\ UNCHANGED <<notif, newnotif, files, rsCur, rsOld, seen, w>>
         [] op[1] = "tmp" ->
              /\ rsTmp' = IF TmpOf(serial) = {} THEN rsTmp \cup {[n |-> serial, objs |-> {}]}
                          ELSE rsTmp
              /\ w' = [w EXCEPT !.step = "files"]
              /\ UNCHANGED <<notif, newnotif, files, rsCur, rsOld, seen>>
         [] op[1] = "tmpfile" ->
              \E x \in w.tf :
                  /\ x[2][1] = op[3]
                  /\ rsTmp' = (rsTmp \ TmpOf(serial)) \cup
                              {[n |-> serial,
                                objs |-> Overwrite(TmpObjs(serial), x[2][1], x[2][2])]}
                  /\ w' = [w EXCEPT !.tf = @ \ {x}]
                  /\ UNCHANGED <<notif, newnotif, files, rsCur, rsOld, seen>>
         [] op[1] = "cur2old" ->
              \* fails for real when a non-empty old/ is in the way: RealFail
              /\ ~(rsOld.exists /\ rsOld.objs # {})
              /\ rsOld' = rsCur
              /\ rsCur' = NoDir
              /\ w' = [w EXCEPT !.step = "new2cur"]
              /\ UNCHANGED <<notif, newnotif, files, rsTmp, seen>>
         [] op[1] = "new2cur" ->
              /\ rsCur' = [exists |-> TRUE, objs |-> TmpObjs(serial)]
              /\ rsTmp' = rsTmp \ TmpOf(serial)
              /\ w' = [w EXCEPT !.step = "rmold"]
              /\ UNCHANGED <<notif, newnotif, files, rsOld, seen>>
         [] op[1] = "rmold" ->
              /\ rsOld' = NoDir
              /\ w' = IF w.step = "files" THEN w ELSE [w EXCEPT !.step = "rmold"]
              /\ UNCHANGED <<notif, newnotif, files, rsCur, rsTmp, seen>>

WriteComplete == ~Idle /\ NextOps = {}

EndWrite ==
    /\ WriteComplete
    /\ w' = IdleW /\ wres' = "ok"
    /\ SameLogical /\ UNCHANGED <<dvars, seen, pubAt, faults>>

\* the process dies in front of the next mutation (or while idle)
Crash ==
    /\ ~Idle
    /\ NextOps # {}
    /\ w' = IdleW /\ wres' = "crash" /\ faults' = faults + 1
    /\ SameLogical /\ UNCHANGED <<dvars, seen, pubAt>>

\* an injected I/O error in front of op
IoError(op) ==
    /\ ~Idle
    /\ op \in NextOps
    /\ faults' = faults + 1
    /\ SameLogical /\ UNCHANGED <<dvars, seen, pubAt>>
    /\ IF w.phase = "clean"
       THEN /\ w' = IF w.ops = {op} THEN RsyncPlan ELSE [w EXCEPT !.ops = @ \ {op}]
            /\ UNCHANGED wres
       ELSE w' = IdleW /\ wres' = "ioerr"

\* the code reports an error although no fault was injected
RealFailEnabled == ~Idle /\ NextOps = {<<"cur2old">>} /\ rsOld.exists /\ rsOld.objs # {}
RealFail ==
    /\ RealFailEnabled
    /\ w' = IdleW /\ wres' = "fail"
    /\ SameLogical /\ UNCHANGED <<dvars, seen, pubAt, faults>>

RInit ==
    /\ Init
    /\ notif = NoNotif
    /\ newnotif = [exists |-> FALSE, nd |-> 0, text |-> NoNotif]
    /\ files = {}
    /\ rsCur = NoDir /\ rsOld = NoDir /\ rsTmp = {}
    \* RepositoryManager::init: the first write is about to start
    /\ w = [phase |-> "rrdp", step |-> "deltas", dq |-> <<>>, refs |-> <<>>, keep |-> <<>>]
    /\ wres = "none"
    /\ seen = {}
    /\ pubAt = {[s |-> 1, n |-> 1, body |-> {}, dup |-> FALSE]}
    /\ faults = 0

RNext ==
    \/ \E p \in Pubs : RAdd(p) \/ RRemove(p) \/ RList(p)
    \/ \E p \in Pubs, E \in DeltaChoices : RDelta(p, E)
    \/ RUpdate \/ RReset \/ RRewrite
    \/ \E op \in NextOps : FsStep(op)
    \/ EndWrite
    \/ RealFail
    \/ faults < MaxFaults /\ Crash
    \/ faults < MaxFaults /\ \E op \in NextOps : IoError(op)

RSpec == RInit /\ [][RNext]_allvars

(***************************************************************************)
(* RRDP clients (RFC 8182, strict).                                        *)
(***************************************************************************)
Fail == {<<<<"fail">>, "fail">>}

StrictOK(O, E) ==
    \A e \in E : /\ e.k = "P" => e.u \notin UrisOf(O)
                 /\ e.k \in {"U", "W"} => <<e.u, e.h>> \in O

DeltaRef(n) == {r \in SeqSet(notif.deltas) : r.dn = n}
DeltaFileOf(r) == {f \in files : f.s = r.s /\ f.n = r.n /\ f.k = "delta"}
SnapFileOf(r) == {f \in files : f.s = r.s /\ f.n = r.n /\ f.k = "snap"}

\* the chain from n+1 to the current serial is offered
ChainOffered(n) == \A i \in (n + 1)..notif.n : DeltaRef(i) # {}

RECURSIVE ApplyChain(_, _)
ApplyChain(O, i) ==
    IF i > notif.n THEN O
    ELSE LET r == CHOOSE x \in DeltaRef(i) : TRUE
             fs == DeltaFileOf(r)
             f == CHOOSE x \in fs : TRUE
         IN  IF fs = {} \/ O = Fail THEN Fail
             ELSE IF f.dup \/ ~StrictOK(O, f.body) \/ f.body # r.body THEN Fail
             ELSE ApplyChain(Apply(O, f.body), i + 1)

(***************************************************************************)
(* The properties of C11.                                                  *)
(***************************************************************************)
RTypeOK ==
    /\ notif.state \in {"none", "ok", "corrupt"}
    /\ w.phase \in {"idle", "rrdp", "clean", "rsync"}
    /\ wres \in {"none", "ok", "crash", "ioerr", "fail"}

\* "At every instant the notification file names a snapshot and deltas that
\* exist with the stated hashes"
NotificationParsable == notif.state # "corrupt"
NotificationRefsExist ==
    notif.state = "ok" =>
        /\ \E f \in SnapFileOf(notif.snap) : f.body = notif.snap.body /\ f.dup = notif.snap.dup
        /\ \A r \in SeqSet(notif.deltas) :
              \E f \in DeltaFileOf(r) : f.body = r.body /\ f.dup = r.dup

\* "the snapshot equals the publication state at its serial"
SnapshotIsStateAtSerial ==
    notif.state = "ok" =>
        /\ notif.snap.s = notif.s /\ notif.snap.n = notif.n
        /\ \A f \in SnapFileOf(notif.snap) :
              \E h \in pubAt : h.s = notif.s /\ h.n = notif.n /\ h.body = f.body /\ h.dup = f.dup

\* "a client holding any earlier serial of the session reaches exactly that
\* snapshot by applying the offered delta chain whenever the chain is
\* contiguous from its serial"
ClientCatchesUp ==
    notif.state = "ok" =>
        \A c \in seen :
            c.s = notif.s /\ c.n <= notif.n /\ ~c.dup /\ ChainOffered(c.n) =>
                \A f \in SnapFileOf(notif.snap) :
                    ~f.dup => ApplyChain(c.body, c.n + 1) = f.body

\* "the retained deltas ... always form a contiguous run ending at the
\* current serial"
DeltasContiguousOnDisk ==
    notif.state = "ok" /\ notif.deltas # <<>> =>
        /\ notif.deltas[1].dn = notif.n
        /\ Contig(notif.deltas)
        /\ \A r \in SeqSet(notif.deltas) : r.s = notif.s /\ r.n = r.dn

\* "never exceed the configured maximum number" (see PubServer!DeltasBounded)
DeltasBoundedOnDisk ==
    notif.state = "ok" /\ MinAge = "zero" =>
        Len(notif.deltas) <= (IF MaxNr > MinNr + 1 THEN MaxNr ELSE MinNr + 1)

\* The literal reading: "the retained deltas never exceed the configured
\* maximum number" - without the precedence of the "always keep" rules.
DeltasNeverExceedMaxNrOnDisk ==
    notif.state = "ok" => Len(notif.deltas) <= MaxNr

\* the notification never goes back within a session, and names only
\* sessions and serials the server has been in
DiskFollowsLogicalStep ==
    /\ notif'.state = "ok" /\ notif.state = "ok" /\ notif'.s = notif.s => notif'.n >= notif.n
    /\ notif'.state = "ok" => notif'.s <= session' /\ (notif'.s = session' => notif'.n <= serial')
DiskFollowsLogical == [][DiskFollowsLogicalStep]_allvars

\* after a successful write everything is current:
\* "the rsync tree equals the snapshot after every successful write"
WriteOkStep ==
    wres' = "ok" /\ wres # "ok" /\ notif'.state = "ok" =>
        /\ notif'.s = session' /\ notif'.n = serial'
        /\ notif'.snap.body = CurAll(cur') /\ ~notif'.snap.dup
        /\ ~newnotif'.exists
WriteOk == [][WriteOkStep]_allvars

RsyncEqualsSnapshotAfterWriteStep ==
    wres' = "ok" /\ wres # "ok" =>
        /\ rsCur'.exists /\ rsCur'.objs = CurAll(cur')
        /\ ~rsOld'.exists
RsyncEqualsSnapshotAfterWrite == [][RsyncEqualsSnapshotAfterWriteStep]_allvars

\* "an interrupted write never prevents later writes": a write into which
\* no fault is injected succeeds
InterruptedWriteNeverBlocks == wres # "fail"

\* between writes the served files are those of some state the server was in
\* (stale after an interrupted write, but never inconsistent)
Inv11 ==
    /\ RTypeOK
    /\ NotificationParsable
    /\ NotificationRefsExist
    /\ SnapshotIsStateAtSerial
    /\ ClientCatchesUp
    /\ DeltasContiguousOnDisk
    /\ InterruptedWriteNeverBlocks
=============================================================================
