CONSTANTS
  Threads = {1}
  Entities = {"e1", "e2", "e3", "e4", "e5", "e6", "e7", "e8", "e9", "e10", "e11", "e12", "e13", "e14", "e15", "e16", "e17", "e18", "e19", "e20", "e21", "e22", "e23", "e24", "e25", "e26", "e27", "e28", "e29", "e30", "e31", "e32", "e33", "e34", "e35", "e36", "e37", "e38", "e39", "e40", "e41", "e42", "e43", "e44", "e45", "e46", "e47", "e48", "e49", "e50", "e51", "e52", "e53", "e54", "e55", "e56", "e57", "e58", "e59", "e60", "w1"}
  WalEntities = {"w1"}
  NewEntities = {}
  MaxOps = 1000000
  Ops = {"ok", "noop", "reject", "presave_fail", "cond", "read", "fread", "snap", "lsnap", "add", "hist", "list"}
  LockMode = "write"
SPECIFICATION TraceSpec
INVARIANT HistInvariant
PROPERTY TraceStepProps
POSTCONDITION TraceAccepted
CHECK_DEADLOCK FALSE
