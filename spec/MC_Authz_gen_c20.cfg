CONSTANT Part = "c20"
INIT Init
NEXT Next
INVARIANT PrintCase
CHECK_DEADLOCK FALSE
