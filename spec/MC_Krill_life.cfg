CONSTANTS
  Top = "A"
  CaOf <- IdCa
  ShadowRebuilt = TRUE
  Sub = {"B", "C"}
  Res = {"p1", "p2"}
  TopRes = {"p1", "p2"}
SPECIFICATION MCSpec
INVARIANT TypeOK
INVARIANT C01_Clean
INVARIANT C01_Vrps
INVARIANT C02_NoOverclaim
PROPERTY MC_IssuedWithinEntitlement
INVARIANT C02_Converged
INVARIANT C04_KeysHaveCerts
INVARIANT C04_PubKeysMatch
VIEW CoreView
CHECK_DEADLOCK FALSE
CONSTANTS
  Roa <- MCRoa1
  AspaDefs <- NoAspa
  ParentOf <- Chain
  Ops = {"res", "suspend", "remove", "delete"}
CONSTANTS
  MaxApi = 8
