------------------------------- MODULE Locks -------------------------------
(***************************************************************************)
(* C18, part 1: deadlock freedom of the lock programs of Krill.            *)
(*                                                                         *)
(* The harness (kv-conc record-locks) runs every operation kind alone --   *)
(* API commands and queries on CAs, the RFC 6492 and RFC 8181 exchanges,   *)
(* every background task kind, the publication server's delta/RRDP path -- *)
(* on both storage back-ends and records, from the hooks in                *)
(* src/commons/storage/backends/{disk,memory}.rs, the ordered sequence of  *)
(* lock acquisitions and releases (the lock program).  checks/c18.py cuts  *)
(* each program into SEGMENTS: maximal pieces that start and end with the  *)
(* thread holding no lock, collapses immediately repeated balanced blocks  *)
(* and removes duplicates.  This module lets Threads threads run any       *)
(* segments in any interleaving and checks that no state is reachable in   *)
(* which every thread that is inside a segment waits.                      *)
(*                                                                         *)
(* Why segments suffice.  A lock has no state but its holders and waiters, *)
(* and whether an acquisition is granted is anti-monotone in what the      *)
(* other threads hold and wait for.  Take a run of the full programs that  *)
(* ends in a deadlock.  Remove from it every step of every segment that    *)
(* was completed before: the remaining steps are still enabled (fewer      *)
(* holders, fewer waiters), the final state holds the same locks and has   *)
(* the same waiters, hence it is a deadlock of threads that each run one   *)
(* segment.  The converse is trivial.  The same argument shows that a      *)
(* balanced block executed twice in a row can be executed once (drop the   *)
(* first pass / run both passes back to back).                             *)
(*                                                                         *)
(* Three lock semantics (constant Semantics):                              *)
(*  "flock"     disk back-end: flock(2) on a fresh descriptor per          *)
(*              execute(): shared/exclusive, no queueing; a second         *)
(*              descriptor of the same thread conflicts like anybody's.    *)
(*  "rwlock_wp" memory back-end, std::sync::RwLock as implemented on       *)
(*              Linux (futex, writer preferring): a reader is not admitted *)
(*              while a writer waits; re-entrance conflicts.               *)
(*  "rwlock_np" the same without writer preference (other platforms).      *)
(* Mutexes (status cache is an RwLock only ever write-locked on these      *)
(* paths, update mutex, rsync mutex) are locks only taken in mode "w".     *)
(***************************************************************************)
EXTENDS Naturals, Sequences, FiniteSets, TLC, Json, IOUtils

CONSTANTS Threads, Semantics

\* One record per segment: [id |-> n, steps |-> << [a |-> "acq"|"rel",
\* l |-> lock name, m |-> "r"|"w"], ... >>, ops |-> names of the operations
\* the segment was seen in].
Segs == ndJsonDeserialize(IOEnv.SEGMENTS)
NSeg == Len(Segs)
SegIds == 1..NSeg
StepsOf(s) == Segs[s].steps

ASSUME NSeg > 0
ASSUME Semantics \in {"flock", "rwlock_wp", "rwlock_np"}

VARIABLES
    seg,    \* seg[t]: the segment thread t is in, 0 = none
    pc,     \* pc[t]: index of the next step of t in its segment
    wt      \* wt[t]: t has announced itself as a waiter for step pc[t]
            \*        (only used for writers under "rwlock_wp")
vars == <<seg, pc, wt>>

\* The locks held after the first n steps of a list of steps, as a sequence
\* of <<lock, mode>> (a thread may hold the same lock more than once).
RECURSIVE RemoveOne(_, _)
RemoveOne(h, e) ==
    IF h = <<>> THEN <<>>
    ELSE IF h[Len(h)] = e THEN SubSeq(h, 1, Len(h) - 1)
    ELSE Append(RemoveOne(SubSeq(h, 1, Len(h) - 1), e), h[Len(h)])

RECURSIVE HeldAfter(_, _)
HeldAfter(steps, n) ==
    IF n = 0 THEN <<>>
    ELSE LET h == HeldAfter(steps, n - 1)
             st == steps[n]
         IN IF st.a = "acq" THEN Append(h, <<st.l, st.m>>)
            ELSE RemoveOne(h, <<st.l, st.m>>)

\* Evaluated once: HeldTab[s][p] = locks held when segment s is at step p.
HeldTab == [s \in SegIds |->
               [p \in 1..(Len(StepsOf(s)) + 1) |-> HeldAfter(StepsOf(s), p - 1)]]

\* Every recorded segment is balanced and never releases what it does not
\* hold (a sanity check of the recording).
ASSUME \A s \in SegIds : HeldTab[s][Len(StepsOf(s)) + 1] = <<>>

Held(t) == IF seg[t] = 0 THEN <<>> ELSE HeldTab[seg[t]][pc[t]]
Active(t) == seg[t] # 0
Cur(t) == StepsOf(seg[t])[pc[t]]
AtAcq(t) == Active(t) /\ Cur(t).a = "acq"

Conflict(m1, m2) == m1 = "w" \/ m2 = "w"

\* Somebody (the requesting thread included: second descriptor / lock
\* re-entrance) holds lock l in a mode that conflicts with m.
HeldAgainst(l, m) ==
    \E u \in Threads : \E i \in 1..Len(Held(u)) :
        Held(u)[i][1] = l /\ Conflict(m, Held(u)[i][2])

\* A writer queues for l (writer preference).
WriterWaits(t, l) ==
    \E u \in Threads \ {t} :
        AtAcq(u) /\ wt[u] /\ Cur(u).l = l /\ Cur(u).m = "w"

NeedsAnnounce(t) == Semantics = "rwlock_wp" /\ Cur(t).m = "w" /\ ~wt[t]

Grantable(t) ==
    /\ ~HeldAgainst(Cur(t).l, Cur(t).m)
    /\ (Semantics = "rwlock_wp" /\ Cur(t).m = "r")
           => ~WriterWaits(t, Cur(t).l)

Init ==
    /\ seg = [t \in Threads |-> 0]
    /\ pc = [t \in Threads |-> 1]
    /\ wt = [t \in Threads |-> FALSE]

Start(t, s) ==
    /\ seg[t] = 0
    /\ seg' = [seg EXCEPT ![t] = s]
    /\ pc' = [pc EXCEPT ![t] = 1]
    /\ UNCHANGED wt

Advance(t) ==
    IF pc[t] = Len(StepsOf(seg[t]))
    THEN seg' = [seg EXCEPT ![t] = 0] /\ pc' = [pc EXCEPT ![t] = 1]
    ELSE seg' = seg /\ pc' = [pc EXCEPT ![t] = pc[t] + 1]

Announce(t) ==
    /\ AtAcq(t) /\ NeedsAnnounce(t)
    /\ wt' = [wt EXCEPT ![t] = TRUE]
    /\ UNCHANGED <<seg, pc>>

Acquire(t) ==
    /\ AtAcq(t) /\ ~NeedsAnnounce(t)
    /\ Grantable(t)
    /\ wt' = [wt EXCEPT ![t] = FALSE]
    /\ Advance(t)

Release(t) ==
    /\ Active(t) /\ Cur(t).a = "rel"
    /\ UNCHANGED wt
    /\ Advance(t)

Next ==
    \E t \in Threads :
        \/ \E s \in SegIds : Start(t, s)
        \/ Announce(t) \/ Acquire(t) \/ Release(t)

Spec == Init /\ [][Next]_vars

----------------------------------------------------------------------------
CanMove(t) ==
    \/ ~Active(t)
    \/ Cur(t).a = "rel"
    \/ NeedsAnnounce(t)
    \/ Grantable(t)

\* C18: no reachable state in which every thread that is inside an
\* operation waits for a lock.
DeadlockFree ==
    (\E t \in Threads : Active(t)) => (\E t \in Threads : Active(t) /\ CanMove(t))

\* The stronger per-thread form: a thread inside a segment that cannot move
\* is waiting for a lock that a thread that can move (transitively) holds.
\* DeadlockFree for every subset of threads is implied by checking the
\* invariant with 1..N threads, because idle threads never hinder anybody.

TypeOK ==
    /\ seg \in [Threads -> 0..NSeg]
    /\ \A t \in Threads : seg[t] # 0 => pc[t] \in 1..Len(StepsOf(seg[t]))
    /\ wt \in [Threads -> BOOLEAN]

Symm == Permutations(Threads)
=============================================================================
