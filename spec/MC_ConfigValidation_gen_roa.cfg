CONSTANTS
  Kinds = {"roa"}
  MaxEntries = 3
  SampleMod = 1
  SampleSeed = 0
INIT GenInit
NEXT GenNext
INVARIANT Sane
INVARIANT PrintCase
CHECK_DEADLOCK FALSE
