------------------------- MODULE MC_TaExchange_gen -------------------------
(* Behaviour generator for C15: the model of TaExchange plus a history     *)
(* variable with the action labels the harness understands.  Message       *)
(* references are positions in the sequence of messages ever sent, which   *)
(* the harness keeps in the same order.                                    *)
EXTENDS TaExchange, Json

CONSTANTS Depth, MaxAdv, ReassocAfter,   \* MaxAdv: adversarial steps in a row
          GenVariants, GenSigners

VARIABLES hist, adv

GenInit == Init /\ hist = <<>> /\ adv = 0

Honest(lbl) == hist' = Append(hist, lbl) /\ adv' = 0
Adversarial(lbl) == adv < MaxAdv /\ hist' = Append(hist, lbl) /\ adv' = adv + 1

GenNext ==
    \/ \E c \in Remote, r \in ReqNames :
         \/ RWants(c, r) /\ Honest([a |-> "RWants", c |-> c, r |-> r])
         \/ SyncOne(c, r) /\ Honest([a |-> "SyncOne", c |-> c, r |-> r])
    \/ \E c \in Children \ Remote :
         /\ ChildWants(c)
         /\ Honest([a |-> IF want'[c] = {"i:ka"} THEN "Sync"
                          ELSE IF want'[c] = {"i:kb"} THEN "Roll"
                          ELSE "Activate", c |-> c])
    \/ \E c \in Children \ Remote : Sync(c) /\ Honest([a |-> "Sync", c |-> c])
    \/ /\ MakeReq
       /\ IF open = None THEN Honest([a |-> "MakeReq"])
          ELSE Adversarial([a |-> "MakeReq"])    \* refused: one is open
    \/ GetReq /\ Adversarial([a |-> "GetReq"])
    \/ OtherProxyReq /\ Honest([a |-> "OtherProxyReq"])
    \/ Reassoc /\ Len(hist) >= ReassocAfter /\ Honest([a |-> "Reassoc"])
    \/ \E s \in GenSigners, i \in 1..Len(msgs), v \in GenVariants,
          k \in 1..Len(msgs) :
         /\ v = "swap" \/ k = 1
         /\ Sign(s, i, v, k)
         /\ LET lbl == [a |-> "Sign", s |-> s, i |-> i, v |-> v, k |-> k] IN
            \* honest: the associated signer processes the open request
            \* for the first time
            IF v = "orig" /\ s = "S1" /\ msgs[i].nonce = open
               /\ msgs' # msgs
               /\ \A j \in 1..Len(msgs) :
                     ~(msgs[j].t = "resp" /\ msgs[j].nonce = open
                       /\ msgs[j].by = sg["S1"].id)
            THEN Honest(lbl) ELSE Adversarial(lbl)
    \/ \E i \in 1..Len(msgs), v \in GenVariants, k \in 1..Len(msgs) :
         /\ v = "swap" \/ k = 1
         /\ Resp(i, v, k)
         /\ LET lbl == [a |-> "Resp", i |-> i, v |-> v, k |-> k] IN
            IF v = "orig" /\ open' = None /\ open # None
            THEN Honest(lbl) ELSE Adversarial(lbl)

DepthBound == Len(hist) < Depth

PrintBehaviour ==
    Len(hist) = Depth => PrintT(<<"REPLAY", ToJson([actions |-> hist])>>)
=============================================================================
