---------------------------- MODULE PipelineDefs ----------------------------
(* C08: a crash or a failed write at any instant is recoverable without     *)
(* loss or divergence.                                                       *)
(*                                                                           *)
(* Krill has no transaction that spans its stores.  An operation (an API     *)
(* command, a background task) is a *sequence of mutations* of the key-value *)
(* stores and of the file system; this module describes                      *)
(*   - the mutation classes and what each does to the durable state,         *)
(*   - what a cut of the sequence (crash before the k-th mutation, or the    *)
(*     k-th mutation failing with an I/O error) leaves behind,               *)
(*   - restart (start-up re-queues running tasks, schedules the start task), *)
(*     the background tasks, and the re-submission of the request,           *)
(*   - the clauses of C08 as predicates of the state after the cut and of    *)
(*     the final state.                                                      *)
(* The sequences are not invented: they are recorded from the real code by   *)
(* the fault injector in Count mode (harness-fault).  `Catalogue' below is   *)
(* the transcription of the recorded shapes, used for the exhaustive         *)
(* enumeration (MC_Pipeline); PipelineTrace replays every real cut against   *)
(* the same definitions.                                                     *)
(*                                                                           *)
(* Mutation classes (field t), entity e = CA or task name:                   *)
(*   OBJS   ca_objects/<ca>.json written by the pre-save listener            *)
(*   CMD    cas/<ca>/command-N.json: the audit log entry                     *)
(*   QADD QDEL CLAIM FIN QRESCHED   task queue: store pending, delete        *)
(*          pending, move pending->running, delete running, move back        *)
(*   STATUS status/<ca>/... (exchange outcome, shadow of published objects)  *)
(*   WAL    pubd_objects/0/wal-N.json: repository content change set         *)
(*   DELTA SNAP NEWNOTIF RENAME CLEAN   RRDP files: delta, snapshot, new     *)
(*          notification file, atomic rename, removal of old files           *)
(*   RS_TMP RS_FILE RS_C2O RS_N2C RS_RMOLD   rsync: tmp dir, files,          *)
(*          current->old, tmp->current, remove old                           *)
(*   AUX    anything else (signer keys, identity aggregates)                 *)
EXTENDS Naturals, Sequences, FiniteSets, TLC

----------------------------------------------------------------------------
(* Generic helpers on mutation sequences *)

Idx(X, t) == {i \in 1..Len(X) : X[i].t = t}
IdxE(X, t, e) == {i \in 1..Len(X) : X[i].t = t /\ X[i].e = e}
Has(X, t) == Idx(X, t) # {}
Count(X, t, e) == Cardinality(IdxE(X, t, e))
Max(S) == CHOOSE x \in S : \A y \in S : y <= x
Min(S) == CHOOSE x \in S : \A y \in S : x <= y
LastIdx(X, t) == IF Idx(X, t) = {} THEN 0 ELSE Max(Idx(X, t))
FirstIdx(X, t) == IF Idx(X, t) = {} THEN 0 ELSE Min(Idx(X, t))

RECURSIVE SeqFilter(_, _, _)
\* the elements of X whose index is not in Drop
SeqFilter(X, Drop, i) ==
    IF i > Len(X) THEN <<>>
    ELSE IF i \in Drop THEN SeqFilter(X, Drop, i + 1)
    ELSE <<X[i]>> \o SeqFilter(X, Drop, i + 1)

----------------------------------------------------------------------------
(* What takes effect *)

\* crash in front of the k-th mutation: exactly the first k-1 took effect
CrashPath(seq, k) == SubSeq(seq, 1, k - 1)

\* The k-th mutation fails.  What the code does then depends on where the
\* mutation sits (the rules are read off the code and confirmed by the
\* recorded runs, which log the mutations executed after the failure):
\*  API command: everything up to and including the command entry is inside
\*   the store's critical section and propagates the error (abort); the
\*   post-save listener swallows errors (mq.rs cert_auth_post_save_events):
\*   the failing schedule call is dropped - a failed delete also drops the
\*   store that would have followed - and the request is acknowledged.
\*  Task: a failing claim leaves the task pending (TaskQueue::pop returns
\*   None); a failure in the finish phase makes the scheduler exit
\*   (scheduler.rs:80-105); a failure in the body is swallowed for status
\*   writes and clean-up removals and otherwise ends the body, the task is
\*   re-scheduled (sync_repo, sync_parent, update_rrdp all answer a failure
\*   with TaskResult::Reschedule).
FinishStart(seq) ==
    \* first mutation of the finish phase: the scheduler's finish /
    \* re-schedule / follow-up call works on the queue entries of the claimed
    \* task only, and nothing follows it (a queue operation on the task's own
    \* name in the middle of the body is a post-save signal, mq.rs)
    LET own(i) == /\ seq[i].t \in {"FIN", "QDEL", "QADD", "QRESCHED"}
                  /\ seq[i].e = seq[1].e
        S == {i \in 2..Len(seq) : \A j \in i..Len(seq) : own(j)}
    IN IF S = {} THEN Len(seq) + 1 ELSE Min(S)

\* failures that are logged and ignored: status writes, clean-up removals,
\* queue operations on the task's own name in the middle of the body
Swallowed(op, k) ==
    LET seq == op.seq IN
    \* (the synchronisation with the parent reports a failing status write
    \* as a failure of the exchange)
    \/ seq[k].t = "CLEAN"
    \/ seq[k].t = "STATUS" /\ op.cls # "sync_parent"
    \/ /\ seq[k].t \in {"FIN", "QDEL", "QADD"} /\ seq[k].e = seq[1].e
       /\ k < FinishStart(seq)
       /\ \E i \in 2..k : seq[i].t = "FIN" /\ seq[i].e = seq[1].e
           /\ \A j \in i..k : seq[j].t \in {"FIN", "QDEL", "QADD"}

\* indices of op.seq that take effect, and whether the task is moved back
\* to pending afterwards (a mutation that is not part of the fault-free run)
ErrIdx(op, k) ==
    LET seq == op.seq
        all == 1..Len(seq)
        lastCmd == LastIdx(seq, "CMD")
    IN  IF ~op.task
        THEN IF k <= lastCmd \/ lastCmd = 0
             THEN 1..(k - 1)
             ELSE IF seq[k].t = "QDEL" /\ k < Len(seq)
                       /\ seq[k + 1].t = "QADD"
                  THEN all \ {k, k + 1}
                  ELSE all \ {k}
        ELSE IF k = 1 THEN {}
             ELSE IF k >= FinishStart(seq) THEN 1..(k - 1)
             ELSE IF Swallowed(op, k)
                  THEN all \ {k}
                  ELSE 1..(k - 1)

\* the body ends with an error and the scheduler moves the task back to
\* pending ...
BodyAbort(op, k) ==
    /\ op.task /\ k > 1 /\ k < FinishStart(op.seq) /\ ~Swallowed(op, k)
\* ... unless a post-save signal of the body has already replaced the
\* running entry of this very task by a new pending one
\* (schedule_and_finish_existing for the child's synchronisation, mq.rs):
\* then nothing is left to re-schedule (queue.rs reschedule_running_task;
\* before commit ac959d8f the scheduler exited here).
OwnFinBefore(seq, k) ==
    \E i \in 2..(k - 1) : seq[i].t = "FIN" /\ seq[i].e = seq[1].e

Rescheduled(op, k, mode) ==
    mode = "error" /\ BodyAbort(op, k) /\ ~OwnFinBefore(op.seq, k)

ExecIdx(op, k, mode) ==
    IF mode = "crash" THEN 1..(k - 1) ELSE ErrIdx(op, k)

\* does the process go down?
GoesDown(op, k, mode) ==
    \/ mode = "crash"
    \/ op.task /\ k > 1 /\ k >= FinishStart(op.seq)

\* is the request acknowledged to the caller?
Acked(op, k, mode) ==
    /\ mode = "error"
    /\ ~op.task
    /\ LastIdx(op.seq, "CMD") # 0
    /\ k > LastIdx(op.seq, "CMD")
    \* (a provisioning request of a remote child ends with the write of the
    \* child's status entry, manager.rs rfc6492_process_request: if that
    \* write fails the request is answered with an error although its command
    \* is complete -- present in full, not acknowledged)
    /\ op.seq[k].t # "STATUS"

Path(op, k, mode) ==
    SeqFilter(op.seq, (1..Len(op.seq)) \ ExecIdx(op, k, mode), 1)
    \o (IF Rescheduled(op, k, mode)
        THEN << [t |-> "QRESCHED", e |-> op.seq[1].e] >> ELSE <<>>)

----------------------------------------------------------------------------
(* Task queue as a pair of name sets *)

RECURSIVE QFold(_, _)
QFold(q, X) ==
    IF X = <<>> THEN q
    ELSE LET m == Head(X)
             q1 == CASE m.t = "QADD" -> [q EXCEPT !.pending = @ \cup {m.e}]
                      [] m.t = "QDEL" -> [q EXCEPT !.pending = @ \ {m.e}]
                      [] m.t = "CLAIM" ->
                            [pending |-> q.pending \ {m.e},
                             running |-> q.running \cup {m.e}]
                      [] m.t = "FIN" -> [q EXCEPT !.running = @ \ {m.e}]
                      [] m.t = "QRESCHED" ->
                            [pending |-> q.pending \cup {m.e},
                             running |-> q.running \ {m.e}]
                      [] OTHER -> q
         IN QFold(q1, Tail(X))

\* start-up: running tasks go back to pending (mq.rs
\* reschedule_tasks_at_startup), the start task is scheduled; the start task
\* (scheduler.rs queue_start_tasks) adds, if missing, the synchronisation of
\* every CA with its parents and its repository and the recurring
\* maintenance tasks - it does NOT add update_rrdp_if_needed.
StartTasksFor(cas) ==
    {"sync_repo_" \o c : c \in cas} \cup {"sync_parent_" \o c : c \in cas}
RestartQ(q) ==
    [pending |-> q.pending \cup q.running \cup {"queue_start_tasks"},
     running |-> {}]

----------------------------------------------------------------------------
(* The state a cut leaves behind, as far as C08 looks at it *)

\* CAs whose object set is ahead of (or behind) their audit log: the
\* pre-save listener wrote ca_objects, the command entry that explains the
\* change is not there.  op.eff = CAs whose set of signed objects the
\* operation changes.
Ahead(op, X) ==
    {c \in op.eff : Count(X, "OBJS", c) > Count(X, "CMD", c)}

\* A follow-up task scheduled by the pre-save listener for the aggregate
\* version the command would have produced; if the command entry is missing
\* the task finds the CA "premature" and re-schedules itself every second
\* until some other command catches up.
Premature(op, X) ==
    {c \in {X[i].e : i \in Idx(X, "OBJS")} :
        /\ Count(X, "OBJS", c) > Count(X, "CMD", c)
        /\ \E i \in Idx(X, "QADD") : i > Max(IdxE(X, "OBJS", c))}

WalDone(X) == Has(X, "WAL")

\* the served files do not reflect the repository content
RrdpStale(op, X) == op.cls = "update_rrdp" /\ WalDone(X) /\ ~Has(X, "RENAME")
RsyncStale(op, X) == op.cls = "update_rrdp" /\ WalDone(X) /\ ~Has(X, "RS_N2C")
\* rsync module without a current directory
NoCurrent(X) == Has(X, "RS_C2O") /\ ~Has(X, "RS_N2C")
\* stale old/ directory: the next rename(current, old) fails (ENOTEMPTY)
OldLeft(X) == Has(X, "RS_C2O") /\ Has(X, "RS_N2C") /\ ~Has(X, "RS_RMOLD")
\* RRDP: the notification file never points to a missing snapshot
NotifAhead(X) == Has(X, "RENAME") /\ ~(Has(X, "SNAP") /\ Has(X, "NEWNOTIF"))

\* content staged at the server, nobody left to publish it: publish() wrote
\* the change set, the update task is not in the queue and start-up does not
\* re-create it
UpdateLost(op, X, q) ==
    /\ op.cls = "sync_repo" /\ WalDone(X)
    /\ "update_rrdp_if_needed" \notin (q.pending \cup q.running)

\* the status shadow of the CA misses the publication that went through
StatusStale(op, X) ==
    /\ op.cls = "sync_repo" /\ WalDone(X)
    /\ LET w == FirstIdx(X, "WAL") IN
       ~\E i \in Idx(X, "STATUS") : i > w

\* a queue entry deleted for replacement and never stored again, and not a
\* task start-up would re-create (only relevant while the process lives)
LostTasks(op, X, q0) ==
    LET q == QFold(q0, X) IN
    {n \in q0.pending : n \notin (q.pending \cup q.running)
                        /\ n \notin {X[i].e : i \in Idx(X, "CLAIM")}}
=============================================================================
