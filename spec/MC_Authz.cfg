CONSTANT Full = FALSE
INIT Init
NEXT Next
INVARIANT ServedNeedsEverything
INVARIANT RefusedLacksSomething
INVARIANT OtherCaIrrelevant
INVARIANT NobodyGetsOnlyPublic
INVARIANT TestbedOnlyInTestbedMode
INVARIANT OnlyGenuineCredentials
INVARIANT AdminOnlyByAdminToken
INVARIANT NoPeerOverTcp
INVARIANT ForeignOrStaleSessionIsNobodyOverTcp
INVARIANT LoginRule
INVARIANT LoginNeedsEverything
CHECK_DEADLOCK FALSE
