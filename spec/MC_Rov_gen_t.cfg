CONSTANTS
  Depth = 4
  Origins = {1}
  MaxRoas = 1
  MaxAnns = 4
  RoaDepth = 0
  AnnDepth = 4
  MlOffsets = {3}
  WithBeyond = FALSE
  RoaAsns = {1}
  SampleMod = 1
  SampleSeed = 0
  AnnsFirst = TRUE
INIT GenInit
NEXT GenNext
INVARIANT Sane
INVARIANT PrintCase
CHECK_DEADLOCK FALSE
