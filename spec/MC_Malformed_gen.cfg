CONSTANTS
  MaxVersion = 2
INIT GenInit
NEXT GenNext
VIEW View
INVARIANT PrintBehaviour
CHECK_DEADLOCK FALSE
