CONSTANTS
  Top = "A"
  CaOf <- SecondSlots
  ShadowRebuilt = TRUE
  Sub = {"B", "C", "D", "C2", "D2", "F"}
  Res = {"p1", "p2", "p3", "a1", "a2"}
  TopRes = {"p1", "p2", "a1"}
  Roa <- TraceRoa
  AspaDefs <- TraceAspa
  ParentOf <- TraceParentOf
  Ops = {"deepremove", "recreate"}
SPECIFICATION TraceSpec
INVARIANT TypeOK
INVARIANT C03_RevokedWhileRelevant
INVARIANT C03_CurrentNotRevoked
INVARIANT C14_NumbersAgree
INVARIANT C14_ValidityContainsNow
INVARIANT C14_StorePublished
INVARIANT C01_ManifestExact
INVARIANT C0109_ServedIsContent
INVARIANT C04_TopSettled
INVARIANT C09_ParentSyncKept
INVARIANT C01_TopValid
INVARIANT TaExactlyOnce
INVARIANT RpMatches
INVARIANT SettledAgreed
INVARIANT T_C01_Clean
INVARIANT T_C01_Vrps
INVARIANT T_C02_NoOverclaim
INVARIANT C02_Converged
INVARIANT C04_KeysHaveCerts
INVARIANT T_C04_PubKeysMatch
INVARIANT C19_RemovalRemoves
PROPERTY TraceStepProps
POSTCONDITION TraceAccepted
CHECK_DEADLOCK FALSE
