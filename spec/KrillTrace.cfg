CONSTANTS
  Top = "A"
  Sub = {"B", "C", "D"}
  Res = {"p1", "p2", "p3", "a1", "a2"}
  TopRes = {"p1", "p2", "a1"}
  Roa <- TraceRoa
  ParentOf <- TraceParentOf
  Ops = {}
SPECIFICATION TraceSpec
INVARIANT TypeOK
INVARIANT C03_RevokedWhileRelevant
INVARIANT C03_CurrentNotRevoked
INVARIANT C14_NumbersAgree
INVARIANT C01_ManifestExact
INVARIANT RpMatches
INVARIANT SettledAgreed
INVARIANT C01_Clean
INVARIANT C01_Vrps
INVARIANT C02_NoOverclaim
INVARIANT C02_Converged
INVARIANT C04_KeysHaveCerts
INVARIANT C04_PubKeysMatch
PROPERTY TraceStepProps
POSTCONDITION TraceAccepted
CHECK_DEADLOCK FALSE
