CONSTANTS
  Top = "A"
  Sub = {"B", "C", "D"}
  Res = {"p1", "p2", "p3", "a1", "a2"}
  TopRes = {"p1", "p2", "a1"}
  Roa <- TraceRoa
  ParentOf <- TraceParentOf
  Ops = {}
SPECIFICATION TraceSpec
INVARIANT TraceInvariant
PROPERTY TraceStepProps
POSTCONDITION TraceAccepted
CHECK_DEADLOCK FALSE
