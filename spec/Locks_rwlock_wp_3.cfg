CONSTANTS
  Threads = {t1, t2, t3}
  Semantics = "rwlock_wp"
SPECIFICATION Spec
INVARIANT TypeOK
INVARIANT DeadlockFree
SYMMETRY Symm
CHECK_DEADLOCK FALSE
