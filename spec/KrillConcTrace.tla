--------------------------- MODULE KrillConcTrace ---------------------------
(***************************************************************************)
(* C18, part 3: the calls of a concurrent run are answered as in some      *)
(* one-at-a-time execution, and the state after quiescence is the state of *)
(* that execution.                                                         *)
(*                                                                         *)
(* Input (IOEnv.TRACE): one JSON line per scenario recorded by             *)
(* `kv-conc run-conc` on the real code:                                    *)
(*   calls  tuple of records [k, ca, r, child, ent, p, elems, res, pred],  *)
(*          pred = indices of the calls that had returned before this one  *)
(*          was issued (numbers from one global atomic counter);           *)
(*   final  what was observed after all background work had caught up:     *)
(*          ROA definitions per CA, the children of A with entitlement     *)
(*          class, the external publishers with their objects (as served   *)
(*          to RRDP clients), the resource class on B's certificate as a   *)
(*          relying party sees it.                                         *)
(*                                                                         *)
(* The module is a sequential reference model of the order-dependent       *)
(* operations (Apply) plus a search: TLC may linearise next any call whose *)
(* predecessors are all linearised, provided the model gives the recorded  *)
(* result; a scenario is finished when all calls are linearised AND the    *)
(* model state equals the observed final state.  Scenarios are processed   *)
(* one after the other; the run is accepted iff the last one finishes,     *)
(* which the POSTCONDITION reads off the diameter of the state graph.      *)
(***************************************************************************)
EXTENDS Naturals, Sequences, FiniteSets, TLC, Json, IOUtils

Rec == ndJsonDeserialize(IOEnv.TRACE)
NScen == Len(Rec)

CAs == {"A", "B", "C"}
Children == {"B", "X"}          \* children of A: the local CA B, the remote X
Pubs == {"x", "y"}              \* external publishers

ToSet(t) == { t[i] : i \in 1..Len(t) }

VARIABLES
    b,      \* scenario being linearised (NScen + 1 = all accepted)
    done,   \* indices of the calls linearised so far
    roas,   \* [CAs -> set of ROA numbers]
    ent,    \* [Children -> "none" | "s" | "l"]
    pubs    \* [Pubs -> [exists : BOOLEAN, objs : set of <<uri, content>>]]
vars == <<b, done, roas, ent, pubs>>

Roas0 == [c \in CAs |-> {}]
Ent0 == [c \in Children |-> IF c = "B" THEN "s" ELSE "none"]
Pubs0 == [p \in Pubs |-> [exists |-> FALSE, objs |-> {}]]

Calls == Rec[b].calls
Final == Rec[b].final

----------------------------------------------------------------------------
(* The sequential reference model: Apply(c) is enabled iff the recorded    *)
(* result of call c is the result of executing it in the current state.    *)

Ok(c) == c.res = "ok"

\* The answer does not depend on the order: it must be positive ...
Query(c) ==
    /\ c.k \in {"ca_list", "ca_show", "history", "status", "repo_stats",
                "session_reset", "refresh_all", "sync_all", "republish",
                "bg"}
    /\ Ok(c)
    /\ UNCHANGED <<roas, ent, pubs>>

\* ... except where it depends on state this model does not track (the
\* stage of a key roll, the existence of a publisher for a query).
Untracked(c) ==
    /\ c.k \in {"roll_init", "roll_activate", "pub_show"}
    /\ UNCHANGED <<roas, ent, pubs>>

RoaAdd(c) ==
    /\ c.k = "roa_add"
    /\ Ok(c) <=> c.r \notin roas[c.ca]
    /\ roas' = IF Ok(c) THEN [roas EXCEPT ![c.ca] = @ \cup {c.r}] ELSE roas
    /\ UNCHANGED <<ent, pubs>>

RoaDel(c) ==
    /\ c.k = "roa_del"
    /\ Ok(c) <=> c.r \in roas[c.ca]
    /\ roas' = IF Ok(c) THEN [roas EXCEPT ![c.ca] = @ \ {c.r}] ELSE roas
    /\ UNCHANGED <<ent, pubs>>

ChildAdd(c) ==
    /\ c.k = "child_add"
    /\ Ok(c) <=> ent[c.child] = "none"
    /\ ent' = IF Ok(c) THEN [ent EXCEPT ![c.child] = c.ent] ELSE ent
    /\ UNCHANGED <<roas, pubs>>

ChildUpd(c) ==
    /\ c.k = "child_upd"
    /\ Ok(c) <=> ent[c.child] # "none"
    /\ ent' = IF Ok(c) THEN [ent EXCEPT ![c.child] = c.ent] ELSE ent
    /\ UNCHANGED <<roas, pubs>>

ChildRm(c) ==
    /\ c.k = "child_rm"
    /\ Ok(c) <=> ent[c.child] # "none"
    /\ ent' = IF Ok(c) THEN [ent EXCEPT ![c.child] = "none"] ELSE ent
    /\ UNCHANGED <<roas, pubs>>

\* RFC 6492 list query of the remote child: answered iff it is a child.
UdList(c) ==
    /\ c.k = "ud_list"
    /\ Ok(c) <=> ent[c.child] # "none"
    /\ UNCHANGED <<roas, ent, pubs>>

PubAdd(c) ==
    /\ c.k = "pub_add"
    /\ Ok(c) <=> ~pubs[c.p].exists
    /\ pubs' = IF Ok(c)
               THEN [pubs EXCEPT ![c.p] = [exists |-> TRUE, objs |-> {}]]
               ELSE pubs
    /\ UNCHANGED <<roas, ent>>

PubRm(c) ==
    /\ c.k = "pub_rm"
    /\ Ok(c) <=> pubs[c.p].exists
    /\ pubs' = IF Ok(c)
               THEN [pubs EXCEPT ![c.p] = [exists |-> FALSE, objs |-> {}]]
               ELSE pubs
    /\ UNCHANGED <<roas, ent>>

\* An RFC 8181 delta: applied iff the publisher exists and every element
\* matches the current objects (publish: URI free; update/withdraw: URI
\* present with the quoted hash) -- all or nothing.
ElemOk(objs, e) ==
    CASE e[1] = "P" -> ~\E o \in objs : o[1] = e[2]
      [] e[1] = "U" -> <<e[2], e[4]>> \in objs
      [] OTHER      -> <<e[2], e[4]>> \in objs
DeltaApplied(objs, elems) ==
    LET gone == { o \in objs : \E i \in 1..Len(elems) :
                      elems[i][1] \in {"U", "W"} /\ elems[i][2] = o[1] }
        new == { <<elems[i][2], elems[i][3]>> : i \in
                     { j \in 1..Len(elems) : elems[j][1] \in {"P", "U"} } }
    IN (objs \ gone) \cup new
Publish(c) ==
    /\ c.k = "publish"
    /\ Ok(c) <=> /\ pubs[c.p].exists
                 /\ \A i \in 1..Len(c.elems) : ElemOk(pubs[c.p].objs, c.elems[i])
    /\ pubs' = IF Ok(c)
               THEN [pubs EXCEPT ![c.p].objs = DeltaApplied(@, c.elems)]
               ELSE pubs
    /\ UNCHANGED <<roas, ent>>

\* Purging a publisher's URI space always succeeds.
DelFiles(c) ==
    /\ c.k = "del_files"
    /\ Ok(c)
    /\ pubs' = [pubs EXCEPT ![c.p].objs = {}]
    /\ UNCHANGED <<roas, ent>>

Apply(c) ==
    \/ Query(c) \/ Untracked(c)
    \/ RoaAdd(c) \/ RoaDel(c)
    \/ ChildAdd(c) \/ ChildUpd(c) \/ ChildRm(c) \/ UdList(c)
    \/ PubAdd(c) \/ PubRm(c) \/ Publish(c) \/ DelFiles(c)

----------------------------------------------------------------------------
(* The search for a serial order.                                          *)

Init ==
    /\ b = 1 /\ done = {}
    /\ roas = Roas0 /\ ent = Ent0 /\ pubs = Pubs0

\* Call i may come next: everything that had returned before it was issued
\* is already in the order (real-time precedence).
Lin(i) ==
    /\ i \notin done
    /\ ToSet(Calls[i].pred) \subseteq done
    /\ Apply(Calls[i])
    /\ done' = done \cup {i}
    /\ b' = b

FinalMatches ==
    /\ \A c \in CAs : ToSet(Final.roas[c]) = roas[c]
    /\ \A c \in Children : Final.ent[c] = ent[c]
    /\ \A p \in Pubs :
          /\ Final.pubs[p].exists = pubs[p].exists
          /\ { <<o[1], o[2]>> : o \in ToSet(Final.pubs[p].objs) } = pubs[p].objs
    \* the certificate the parent publishes for B carries B's entitlement
    /\ Final.certB = ent["B"]

Finish ==
    /\ b <= NScen
    /\ done = 1..Len(Calls)
    /\ FinalMatches
    /\ b' = b + 1 /\ done' = {}
    /\ roas' = Roas0 /\ ent' = Ent0 /\ pubs' = Pubs0

Next ==
    \/ b <= NScen /\ \E i \in 1..Len(Calls) : Lin(i)
    \/ Finish

Spec == Init /\ [][Next]_vars

\* Every scenario contributes Len(calls) + 1 levels; the search gets past
\* scenario k iff scenario k is linearisable with a matching final state.
TotalDepth ==
    LET RECURSIVE Sum(_)
        Sum(n) == IF n = 0 THEN 0 ELSE Sum(n - 1) + Len(Rec[n].calls) + 1
    IN Sum(NScen) + 1

TraceAccepted ==
    LET d == TLCGet("stats").diameter IN
    IF d = TotalDepth THEN TRUE
    ELSE /\ PrintT(<<"TRACE_REJECTED", "depth", d, "of", TotalDepth>>)
         /\ FALSE
=============================================================================
