--------------------------- MODULE KrillConcTrace ---------------------------
(***************************************************************************)
(* C18, part 3: the calls of a concurrent run are answered as in some      *)
(* one-at-a-time execution, and the state after quiescence is the state of *)
(* that execution.                                                         *)
(*                                                                         *)
(* Input (IOEnv.TRACE): one JSON line per scenario recorded by             *)
(* `kv-conc run-conc` on the real code:                                    *)
(*   calls  tuple of records [k, ca, r, child, ent, p, elems, res, pred],  *)
(*          pred = indices of the calls that had returned before this one  *)
(*          was issued (numbers from one global atomic counter);           *)
(*   final  what was observed after all background work had caught up:     *)
(*          ROA definitions per CA, the children of A with entitlement     *)
(*          class, the external publishers with their objects (as served   *)
(*          to RRDP clients), the resource class on B's certificate as a   *)
(*          relying party sees it.                                         *)
(*                                                                         *)
(* The module is a sequential reference model of the order-dependent       *)
(* operations (Apply) plus a search: TLC may linearise next any call whose *)
(* predecessors are all linearised, provided the model gives the recorded  *)
(* result; a scenario is finished when all calls are linearised AND the    *)
(* model state equals the observed final state.  Scenarios are processed   *)
(* one after the other; the run is accepted iff the last one finishes,     *)
(* which the POSTCONDITION reads off the diameter of the state graph.      *)
(***************************************************************************)
EXTENDS Naturals, Sequences, FiniteSets, TLC, Json, IOUtils

Rec == ndJsonDeserialize(IOEnv.TRACE)
NScen == Len(Rec)

CAs == {"A", "B", "C"}
Children == {"B", "X"}          \* children of A: the local CA B, the remote X
Pubs == {"x", "y"}              \* external publishers

ToSet(t) == { t[i] : i \in 1..Len(t) }

VARIABLES
    b,      \* scenario being linearised (NScen + 1 = all accepted)
    done,   \* indices of the calls linearised so far
    roas,   \* [CAs -> set of ROA numbers]
    ent,    \* [Children -> "none" | "s" | "l"]
    pubs    \* [Pubs -> [exists : BOOLEAN, objs : set of <<uri, content>>]]
vars == <<b, done, roas, ent, pubs>>

Roas0 == [c \in CAs |-> {}]
Ent0 == [c \in Children |-> IF c = "B" THEN "s" ELSE "none"]
Pubs0 == [p \in Pubs |-> [exists |-> FALSE, objs |-> {}]]

Calls == Rec[b].calls
Final == Rec[b].final

----------------------------------------------------------------------------
(* The sequential reference model: Apply(c) is enabled iff the recorded    *)
(* result of call c is the result of executing it in the current state.    *)

Ok(c) == c.res = "ok"

\* An RFC 8181 delta is applied iff the publisher exists and every element
\* matches the current objects (publish: URI free; update/withdraw: URI
\* present with the quoted hash) -- all or nothing.
ElemOk(objs, e) ==
    CASE e[1] = "P" -> ~\E o \in objs : o[1] = e[2]
      [] e[1] = "U" -> <<e[2], e[4]>> \in objs
      [] OTHER      -> <<e[2], e[4]>> \in objs
DeltaApplied(objs, elems) ==
    LET gone == { o \in objs : \E i \in 1..Len(elems) :
                      elems[i][1] \in {"U", "W"} /\ elems[i][2] = o[1] }
        new == { <<elems[i][2], elems[i][3]>> : i \in
                     { j \in 1..Len(elems) : elems[j][1] \in {"P", "U"} } }
    IN (objs \ gone) \cup new

\* Would the operation succeed in the current state?
Succeeds(c) ==
    CASE c.k = "roa_add"   -> c.r \notin roas[c.ca]
      [] c.k = "roa_del"   -> c.r \in roas[c.ca]
      [] c.k = "child_add" -> ent[c.child] = "none"
      [] c.k \in {"child_upd", "child_rm", "ud_list"} -> ent[c.child] # "none"
      [] c.k = "pub_add"   -> ~pubs[c.p].exists
      [] c.k = "pub_rm"    -> pubs[c.p].exists
      [] c.k = "publish"   ->
            /\ pubs[c.p].exists
            /\ \A i \in 1..Len(c.elems) : ElemOk(pubs[c.p].objs, c.elems[i])
      [] OTHER -> TRUE

\* Operations whose answer depends on state this model does not track (the
\* stage of a key roll, a query for a publisher): any answer is taken.
Untracked == {"roll_init", "roll_activate", "pub_show"}

\* Operations this model knows; their answer does not depend on the order
\* (queries, triggers of background work, RRDP session reset, purging a URI
\* space) or is given by Succeeds.
Known == {"roa_add", "roa_del", "child_add", "child_upd", "child_rm",
          "ud_list", "pub_add", "pub_rm", "publish", "del_files",
          "ca_list", "ca_show", "history", "status", "repo_stats",
          "session_reset", "refresh_all", "sync_all", "republish", "bg"}

\* A refusal that is possible although Succeeds holds, because it depends
\* on background work whose timing is open: once B is no longer a child of
\* A it loses its certificate as soon as its next synchronisation runs, and
\* from then on a new ROA is refused as "not entitled".
MayAlsoFail(c) == c.k = "roa_add" /\ c.ca = "B" /\ ent["B"] = "none"

\* The recorded answer is the answer of a serial execution in this state.
ResultOk(c) ==
    \/ c.k \in Untracked
    \/ c.k \in Known /\ IF Ok(c) THEN Succeeds(c)
                      ELSE ~Succeeds(c) \/ MayAlsoFail(c)

\* The state after the operation (unchanged if it was refused).
Effect(c) ==
    IF ~Ok(c) \/ c.k \in Untracked THEN UNCHANGED <<roas, ent, pubs>>
    ELSE
    /\ roas' = CASE c.k = "roa_add" -> [roas EXCEPT ![c.ca] = @ \cup {c.r}]
                 [] c.k = "roa_del" -> [roas EXCEPT ![c.ca] = @ \ {c.r}]
                 [] OTHER -> roas
    /\ ent' = CASE c.k \in {"child_add", "child_upd"} ->
                        [ent EXCEPT ![c.child] = c.ent]
                [] c.k = "child_rm" -> [ent EXCEPT ![c.child] = "none"]
                [] OTHER -> ent
    /\ pubs' = CASE c.k = "pub_add" ->
                        [pubs EXCEPT ![c.p] = [exists |-> TRUE, objs |-> {}]]
                 [] c.k = "pub_rm" ->
                        [pubs EXCEPT ![c.p] = [exists |-> FALSE, objs |-> {}]]
                 [] c.k = "publish" ->
                        [pubs EXCEPT ![c.p].objs = DeltaApplied(@, c.elems)]
                 [] c.k = "del_files" -> [pubs EXCEPT ![c.p].objs = {}]
                 [] OTHER -> pubs

Apply(c) == ResultOk(c) /\ Effect(c)

----------------------------------------------------------------------------
(* The search for a serial order.                                          *)

Init ==
    /\ b = 1 /\ done = {}
    /\ roas = Roas0 /\ ent = Ent0 /\ pubs = Pubs0

\* Call i may come next: everything that had returned before it was issued
\* is already in the order (real-time precedence).
Lin(i) ==
    /\ i \notin done
    /\ ToSet(Calls[i].pred) \subseteq done
    /\ Apply(Calls[i])
    /\ done' = done \cup {i}
    /\ b' = b

FinalMatches ==
    /\ \A c \in CAs : ToSet(Final.roas[c]) = roas[c]
    /\ \A c \in Children : Final.ent[c] = ent[c]
    /\ \A p \in Pubs :
          /\ Final.pubs[p].exists = pubs[p].exists
          /\ { <<o[1], o[2]>> : o \in ToSet(Final.pubs[p].objs) } = pubs[p].objs
    \* the certificate the parent publishes for B carries B's entitlement
    /\ Final.certB = ent["B"]

\* For the report: the parts of the observed final state that differ from
\* the model state of a complete serial order ("orphans": objects served in
\* the URI space of a publisher the server does not know).
Mismatch ==
    (IF \E c \in CAs : ToSet(Final.roas[c]) # roas[c] THEN {"roas"} ELSE {})
    \cup (IF \E c \in Children : Final.ent[c] # ent[c]
          THEN {"children"} ELSE {})
    \cup (IF \E p \in Pubs : Final.pubs[p].exists # pubs[p].exists
          THEN {"pub-exists"} ELSE {})
    \cup (IF \E p \in Pubs : ~Final.pubs[p].exists /\ Final.pubs[p].objs # <<>>
          THEN {"orphans"}
          ELSE IF \E p \in Pubs :
                  { <<o[1], o[2]>> : o \in ToSet(Final.pubs[p].objs) } # pubs[p].objs
               THEN {"pub-objects"} ELSE {})
    \cup (IF Final.certB # ent["B"] THEN {"certB"} ELSE {})

Diagnose ==
    /\ b <= NScen
    /\ done = 1..Len(Calls)
    /\ ~FinalMatches
    /\ PrintT(<<"FINAL_MISMATCH", Rec[b].id, ToJson(Mismatch)>>)
    /\ FALSE
    /\ UNCHANGED vars

\* For the report: a state of the search from which no call can be ordered
\* next; the calls that real-time order would allow but whose recorded
\* answer the model does not give here.
Ready == { i \in 1..Len(Calls) : i \notin done /\ ToSet(Calls[i].pred) \subseteq done }
DeadEnd ==
    /\ b <= NScen
    /\ done # 1..Len(Calls)
    /\ \A i \in Ready : ~ResultOk(Calls[i])
    /\ PrintT(<<"DEAD_END", Rec[b].id, Cardinality(done),
                ToJson({ Calls[i].k \o "=" \o Calls[i].res : i \in Ready })>>)
    /\ FALSE
    /\ UNCHANGED vars

Finish ==
    /\ b <= NScen
    /\ done = 1..Len(Calls)
    /\ FinalMatches
    /\ b' = b + 1 /\ done' = {}
    /\ roas' = Roas0 /\ ent' = Ent0 /\ pubs' = Pubs0

Next ==
    \/ b <= NScen /\ \E i \in 1..Len(Calls) : Lin(i)
    \/ Finish
    \/ Diagnose
    \/ DeadEnd

Spec == Init /\ [][Next]_vars

\* Every scenario contributes Len(calls) + 1 levels (its record carries the
\* running total in `cum`); the search gets past scenario k iff scenario k
\* is linearisable with a matching final state.
TotalDepth == Rec[NScen].cum + 1

TraceAccepted ==
    LET d == TLCGet("stats").diameter IN
    IF d = TotalDepth THEN TRUE
    ELSE /\ PrintT(<<"TRACE_REJECTED", "depth", d, "of", TotalDepth>>)
         /\ FALSE
=============================================================================
