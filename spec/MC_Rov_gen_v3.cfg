CONSTANTS
  Depth = 3
  Origins = {1, 2}
  MaxRoas = 2
  MaxAnns = 1
  RoaDepth = 3
  AnnDepth = 3
  MlOffsets = {0, 1, 2, 3}
  WithBeyond = TRUE
  RoaAsns = {0, 1, 2}
  SampleMod = 1
  SampleSeed = 0
  AnnsFirst = FALSE
INIT GenInit
NEXT GenNext
INVARIANT Sane
INVARIANT PrintCase
CHECK_DEADLOCK FALSE
