CONSTANTS
  Pubs <- PubsAllTrace
  Uris <- UrisAllTrace
  Contents <- Cont
  Size <- SizeSmall
  MinNr = 0
  MaxNr = 2
  MinAge = "zero"
  MaxAge = "inf"
  MaxNrEquality = FALSE
  MaxSerial = 99
  MaxSession = 99
  DeltaChoices = {}
  TruncateOnCreate = TRUE
  RemoveTmpFirst = TRUE
  RemoveOldFirst = TRUE
  MaxFaults = 99
SPECIFICATION TraceSpec
INVARIANT FilesAgree
INVARIANT XmlHeadersAgree
INVARIANT NotifAgree
INVARIANT RealRefsExist
INVARIANT RsyncAgree
INVARIANT NothingElseOnDisk
INVARIANT StatsAgree11
INVARIANT NoPanic11
INVARIANT RTypeOK
INVARIANT ONotificationParsable
INVARIANT ONotificationRefsExist
INVARIANT OSnapshotIsStateAtSerial
INVARIANT OClientCatchesUp
INVARIANT ODeltasContiguousOnDisk
INVARIANT ODeltasBoundedOnDisk
INVARIANT OInterruptedWriteNeverBlocks
PROPERTY TraceDiskFollowsLogical
PROPERTY TraceWriteOk
PROPERTY TraceSerialPlusOne
PROPERTY TraceSessionOnlyOnReset
PROPERTY TraceRsyncEq
POSTCONDITION TraceAccepted
CHECK_DEADLOCK FALSE
