------------------------------ MODULE PubServerNames ---------------------------
(* Concrete handles, URIs and contents used by the model-checking and      *)
(* trace configurations of PubServer / RepoFiles.                          *)
\* handles: "a", "ab" (string-prefix look-alike), "a/b" (path-prefix, nested
\* jail), "b"
A == <<"a">>
AB == <<"ab">>
A_B == <<"a", "b">>
B == <<"b">>

PubsFlat == {A, AB, B}
PubsNested == {A, AB, A_B}
PubsTwo == {A, A_B}
PubsFlat2 == {A, AB}

\* URIs: a/x (only a), ab/x (only ab; a string-prefix check without the
\* slash would let "a" in), a/b/x (a and a/b), b/x (only b), x (nobody)
UrisFlat == {<<"a", "x">>, <<"ab", "x">>, <<"b", "x">>, <<"x">>}
UrisNested == {<<"a", "x">>, <<"ab", "x">>, <<"a", "b", "x">>, <<"x">>}
UrisTwo == {<<"a", "x">>, <<"a", "b", "x">>}
UrisOneEach == {<<"a", "x">>, <<"a", "y">>, <<"ab", "x">>}

PubsAllTrace == {A, AB, A_B, B}
UrisAllTrace == UrisFlat \cup UrisNested \cup UrisOneEach

Cont == {"c1", "c2"}
SizeSmall == [c \in Cont |-> IF c = "c1" THEN 1 ELSE 3]

=============================================================================
