CONSTANTS
  Pubs <- PubsAllTrace
  Uris <- UrisAllTrace
  Contents <- Cont
  Size <- SizeSmall
  MinNr = 0
  MaxNr = 2
  MinAge = "zero"
  MaxAge = "inf"
  MaxSerial = 99
  MaxSession = 99
  DeltaChoices = {}
SPECIFICATION TraceSpec
INVARIANT TraceInvariant10

PROPERTY TraceStepProps10
POSTCONDITION TraceAccepted
CHECK_DEADLOCK FALSE
