CONSTANTS
  Pubs <- PubsOne
  Uris <- UrisOne
  Contents <- Cont
  Size <- SizeSmall
  MinNr = 0
  MaxNr = 2
  MinAge = "zero"
  MaxAge = "inf"
  MaxSerial = 3
  MaxSession = 2
  DeltaChoices <- Deltas1
  MaxFaults = 1
  Depth = 99
  FaultOdds = 1
SPECIFICATION MCSpec
CONSTRAINT RBound
VIEW RView
INVARIANT RTypeOK
INVARIANT NotificationRefsExist
INVARIANT SnapshotIsStateAtSerial
INVARIANT ClientCatchesUp
INVARIANT DeltasContiguousOnDisk
INVARIANT DeltasContiguousToCurrent
PROPERTY DiskFollowsLogical
PROPERTY WriteOk
PROPERTY SerialPlusOne
PROPERTY SessionOnlyOnReset
CHECK_DEADLOCK FALSE
