\* exhaustive: every pair of two-operation programs on one aggregate
CONSTANTS
  Threads = {1, 2}
  Entities = {"e1"}
  WalEntities = {}
  NewEntities = {}
  MaxOps = 2
  Ops = {"ok", "noop", "reject", "presave_fail", "read", "snap"}
  LockMode = "write"
INIT GenInit
NEXT GenNext
INVARIANT PrintBehaviour
CHECK_DEADLOCK FALSE
