--------------------------- MODULE PipelineTrace ---------------------------
(* Trace specification for C08: replays every cut that harness-fault        *)
(* executed on the real code against Pipeline.tla.                          *)
(*                                                                           *)
(* A case is four lines:                                                     *)
(*   reset   the operation under test: its class, the mutation sequence the *)
(*           fault-free twin recorded (class, entity and key-level effect   *)
(*           of every mutation), the durable key set before the operation   *)
(*   Fault   cut k as crash or failing write: the mutations that took       *)
(*           effect, whether the process went down (then it was restarted), *)
(*           the durable key set and the observed facts afterwards          *)
(*   Pump    background tasks have run                                      *)
(*   Final   request re-submitted, rest of the history, tasks run; the      *)
(*           comparison with the twin                                        *)
(* A line is accepted only if it is a step of the model: the mutations in   *)
(* front of the cut are the twin's, the durable key set is exactly the fold *)
(* of the mutations that took effect (plus the start-up re-queueing if the  *)
(* process went down), a crash takes the process down and a failing write   *)
(* only where the model says the scheduler exits, the request is            *)
(* acknowledged exactly where the model says so, and the object sets that   *)
(* disagree with the audit log are exactly those the model derives from the *)
(* sequence.  The clauses of C08 are evaluated by TLC on the observed       *)
(* facts; their verdicts and the model's predictions are printed per case   *)
(* (CASE lines) - the property is decided here, not in the harness.         *)
EXTENDS PipelineDefs, Json, IOUtils

Rec == ndJsonDeserialize(IOEnv.TRACE)

VARIABLES
    l,        \* next line
    cur,      \* the operation under test (record) or Idle
    K0,       \* durable keys before the operation
    cut,      \* [k, mode, X (executed), down, acked]
    verdict,  \* clauses violated on the observed facts so far
    predicted,\* clauses the model expects to be violated
    maybe     \* clauses the model cannot exclude (outcome depends on what
              \* the rest of the history does)

tvars == <<l, cur, K0, cut, verdict, predicted, maybe>>

Line == Rec[l]
IsEvent(e) == l <= Len(Rec) /\ Line.ev = e /\ l' = l + 1

Tracked == {"tasks", "cas", "pubd_objects", "rrdp", "rsync"}

Key(a) == <<a[1], a[2], a[3]>>
KeySet(arr) == {Key(arr[i]) : i \in 1..Len(arr)}
StrSet(arr) == {arr[i] : i \in 1..Len(arr)}

\* key-level effect of one mutation
Apply(K, m) ==
    IF m.k[1] \notin Tracked THEN K
    ELSE CASE m.op = "put" -> K \cup {Key(m.k)}
           [] m.op = "del" -> K \ {Key(m.k)}
           [] m.op = "mv" -> IF Key(m.k) \in K
                             THEN (K \ {Key(m.k)}) \cup {Key(m.k2)}
                             ELSE K
           [] m.op = "rmscope" ->
                {x \in K : ~(x[1] = m.k[1] /\ x[2] = m.k[2])}
           [] OTHER -> K

RECURSIVE Fold(_, _)
Fold(K, Xs) == IF Xs = <<>> THEN K ELSE Fold(Apply(K, Head(Xs)), Tail(Xs))

\* start-up: running -> pending, the start task is scheduled
RestartKeys(K) ==
    LET run == {x \in K : x[1] = "tasks" /\ x[2] = "running"} IN
    (K \ run) \cup {<<"tasks", "pending", x[3]>> : x \in run}
              \cup {<<"tasks", "pending", "queue_start_tasks">>}

Same(m1, m2) ==
    /\ m1.t = m2.t /\ m1.e = m2.e /\ m1.op = m2.op
    /\ Key(m1.k) = Key(m2.k) /\ Key(m1.k2) = Key(m2.k2)

Idle == [kind |-> "none"]

TraceInit ==
    /\ l = 1 /\ cur = Idle /\ K0 = {} /\ cut = Idle
    /\ verdict = {} /\ predicted = {} /\ maybe = {}

\* ------------------------------------------------------------------ reset
Reset ==
    /\ IsEvent("reset")
    /\ cur' = [kind |-> Line.kind, cls |-> Line.cls, task |-> Line.task,
               seq |-> Line.seq, eff |-> StrSet(Line.eff),
               later |-> Line.later, laterR |-> Line.later_restart,
               id |-> Line.case]
    /\ K0' = KeySet(Line.pre.dk)
    /\ cut' = Idle
    \* the state before the operation satisfies the clauses (else the case
    \* says nothing about the cut)
    /\ verdict' = IF /\ Line.pre.load = <<>> /\ Line.pre.logok
                     /\ Line.pre.memok /\ Line.pre.objsbad = <<>>
                     /\ Line.pre.srvclean /\ Line.pre.rrdpclean
                     /\ Line.pre.rsyncclean
                  THEN {} ELSE {"PreStateBad"}
    /\ predicted' = {} /\ maybe' = {}

\* ------------------------------------------------------------------ Fault
ObsAllLoad(o) == o.load = <<>> /\ o.logok /\ o.memok
ObsRPClean(o) == o.srvclean /\ o.rrdpclean /\ o.rsyncclean

\* number of audit log entries of aggregate c among the keys
LogCount(K, c) ==
    Cardinality({x \in K : x[1] = "cas" /\ x[2] = c /\ x[3] # "snapshot"})

FaultStep ==
    /\ IsEvent("Fault") /\ cur # Idle /\ cut = Idle
    /\ LET k == Line.k
           mode == Line.mode
           Xs == Line.executed
           seq == cur.seq
           down == Line.restarted
           Kcut == Fold(K0, Xs)
           Know == IF down THEN RestartKeys(Kcut) ELSE Kcut
           op == [task |-> cur.task, seq |-> seq, cls |-> cur.cls,
                  eff |-> cur.eff]
           \* does another publication request reach the server?
           later == IF down THEN cur.laterR ELSE cur.later
           lostTask ==
               \E x \in K0 :
                   /\ x[1] = "tasks" /\ x[2] = "pending"
                   /\ x[3] # "update_rrdp_if_needed"
                   /\ x \notin Know
                   /\ <<"tasks", "running", x[3]>> \notin Know
                   /\ ~\E i \in 1..Len(Xs) :
                         Xs[i].t = "FIN" /\ Xs[i].e = x[3]
       IN
       \* --- conformance: this is a cut of the recorded sequence
       /\ k \in 1..Len(seq)
       /\ Len(Xs) >= k - 1
       /\ \A i \in 1..(k - 1) : Same(Xs[i], seq[i])
       /\ mode = "crash" => Len(Xs) = k - 1
       \* a crash takes the process down; a failing write only where the
       \* scheduler exits
       /\ down = GoesDown(op, k, mode)
       \* the request is acknowledged exactly where the model says
       /\ (~cur.task /\ LastIdx(seq, "CMD") # 0) =>
              (Line.acked = Acked(op, k, mode))
       /\ mode = "crash" => ~Line.acked
       \* the durable state is the fold of what took effect
       /\ KeySet(Line.obs.dk) = Know
       \* the object sets that disagree with the audit log are those whose
       \* pre-save write took effect without the command entry
       \* (exactly those when the operation stopped at the cut; when the
       \* code carried on after a failing write - e.g. the child drops the
       \* resource class after a failure while processing the certificate,
       \* manager.rs - later writes may have repaired the set)
       /\ IF Len(Xs) = k - 1
          THEN StrSet(Line.obs.objsbad) = Ahead(op, Xs)
          ELSE StrSet(Line.obs.objsbad) \subseteq
                   {c \in cur.eff : Count(Xs, "OBJS", c) > 0}
       \* --- the clauses, on the observed facts
       /\ cut' = [k |-> k, mode |-> mode, X |-> Xs, down |-> down,
                  acked |-> Line.acked]
       /\ verdict' = verdict
            \cup (IF ObsAllLoad(Line.obs) /\ Line.restart_ok
                  THEN {} ELSE {"AllLoad"})
            \cup (IF Line.acked =>
                       \A c \in {seq[i].e : i \in Idx(seq, "CMD")} :
                          LogCount(KeySet(Line.obs.dk), c)
                            >= LogCount(K0, c) + Count(seq, "CMD", c)
                  THEN {} ELSE {"AckedNeverLost"})
            \cup (IF Line.obs.objsbad = <<>> THEN {}
                  ELSE {"UnackedAllOrNothing"})
            \cup (IF ObsRPClean(Line.obs) THEN {}
                  ELSE {"RPCleanAfterRestart"})
       \* --- what the model expects (Pipeline.tla, same definitions as the
       \* exhaustive enumeration)
       /\ predicted' =
            (IF (Len(Xs) = k - 1 /\ Ahead(op, Xs) # {})
                \/ (Len(Xs) > k - 1 /\ Line.obs.objsbad # <<>>)
             THEN {"UnackedAllOrNothing"} ELSE {})
            \cup (IF NoCurrent(Xs) \/ NotifAhead(Xs)
                  THEN {"RPCleanAfterRestart"} ELSE {})
            \cup (IF NoCurrent(Xs) /\ ~later
                  THEN {"RPCleanFinal"} ELSE {})
            \cup (IF \/ (RrdpStale(op, Xs) \/ RsyncStale(op, Xs)
                           \/ NoCurrent(Xs)) /\ ~later
                     \/ /\ cur.cls = "sync_repo" /\ WalDone(Xs) /\ ~later
                        /\ <<"tasks", "pending", "update_rrdp_if_needed">>
                              \notin Know
                        /\ <<"tasks", "running", "update_rrdp_if_needed">>
                              \notin Know
                  THEN {"TwinEquivalence"} ELSE {})
       /\ maybe' =
            \* A stale old/ directory makes the next rename(current, old)
            \* fail (ENOTEMPTY) - if there is a next one.
            (IF OldLeft(Xs) /\ later THEN {"TwinEquivalence"} ELSE {})
            \cup
            \* A queue entry deleted for replacement and not stored again
            \* while the process lives on and the caller is not told: the
            \* recurring synchronisation stops until the next restart.
            (IF ~down /\ lostTask /\ (cur.task \/ Line.acked)
             THEN {"TwinEquivalence"} ELSE {})
            \cup
            \* A new-notification.xml left behind is overwritten by the next
            \* update without truncation (file.rs create_file): if the next
            \* notification is shorter, the renamed file ends in garbage.
            (IF Has(Xs, "NEWNOTIF") /\ ~Has(Xs, "RENAME") /\ later
             THEN {"TwinEquivalence", "RPCleanFinal"} ELSE {})
            \cup
            \* Re-submission applies the events of the command a second time
            \* to an object set that already contains their effect; whether
            \* that converges depends on the events (it does for a ROA, it
            \* does not for a key activation).
            (IF Ahead(op, Xs) # {} \/ Line.obs.objsbad # <<>>
             THEN {"TwinEquivalence"} ELSE {})
            \cup
            \* Deleting a CA withdraws its objects "best effort": a failure
            \* is logged and the CA is removed all the same.
            (IF \E i \in 1..Len(seq) : seq[i].t \in {"RMSCOPE", "OBJSDEL"}
             THEN {"TwinEquivalence"} ELSE {})
            \cup
            \* A follow-up task queued by the pre-save listener carries the
            \* version the failed command would have produced: it finds the
            \* CA "premature" and re-schedules itself until another command
            \* catches up - whether one does is the rest of the history's
            \* business.
            IF /\ ~down
               /\ \E c \in {Xs[i].e : i \in Idx(Xs, "OBJS")} :
                     /\ Count(Xs, "OBJS", c) > Count(Xs, "CMD", c)
                     /\ \E i \in Idx(Xs, "QADD") :
                           i > Min(IdxE(Xs, "OBJS", c))
            THEN {"TwinEquivalence"} ELSE {}
    /\ UNCHANGED <<cur, K0>>

\* ------------------------------------------------------------------- Pump
PumpStep ==
    /\ IsEvent("Pump") /\ cut # Idle
    /\ verdict' = verdict
         \cup (IF ObsAllLoad(Line.obs) /\ Line.ok THEN {} ELSE {"AllLoad"})
         \cup (IF ObsRPClean(Line.obs) \/ "RPCleanAfterRestart" \in verdict
               THEN {} ELSE {"RPCleanAfterPump"})
    /\ UNCHANGED <<cur, K0, cut, predicted, maybe>>

\* ------------------------------------------------------------------ Final
\* API views and repository content equal the twin's; the served files are
\* the repository content; everything loads and validates
FinalStep ==
    /\ IsEvent("Final") /\ cut # Idle
    /\ LET o == Line.obs
           v == verdict
                \* API views and repository content
                \* (also as seen by a fresh runtime on the same directory)
                \cup (IF /\ Line.equal /\ Line.equalrestart /\ Line.settledok
                         /\ o.rrdpeq /\ o.rsynceq
                         /\ o.objsbad = <<>> /\ ObsAllLoad(o)
                      THEN {} ELSE {"TwinEquivalence"})
                \* what is served in the end parses and validates
                \cup (IF ObsRPClean(o) THEN {} ELSE {"RPCleanFinal"})
       IN /\ verdict' = v
          /\ PrintT(<<"CASE", ToJson(cur.id), ToJson(v), ToJson(predicted),
                      ToJson(maybe)>>)
    /\ UNCHANGED <<cur, K0, cut, predicted, maybe>>

TraceNext == Reset \/ FaultStep \/ PumpStep \/ FinalStep

TraceSpec == TraceInit /\ [][TraceNext]_tvars

TraceAccepted ==
    LET d == TLCGet("stats").diameter IN
    IF d - 1 = Len(Rec) THEN TRUE
    ELSE /\ PrintT(<<"TRACE_REJECTED", "matched", d - 1, "of", Len(Rec)>>)
         /\ FALSE
=============================================================================
