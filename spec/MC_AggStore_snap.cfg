\* snapshots by fresh and live store instances racing with commands, one
\* aggregate and one WAL entity (C06 protocol part)
CONSTANTS
  t1 = t1
  t2 = t2
  t3 = t3
  e1 = e1
  e2 = e2
  w1 = w1
  n1 = n1
  Threads = {t1, t2}
  Entities = {e1, w1}
  WalEntities = {w1}
  NewEntities = {}
  MaxOps = 2
  Ops = {"ok", "reject", "snap", "lsnap", "fread"}
  LockMode = "write"
SPECIFICATION Spec
INVARIANT Safety
PROPERTY AppendOnly
SYMMETRY SymTE
CHECK_DEADLOCK TRUE
