----------------------- MODULE ConfigValidationTrace -----------------------
(* Judges what the real CA did with each configuration request (harness    *)
(* `kv-vec cfgval`) against ConfigValidation.  Every line of the trace is   *)
(* one case: kind, state, request and the observation (result, complete     *)
(* configuration before and after, growth of the command history, whether   *)
(* the CA's object set is unchanged).  TLC evaluates Outcome on the case    *)
(* and compares; a line is accepted iff Failures(line) = {}.  Rejected      *)
(* lines are printed as MISMATCH so that one run judges all lines.          *)
EXTENDS ConfigValidation, Json, IOUtils, TLC

Rec == ndJsonDeserialize(IOEnv.TRACE)

VARIABLES l, bad, seen

ToSet(s) == { s[i] : i \in 1..Len(s) }

(* JSON arrays -> the sets of the specification *)
Conv(kind, arr) ==
    CASE kind \in {"aspa", "aspap"} ->
            { [cust |-> x.cust, provs |-> ToSet(x.provs)] : x \in ToSet(arr) }
      [] kind = "roa" -> { [pl |-> x.pl, c |-> x.c] : x \in ToSet(arr) }
      [] kind = "rtr" -> { [asn |-> x.asn, key |-> x.key] : x \in ToSet(arr) }
      [] OTHER -> { [h |-> x.h, res |-> x.res] : x \in ToSet(arr) }

CaseOf(ln) == [kind |-> ln.kind, state |-> Conv(ln.kind, ln.state),
               req |-> ln.req]

Fields == {"roas", "aspas", "rtr", "children"}

(* The payloads of the published objects (decoded by the harness from the  *)
(* CA's object set) and the payloads the configuration calls for.          *)
Published(kind, pub) ==
    CASE kind = "roa" -> ToSet(pub.roas)
      [] kind \in {"aspa", "aspap"} -> Conv("aspa", pub.aspas)
      [] OTHER -> ToSet(pub.rtr)
(* Only entries backed by held resources can have an object. *)
PayloadsOf(kind, cfg) ==
    CASE kind = "roa" -> { x.pl : x \in { y \in cfg : PfxHeld(y.pl) } }
      [] kind \in {"aspa", "aspap"} -> { x \in cfg : x.cust \in HeldAsns }
      [] OTHER -> { x \in cfg : x.asn \in HeldAsns }

Failures(ln) ==
    LET c   == CaseOf(ln)
        out == Outcome(c)
        exp == IF out.errs = {} THEN "ok" ELSE "err"
        o   == ln.obs
        before == Conv(ln.kind, o.before[o.field])
        after  == Conv(ln.kind, o.after[o.field])
    IN
    IF before # c.state THEN { <<"harness-state-not-reached", ln.kind>> }
    ELSE IF o.res = "panic" THEN { <<"panic", ln.kind>> }
    ELSE
      \* accept / refuse exactly as the property says
      (IF o.res # exp THEN { <<"decision", ln.kind, exp, o.res, out.errs>> }
       ELSE {})
      \cup
      \* a refused request leaves configuration and repository untouched
      (IF o.res = "err"
       THEN (IF o.after # o.before
               THEN { <<"refused-config-changed", ln.kind>> } ELSE {})
            \cup (IF ~ o.objs_same
               THEN { <<"refused-objects-changed", ln.kind>> } ELSE {})
            \cup (IF o.hist > 1
               THEN { <<"refused-history-grew", ln.kind>> } ELSE {})
       ELSE {})
      \cup
      \* an accepted request is applied entirely, and only it
      (IF o.res = "ok" /\ exp = "ok"
       THEN (IF after # out.cfg
               THEN { <<"accepted-config-differs", ln.kind>> } ELSE {})
            \cup (IF \E f \in Fields \ {o.field} : o.after[f] # o.before[f]
               THEN { <<"accepted-other-config-changed", ln.kind>> } ELSE {})
            \* ... down to the objects the CA publishes: exactly one ROA /
            \* ASPA / router certificate payload per configured entry that
            \* is backed by held resources
            \cup (IF /\ ln.kind \in {"roa", "aspa", "aspap", "rtr"}
                     /\ Published(ln.kind, o.pub) # PayloadsOf(ln.kind, out.cfg)
               THEN { <<"accepted-objects-differ", ln.kind>> } ELSE {})
            \cup (IF ln.kind \in {"aspa", "aspap"} /\
                     \E x \in ToSet(o.after.aspas) :
                        x.n # Cardinality(ToSet(x.provs))
               THEN { <<"aspa-duplicate-providers-stored", ln.kind>> } ELSE {})
       ELSE {})

(* What the line exercises, by the specification's own verdict. *)
Exercised(ln) ==
    LET c == CaseOf(ln)
        out == Outcome(c) IN
    (IF out.errs = {} THEN { <<ln.kind, "ok">> }
     ELSE { <<ln.kind, e>> : e \in out.errs })
    \cup (IF ~ CfgOK(c.kind, c.state)
          THEN { <<ln.kind, IF out.errs = {} THEN "ok-with-lost-resources"
                           ELSE "refused-with-lost-resources">> }
          ELSE {})

TraceInit == l = 1 /\ bad = 0 /\ seen = {}

TraceNext ==
    /\ l <= Len(Rec)
    /\ LET f == Failures(Rec[l]) IN
       /\ f # {} => PrintT(<<"MISMATCH", l, ToJson(f)>>)
       /\ bad' = bad + (IF f = {} THEN 0 ELSE 1)
       /\ seen' = seen \cup Exercised(Rec[l])
       /\ l = Len(Rec) => PrintT(<<"SUMMARY", Len(Rec), bad', ToJson(seen')>>)
    /\ l' = l + 1

TraceSpec == TraceInit /\ [][TraceNext]_<<l, bad, seen>>

AllLinesJudged ==
    LET d == TLCGet("stats").diameter IN
    IF d - 1 = Len(Rec) THEN TRUE
    ELSE PrintT(<<"TRACE_INCOMPLETE", d - 1, Len(Rec)>>) /\ FALSE
=============================================================================
