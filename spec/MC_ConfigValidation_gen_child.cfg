CONSTANTS
  Kinds = {"chadd", "chupd"}
  MaxEntries = 1
  SampleMod = 1
  SampleSeed = 0
INIT GenInit
NEXT GenNext
INVARIANT Sane
INVARIANT PrintCase
CHECK_DEADLOCK FALSE
