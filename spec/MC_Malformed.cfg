CONSTANTS
  MaxVersion = 2
SPECIFICATION Spec
INVARIANTS TypeOK AlwaysAlive AlwaysAnswers
PROPERTY ErrorLeavesState
CHECK_DEADLOCK FALSE
