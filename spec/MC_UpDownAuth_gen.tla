------------------------- MODULE MC_UpDownAuth_gen -------------------------
(* Behaviour and vector generator for C12.                                 *)
(*                                                                         *)
(* Backbone: sequences of state changing steps (honest requests of a few   *)
(* representative kinds and identity updates on either side), enumerated   *)
(* breadth first; one shortest backbone is printed for every distinct      *)
(* state reached within Depth steps (VIEW hides the history).              *)
(* Vectors: for the state at the end of each backbone TLC evaluates        *)
(* Valid(m) for every message m of the universe (all combinations of       *)
(* signing key, claimed sender, recipient, end point, kind, payload and    *)
(* tamper class) and prints the verdicts; the harness sends all of them    *)
(* to the real code in that state.                                         *)
EXTENDS UpDownAuth, Json, SequencesExt

CONSTANT Depth

VARIABLE hist

Universe == SetToSeq(Msgs)

ASSUME PrintT(<<"UNIVERSE", ToJson(Universe)>>)

M(key, snd, tgt, kind, ckey, lim, uri, val) ==
    [p |-> IF tgt = "R" THEN "pub" ELSE "ud", key |-> key, snd |-> snd,
     rcp |-> tgt, tgt |-> tgt, kind |-> kind, ckey |-> ckey, lim |-> lim,
     uri |-> uri, val |-> val, tam |-> "none"]

\* honest state changing requests, signed with the sender's current key
Honest ==
    {M(reg["P"]["c1"], "c1", "P", "issue", "a1", None, "-", "-"),
     M(reg["P"]["c1"], "c1", "P", "issue", "a2", {"r1"}, "-", "-"),
     M(reg["P"]["c1"], "c1", "P", "revoke", "a1", None, "-", "-"),
     M(reg["P"]["c2"], "c2", "P", "issue", "b1", None, "-", "-"),
     M(reg["O"]["c1"], "c1", "O", "issue", "a1", None, "-", "-"),
     M(reg["R"]["p1"], "p1", "R", "publish", "-", None, "p1/x", "d1"),
     M(reg["R"]["p2"], "p2", "R", "publish", "-", None, "p2/x", "d1"),
     M(reg["R"]["p1"], "p1", "R", "withdraw", "-", None, "p1/x", "-")}

GenInit == Init /\ hist = <<>>

GenNext ==
    \/ \E m \in Honest :
         /\ Valid(m) /\ PayloadOk(m) /\ Request(m)
         /\ <<reg, srv, iss, pub, susp>>' # <<reg, srv, iss, pub, susp>>
         /\ hist' = Append(hist, [a |-> "Req"] @@ m)
    \/ \E s \in CaServers : \E c \in DOMAIN reg[s] :
         /\ ChildId(s, c)
         /\ hist' = Append(hist, [a |-> "ChildId", srv |-> s, c |-> c,
                                  key |-> NextKey[s][c]])
    \/ \E s \in CaServers :
         /\ ServerId(s)
         /\ hist' = Append(hist, [a |-> "ServerId", srv |-> s])
    \/ \E q \in DOMAIN reg["R"] :
         /\ PubReReg(q)
         /\ hist' = Append(hist, [a |-> "PubReReg", c |-> q,
                                  key |-> NextKey["R"][q]])
    \/ \E x \in Suspendable :
         /\ Suspend(x[1], x[2])
         /\ hist' = Append(hist, [a |-> "Suspend", srv |-> x[1],
                                  c |-> x[2]])

View == <<reg, srv, iss, pub, susp, held>>
GenSuspendable == {<<"P", "c1">>}

DepthBound == Len(hist) < Depth

Flags == [i \in 1..Len(Universe) |-> IF Valid(Universe[i]) THEN 1 ELSE 0]

PrintBehaviour ==
    PrintT(<<"REPLAY", ToJson([actions |-> hist, valid |-> Flags,
                               state |-> ToString(View), reg |-> reg])>>)
=============================================================================
