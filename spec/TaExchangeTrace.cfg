CONSTANTS
  Children = {"ca1", "ca2", "rc"}
  ReqNames = {"i:ka", "i:kb", "i:kc", "i:kd", "i:ke", "i:kf", "r:ka", "r:kb", "r:kc", "r:kd", "r:ke", "r:kf"}
  MaxNonce = 99
  MaxMsgs = 999
  MaxReassoc = 2
  Mutant = "none"
SPECIFICATION TraceSpec
INVARIANT TraceInvariant
PROPERTY RefusedUnchanged
PROPERTY OneResponsePerRequest
PROPERTY DeliveredExactlyOnce
PROPERTY TaNumbersIncrease
POSTCONDITION TraceAccepted
CHECK_DEADLOCK FALSE
