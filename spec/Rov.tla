-------------------------------- MODULE Rov --------------------------------
(* Route origin validation (RFC 6811) over an abstract binary prefix tree,  *)
(* and what a ROA analysis report has to say about a set of configured ROAs *)
(* and a set of observed BGP announcements (property C17).                  *)
(*                                                                          *)
(* A prefix is a bit string of length <= Depth below a root; the harness    *)
(* embeds the tree at several concrete places (IPv4 below 10.0.0.0/8 and    *)
(* below 0.0.0.0/0 with leaves down to /32, IPv6 with leaves down to /128). *)
(* A ROA is <prefix, maximum length, origin AS>; maximum length Beyond      *)
(* stands for a maximum length longer than every announced prefix (the      *)
(* family maximum).  AS 0 never originates a route (RFC 6483 section 4,     *)
(* RFC 7607): announcements have an origin in Origins, which excludes 0.    *)
(*                                                                          *)
(* The module is a function-style specification: TLC enumerates the cases   *)
(* (MC_Rov_gen) and evaluates the definitions below for every case, both    *)
(* to check the sanity theorems at the end of this module and - in          *)
(* RovTrace - to judge what the real analyser reported for the case.        *)
EXTENDS Naturals, Sequences, FiniteSets

CONSTANTS Depth,      \* depth of the abstract prefix tree
          Origins     \* origin AS numbers of announcements (non-zero)

AS0 == 0
Beyond == Depth + 1
Bit == {0, 1}

Prefix == UNION { [1..n -> Bit] : n \in 0..Depth }

(* RFC 6811, section 2: "Covered: A Route Prefix is said to be Covered by a *)
(* VRP when the VRP prefix length is less than or equal to the Route prefix *)
(* length, and the VRP prefix address and the Route prefix address are      *)
(* identical for all bits specified by the VRP prefix length."              *)
Covers(p, q) == Len(p) <= Len(q) /\ \A i \in 1..Len(p) : p[i] = q[i]

CoversAnn(r, a) == Covers(r.p, a.p)

(* "Matched: A Route Prefix is said to be Matched by a VRP when the Route   *)
(* Prefix is Covered by that VRP, the Route prefix length is less than or   *)
(* equal to the VRP maximum length, and the Route Origin ASN is equal to    *)
(* the VRP ASN."                                                            *)
Matches(r, a) == CoversAnn(r, a) /\ Len(a.p) <= r.ml /\ a.o = r.asn

RoaOK(r) == /\ r.p \in Prefix
            /\ r.ml \in Len(r.p)..Beyond
            /\ r.asn \in Origins \cup {AS0}
AnnOK(a) == a.p \in Prefix /\ a.o \in Origins

(* A prefix lies within a resource set (given as a set of prefixes).        *)
Within(p, S) == \E h \in S : Covers(h, p)

(* The validated ROA payloads a CA can have: a configured ROA whose prefix  *)
(* is not on the CA's certificate cannot be issued (krill reports it as     *)
(* "not held"), so it takes no part in validation.                          *)
Vrps(roas, held) == { r \in roas : Within(r.p, held) }

(* The three validation states of RFC 6811, each stated on its own:         *)
(*  "NotFound: No VRP Covers the Route Prefix."                             *)
(*  "Valid: At least one VRP Matches the Route Prefix."                     *)
(*  "Invalid: At least one VRP Covers the Route Prefix, but no VRP Matches  *)
(*   it."                                                                   *)
IsNotFound(a, vrps) == ~ \E r \in vrps : CoversAnn(r, a)
IsValid(a, vrps)    == \E r \in vrps : Matches(r, a)
IsInvalid(a, vrps)  == /\ \E r \in vrps : CoversAnn(r, a)
                       /\ ~ \E r \in vrps : Matches(r, a)

Rfc(a, vrps) == IF IsValid(a, vrps) THEN "valid"
                ELSE IF IsInvalid(a, vrps) THEN "invalid"
                ELSE "not_found"

(* Why an announcement is invalid (the property names the three reasons;    *)
(* RFC 6811 has only "invalid"): the length is wrong when a covering VRP    *)
(* has the announcement's origin (and therefore a too short maximum         *)
(* length); otherwise the origin is wrong when some covering VRP is for a   *)
(* real AS; otherwise only AS 0 VRPs cover it: disallowed.                  *)
Reason(a, vrps) ==
    IF \E r \in vrps : CoversAnn(r, a) /\ r.asn = a.o THEN "invalid_length"
    ELSE IF \E r \in vrps : CoversAnn(r, a) /\ r.asn # AS0 THEN "invalid_asn"
    ELSE "disallowed"

Detailed(a, vrps) == IF Rfc(a, vrps) = "invalid" THEN Reason(a, vrps)
                     ELSE Rfc(a, vrps)

(* What validation attributes to one ROA: the announcements it makes valid  *)
(* and the invalid announcements it covers.                                 *)
Authorizes(r, anns, vrps) ==
    IF r \in vrps THEN { a \in anns : Matches(r, a) } ELSE {}
Disallows(r, anns, vrps) ==
    IF r \in vrps
    THEN { a \in anns : CoversAnn(r, a) /\ Rfc(a, vrps) = "invalid" }
    ELSE {}

(* A ROA is stale - "can be removed" - when it neither authorises nor       *)
(* disallows any observed announcement.                                     *)
Stale(roas, anns, vrps) ==
    { r \in vrps : Authorizes(r, anns, vrps) = {}
                   /\ Disallows(r, anns, vrps) = {} }

----------------------------------------------------------------------------
(* Held-resource and scope restrictions of an analysis.  `held` is the set  *)
(* of prefixes on the CA's certificates; if `lim`, the report is limited to *)
(* the ROAs and announcements within `scope`.                               *)
Restrictions == [
  r1 |-> [held |-> {<<>>},             lim |-> FALSE, scope |-> {}],
  r2 |-> [held |-> {<<0>>},            lim |-> FALSE, scope |-> {}],
  r3 |-> [held |-> {<<0,1>>, <<1,0>>}, lim |-> FALSE, scope |-> {}],
  r4 |-> [held |-> {<<>>},             lim |-> TRUE,  scope |-> {<<0>>}],
  r5 |-> [held |-> {<<0>>},            lim |-> TRUE,  scope |-> {<<0,0>>}],
  r6 |-> [held |-> {<<>>},             lim |-> TRUE,
                                       scope |-> {<<0,0>>, <<1,1>>}],
  r7 |-> [held |-> {<<0>>},            lim |-> TRUE,  scope |-> {<<1>>}] ]

RestrictionIds == DOMAIN Restrictions

(* The announcements the report has to judge: those within the CA's         *)
(* resources and, if limited, within the scope.                             *)
Judged(anns, x) ==
    { a \in anns : Within(a.p, x.held) /\ (x.lim => Within(a.p, x.scope)) }

(* The ROAs the report has an entry for.                                    *)
Reported(roas, x) == { r \in roas : x.lim => Within(r.p, x.scope) }

----------------------------------------------------------------------------
(* Sanity theorems of this specification; TLC checks them for every         *)
(* enumerated case (MC_Rov_gen).                                            *)

\* the three states are total and mutually exclusive
TotalExclusive(roas, anns) ==
    \A x \in RestrictionIds : \A a \in anns :
        LET v == Vrps(roas, Restrictions[x].held) IN
        Cardinality({ s \in {"v", "i", "n"} :
            \/ s = "v" /\ IsValid(a, v)
            \/ s = "i" /\ IsInvalid(a, v)
            \/ s = "n" /\ IsNotFound(a, v) }) = 1

\* per-ROA sets and per-announcement states say the same thing
SetsAgreeWithStates(roas, anns) ==
    \A x \in RestrictionIds :
        LET v == Vrps(roas, Restrictions[x].held) IN
        \A a \in anns :
          /\ Rfc(a, v) = "valid" <=> \E r \in v : a \in Authorizes(r, anns, v)
          /\ Rfc(a, v) = "invalid" <=>
                /\ \E r \in v : a \in Disallows(r, anns, v)
                /\ \A r \in v : CoversAnn(r, a) => a \in Disallows(r, anns, v)
          /\ Rfc(a, v) = "not_found" <=>
                \A r \in v : a \notin Authorizes(r, anns, v)
                             /\ ~ CoversAnn(r, a)
          /\ \A r \in roas : Authorizes(r, anns, v) \cap Disallows(r, anns, v) = {}

\* a ROA that validates an announcement is never in the "can be removed"
\* set, and removing that set changes the state of no announcement
NoSuggestRemoveValidating(roas, anns) ==
    \A x \in RestrictionIds :
        LET v == Vrps(roas, Restrictions[x].held)
            st == Stale(roas, anns, v) IN
        /\ \A r \in st : \A a \in anns : ~ Matches(r, a)
        /\ \A a \in anns : Detailed(a, v \ st) = Detailed(a, v)

\* AS 0 never validates; an announcement covered by AS 0 ROAs only is
\* disallowed
As0NeverValidates(roas, anns) ==
    \A a \in anns :
        LET v == Vrps(roas, {<<>>}) IN
        /\ \A r \in v : r.asn = AS0 => ~ Matches(r, a)
        /\ ((\E r \in v : CoversAnn(r, a))
                /\ (\A r \in v : CoversAnn(r, a) => r.asn = AS0))
            => Detailed(a, v) = "disallowed"

SanityTheorems(roas, anns) ==
    /\ \A r \in roas : RoaOK(r)
    /\ \A a \in anns : AnnOK(a)
    /\ TotalExclusive(roas, anns)
    /\ SetsAgreeWithStates(roas, anns)
    /\ NoSuggestRemoveValidating(roas, anns)
    /\ As0NeverValidates(roas, anns)
=============================================================================
