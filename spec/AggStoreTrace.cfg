CONSTANTS
  Threads = {1, 2, 3, 4}
  Entities = {"e1", "e2", "e3", "e4", "e5", "e6", "w1", "w2"}
  WalEntities = {"w1", "w2"}
  NewEntities = {}
  MaxOps = 1000000
  Ops = {"ok", "noop", "reject", "presave_fail", "cond", "read", "fread", "snap", "lsnap", "add", "hist", "list"}
  LockMode = "write"
SPECIFICATION TraceSpec
INVARIANT TraceInvariant
PROPERTY TraceStepProps
POSTCONDITION TraceAccepted
CHECK_DEADLOCK FALSE
