CONSTANTS
  Top = "A"
  CaOf <- IdCa
  ShadowRebuilt = TRUE
  Sub = {"B", "C", "D"}
  Res = {"p1", "p2", "a1"}
  TopRes = {"p1", "p2", "a1"}
  Roa <- GenRoa
  AspaDefs <- NoAspa
  ParentOf <- GenChain
  Ops = {"res", "roa", "refresh", "suspend", "autosuspend", "roll", "remove"}
  Depth = 40
  MaxApiStreak = 2
  MaxDestr = 1
  MftDue = FALSE
  ObjDue = FALSE
INIT GenInit
NEXT GenNext
INVARIANT PrintBehaviour
CHECK_DEADLOCK FALSE
