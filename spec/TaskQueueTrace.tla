--------------------------- MODULE TaskQueueTrace ---------------------------
(* Trace specification: checks that a trace recorded from the real task     *)
(* queue (harness run-queue) is a behaviour of TaskQueue.  Every line       *)
(* carries the action, its arguments and the complete projected state; a    *)
(* line is accepted only if the named action of TaskQueue is enabled and    *)
(* leads to exactly the projected state.                                    *)
EXTENDS TaskQueue, Sequences, Json, IOUtils

Rec == ndJsonDeserialize(IOEnv.TRACE)

VARIABLE l      \* next line of the trace

Line == Rec[l]

ToPending(arr) == { <<arr[i][1], arr[i][2], arr[i][3]>> : i \in 1..Len(arr) }

Projected(r) ==
    /\ pending' = ToPending(r.pending)
    /\ running' = [n \in Names |-> r.running[n]]
    /\ cur' = r.cur
    /\ up' = r.up

IsEvent(e) == l <= Len(Rec) /\ Line.ev = e /\ l' = l + 1

Ok == Line.res = "ok"

TraceInit == l = 1 /\ InitAt(0)

Reset ==
    /\ IsEvent("reset")
    /\ pending' = {} /\ running' = [n \in Names |-> 0]
    /\ now' = Line.now /\ up' = FALSE /\ cur' = None

TSchedule == IsEvent("Schedule") /\ Ok /\ Schedule(Line.n, Line.ts, Line.m) /\ Projected(Line)
TClaim    == IsEvent("Claim") /\ Ok /\ Line.value_ok /\ Claim /\ Projected(Line)
TClaimNone == IsEvent("Claim") /\ Line.res = "none" /\ up /\ Due = {} /\ UNCHANGED vars /\ Projected(Line)
TFinish   == IsEvent("Finish") /\ Ok /\ Finish /\ Projected(Line)
TReschedule == IsEvent("Reschedule") /\ Ok /\ Reschedule(Line.ts) /\ Projected(Line)
TFollowUp == IsEvent("FollowUp") /\ Ok /\ FollowUp(Line.ts) /\ Projected(Line)
TProcess == IsEvent("Process") /\ Ok /\ cur \in Recurring /\ FollowUp(now + 1) /\ Projected(Line)
TLost == (IsEvent("Finish") \/ IsEvent("Reschedule")) /\ Ok /\ LostCurrent /\ Projected(Line)
TProcessStart == IsEvent("ProcessStart") /\ Ok /\ ProcessStart /\ Projected(Line)
TCrash    == IsEvent("Crash") /\ Ok /\ Crash /\ Projected(Line)
TStartup  == IsEvent("Startup") /\ Ok /\ Startup /\ Projected(Line)

TraceNext ==
    \/ Reset \/ TSchedule \/ TClaim \/ TClaimNone \/ TFinish \/ TReschedule
    \/ TFollowUp \/ TProcess \/ TLost \/ TProcessStart \/ TCrash \/ TStartup

TraceSpec == TraceInit /\ [][TraceNext]_<<vars, l>>

\* The action properties of C09, on every step of the trace that is not the
\* separator between two recorded behaviours.
NotReset == l <= Len(Rec) /\ Line.ev # "reset"
TraceStepProps ==
    [][ NotReset => /\ ClaimIsEarliestDueStep
                    /\ NoOrphanAfterStartupStep
                    /\ NoTaskLostStep
                    /\ (Line.ev = "Schedule" /\ Line.res = "ok"
                        /\ "pv" \in DOMAIN Line)
                       => PayloadKeptStep(Line.n, Line.m, Line.pv,
                                          {Line.pays[i] : i \in 1..Len(Line.pays)})
      ]_<<vars, l>>

\* Every state of an accepted trace satisfies the state invariants of C09.
TraceInvariant == TypeOK /\ RecurringQueued

TraceAccepted ==
    LET d == TLCGet("stats").diameter IN
    IF d - 1 = Len(Rec) THEN TRUE
    ELSE /\ PrintT(<<"TRACE_REJECTED", "matched", d - 1, "of", Len(Rec)>>)
         /\ PrintT(<<"TRACE_NEXT", ToJson(Rec[d])>>)
         /\ FALSE
=============================================================================
