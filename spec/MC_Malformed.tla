---------------------------- MODULE MC_Malformed ----------------------------
(* Exhaustive check of Malformed: every context the administrator can      *)
(* build x every endpoint x every class x addressed entity x channel.      *)
EXTENDS Malformed

ASSUME CatalogueOK
=============================================================================
