CONSTANTS
  Depth = 3
  Origins = {1, 2}
SPECIFICATION TraceSpec
POSTCONDITION AllLinesJudged
CHECK_DEADLOCK FALSE
