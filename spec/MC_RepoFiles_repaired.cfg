\* The same model with the repairable quirks switched off (O_TRUNC on
\* create, stale old/ removed first): NotificationParsable and
\* InterruptedWriteNeverBlocks hold; only the reuse of a stale tmp-N remains.
CONSTANTS
  Pubs <- PubsOne
  Uris <- UrisOneX
  Contents <- Cont
  Size <- SizeSmall
  MinNr = 0
  MaxNr = 2
  MinAge = "zero"
  MaxAge = "inf"
  MaxNrEquality = FALSE
  MaxSerial = 3
  MaxSession = 2
  DeltaChoices <- Deltas1
  TruncateOnCreate = TRUE
  RemoveOldFirst = TRUE
  MaxFaults = 2
  Depth = 99
  FaultOdds = 1
SPECIFICATION MCSpec
CONSTRAINT RBound
VIEW RView
INVARIANT Inv11
INVARIANT DeltasBoundedOnDisk
PROPERTY DiskFollowsLogical
PROPERTY WriteOk
CHECK_DEADLOCK FALSE
