CONSTANTS
  Pubs <- PubsOne
  Uris <- UrisOneX
  Contents <- Cont
  Size <- SizeSmall
  MinNr = 0
  MaxNr = 2
  MinAge = "zero"
  MaxAge = "inf"
  MaxSerial = 4
  MaxSession = 2
  DeltaChoices <- Deltas1
  MaxFaults = 2
  Depth = 99
  FaultOdds = 1
SPECIFICATION MCSpec
CONSTRAINT RBound
VIEW RView
INVARIANT XClientCatchesUp
CHECK_DEADLOCK FALSE
