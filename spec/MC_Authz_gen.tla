---------------------------- MODULE MC_Authz_gen ----------------------------
(* Case generator for C13 and C20: every initial state is one case, printed *)
(* as one JSON line ("REPLAY").  The cases are executed against the real    *)
(* daemon by `kv-http run-http`; what the daemon did is then judged by TLC  *)
(* (AuthzTrace), which recomputes the verdict from Authz and does not rely  *)
(* on the `expect` fields printed here (they are for the logs).             *)
EXTENDS Authz, Json, SequencesExt

CONSTANT Part      \* "c13" | "c20"

VARIABLE c
Next == UNCHANGED c

------------------------------------------------------------------------------
\* JSON form of a role: sets as arrays, the specific entries as a sequence.
RoleJson(ro) ==
    [none |-> ro.none, any |-> ro.any,
     specific |-> SetToSeq({ [ca |-> x, perms |-> ro.specific[x]] :
                              x \in DOMAIN ro.specific })]

NeedPerms(r) == { n[1] : n \in Need(r) }
ShapePerms(r) ==
    NeedPerms(r) \cup (IF r.kind = "listing" THEN {"ca-read"} ELSE {})
GatePerms(r) == { n[1] : n \in Gate(r) }

RoleShapes == { "blanket_min", "all_but_p", "scoped_this", "scoped_other",
                "specific_lacks", "specific_grants", "none_only", "any_only",
                "gate_missing" }

RoleOfShape(sh, r, ca, other) ==
    LET np == ShapePerms(r)
        P  == r.perm
    IN CASE sh = "blanket_min"     -> Simple(np)
         [] sh = "all_but_p"       -> Simple(Perms \ {P})
         [] sh = "scoped_this"     -> Scoped(np, {ca})
         [] sh = "scoped_other"    -> Scoped(np, {other})
         [] sh = "specific_lacks"  ->
                Complex(Perms, Perms, [x \in {ca} |-> Perms \ {P}])
         [] sh = "specific_grants" ->
                Complex(np, Perms \ {P}, [x \in {ca} |-> np])
         [] sh = "none_only"       -> Complex(Perms, {}, NoSpecific)
         [] sh = "any_only"        -> Complex({"login"}, Perms, NoSpecific)
         [] sh = "gate_missing"    -> Simple(Perms \ GatePerms(r))

\* shapes that make sense for a route (a role without login cannot obtain a
\* session, so those identities are reached through the socket peer mapping)
ShapesFor(r) ==
    { sh \in RoleShapes :
        /\ (sh = "all_but_p" => r.perm # "login")
        /\ (sh = "gate_missing" =>
               GatePerms(r) # {} /\ r.perm \notin GatePerms(r)) }

\* The role the socket peer is mapped to in the "mapped" instance: everything
\* except login.
NoLoginRole == Simple(Perms \ {"login"})

Case(r, ca, other, shape, cred, ro, transport, testbed, mapped) ==
    LET cfg == [users |-> [u \in {"u"} |-> [pw |-> "pw", role |-> "r"]],
                roles |-> [n \in {"r", "peer"} |->
                              IF n = "r" THEN ro ELSE NoLoginRole],
                unixUsers |-> IF mapped THEN [p \in {"me"} |-> "peer"]
                              ELSE [p \in {} |-> ""]]
        bearer == CASE cred = "role"  -> SessionOf(cfg, "u")
                    [] cred = "admin" -> [kind |-> "admin"]
                    [] cred = "wrong" -> [kind |-> "junk"]
                    [] OTHER          -> [kind |-> "none"]
        req == [bearer |-> bearer, transport |-> transport,
                peer |-> IF transport = "unix" THEN "me" ELSE ""]
        actor == ActsAs(cfg, req)
    IN [prop |-> "C13", route |-> r.id, m |-> r.m, path |-> r.path,
        kind |-> r.kind, perm |-> r.perm, src |-> r.src, area |-> r.area,
        ca |-> ca, other |-> other,
        shape |-> shape, cred |-> cred, role |-> RoleJson(ro),
        transport |-> transport, testbed |-> testbed,
        peer_mapped |-> mapped,
        peer_role |-> RoleJson(IF mapped THEN NoLoginRole ELSE NobodyRole),
        nomethod |-> FALSE,
        expect |-> Verdict(r, actor, ca, testbed),
        expect_shown |-> Shown(actor, {ca, other})]

\* A method that the table does not list for a path of the table: even the
\* admin gets "no such method" (so the table misses no method of a path).
AllMethods == {"GET", "POST", "DELETE", "PUT"}
NoMethodCase(r, m, testbed) ==
    [Case(r, "ca1", "ca2", "-", "admin", NobodyRole, "unix", testbed, FALSE)
        EXCEPT !.m = m, !.nomethod = TRUE,
               !.expect = NoMethodVerdict(r, testbed)]

Transports == {"tcp", "unix"}

C13Cases ==
    LET RR == { Routes[i] : i \in 1..Len(Routes) }
        Guarded == { r \in RR : r.kind \in {"perm", "login", "listing"} }
        Open    == { r \in RR : r.kind \in {"public", "testbed"} }
    IN
    \* guarded routes, every role shape, both transports, both CAs
    { Case(x[1], x[4][1], x[4][2], x[2], "role",
           RoleOfShape(x[2], x[1], x[4][1], x[4][2]), x[3], FALSE, FALSE) :
        x \in { y \in Guarded \X RoleShapes \X Transports
                        \X {<<"ca1", "ca2">>, <<"ca2", "ca1">>} :
                   /\ y[2] \in ShapesFor(y[1])
                   /\ (y[4][1] = "ca1" \/ y[1].res = "ca") } }
    \* no / wrong / admin credentials on every route, testbed off and on
    \cup { Case(r, "ca1", "ca2", "-", cred, NobodyRole, t, tb, FALSE) :
             r \in RR, cred \in {"anon", "wrong", "admin"}, t \in Transports,
             tb \in BOOLEAN }
    \* testbed mode does not change what guarded routes need
    \cup { Case(x[1], "ca1", "ca2", x[2], "role",
                RoleOfShape(x[2], x[1], "ca1", "ca2"), "unix", TRUE, FALSE) :
             x \in { y \in Guarded \X {"blanket_min", "all_but_p"} :
                        y[2] \in ShapesFor(y[1]) } }
    \* methods that are not in the table
    \cup { NoMethodCase(x[1], x[2], FALSE) :
             x \in { y \in RR \X AllMethods :
                        \A q \in RR : ~(q.path = y[1].path /\ q.m = y[2]) } }
    \* socket peer mapped to a role without login: refused below /api/v1,
    \* whatever else the role holds; a valid session still wins over the peer
    \cup { Case(r, "ca1", "ca2", "-", cred, NobodyRole, t, FALSE, TRUE) :
             r \in RR, cred \in {"anon", "wrong"}, t \in Transports }
    \cup { Case(r, "ca1", "ca2", "blanket_min", "role",
                RoleOfShape("blanket_min", r, "ca1", "ca2"), "unix", FALSE, TRUE) :
             r \in Guarded }

------------------------------------------------------------------------------
(* C20: the provider chain and the login rule as decision tables.  The      *)
(* configuration is fixed (see Users below); the harness turns every        *)
(* credential class into several concrete strings.                          *)

\* Users of the C20 configuration: name -> [pw, role]; three roles with
\* pairwise different fingerprints on the probe routes, one without login,
\* one name whose role is not defined.
C20Roles ==
    [n \in {"reader", "writer", "pubber", "nologin"} |->
        CASE n = "reader"  -> Simple({"login", "ca-read", "routes-read"})
          [] n = "writer"  ->
                Scoped({"login", "ca-read", "routes-update"}, {"ca1"})
          [] n = "pubber"  -> Simple({"login", "pub-admin", "pub-list"})
          [] n = "nologin" -> Simple(Perms \ {"login"})]

\* "~fi~" stands for the ligature U+FB01 and "~G~" for the full-width G
\* U+FF27 (the harness substitutes them): names that are not in Unicode
\* normal form.  "~fi~ona" and "fiona" are two different configured users,
\* and so are "carol " (trailing blank) and "carol".
C20Users ==
    [u \in {"alice", "bob", "carol", "dave", "Alice", "erin",
            "~fi~ona", "fiona", "~G~reg", "carol ", "lock1", "lock2"} |->
        CASE u = "alice"   -> [pw |-> "pw-alice", role |-> "reader"]
          [] u = "bob"     -> [pw |-> "pw-bob",   role |-> "writer"]
          [] u = "carol"   -> [pw |-> "pw-carol", role |-> "pubber"]
          [] u = "dave"    -> [pw |-> "pw-dave",  role |-> "nologin"]
          [] u = "Alice"   -> [pw |-> "pw-Alice", role |-> "pubber"]
          [] u = "erin"    -> [pw |-> "pw-erin",  role |-> "undefined"]
          [] u = "~fi~ona" -> [pw |-> "pw-ligature", role |-> "reader"]
          [] u = "fiona"   -> [pw |-> "pw-fiona", role |-> "pubber"]
          [] u = "~G~reg"  -> [pw |-> "pw-greg",  role |-> "reader"]
          [] u = "carol "  -> [pw |-> "pw-carolsp", role |-> "reader"]
          \* accounts whose configured password hash no password matches
          \* (empty / not hexadecimal): the harness types "pw-locked"
          [] u = "lock1"   -> [pw |-> "#locked-empty", role |-> "reader"]
          [] u = "lock2"   -> [pw |-> "#locked-nonhex", role |-> "writer"]]

PeerRoles == {"", "reader", "nologin"}   \* "" = peer not mapped

C20Cfg(peerRole) ==
    [users |-> C20Users, roles |-> C20Roles,
     unixUsers |-> IF peerRole = "" THEN [p \in {} |-> ""]
                   ELSE [p \in {"me"} |-> peerRole]]

C20CfgJson ==
    [users |-> C20Users,
     roles |-> [n \in DOMAIN C20Roles |-> RoleJson(C20Roles[n])]]

\* Probe routes: enough to tell the roles, admin and nobody apart.
Probes == {"authorized", "ca_show", "routes_show", "routes_update",
           "pubd_list", "ta_id", "health"}

Fingerprint(actor) ==
    [p \in Probes |-> Verdict(RouteOf(p), actor, "ca1", FALSE)]
FingerprintOther(actor) ==
    [p \in {"ca_show"} |-> Verdict(RouteOf(p), actor, "ca2", FALSE)]

\* credential classes of a request
BearerClasses ==
    { [kind |-> "none"], [kind |-> "admin"], [kind |-> "junk"] }
    \cup { [kind |-> "session", user |-> u, role |-> C20Users[u].role,
            issuer |-> i] :
             u \in {"alice", "bob", "carol", "Alice", "fiona"},
             i \in {"this", "other"} }

ChainCase(b, t, peerRole) ==
    LET cfg == C20Cfg(peerRole)
        req == [bearer |-> b, transport |-> t,
                peer |-> IF t = "unix" THEN "me" ELSE ""]
        actor == ActsAs(cfg, req)
    IN [prop |-> "C20", table |-> "chain", cfg |-> C20CfgJson,
        bearer |-> b, transport |-> t,
        peer_role |-> peerRole, name |-> "", pw_class |-> "",
        expect_id |-> actor.id,
        expect_fp |-> Fingerprint(actor),
        expect_login |-> FALSE]

\* login table: the name as typed, and the class of the password typed
\* relative to that name's configured password ("-" for unknown names)
Names == DOMAIN C20Users \cup
         {"ALICE", " alice", "alice ", "al~i~ce", "mallory", "", "Greg", "greg"}
PwClasses == {"exact", "padded", "nfkc", "wrong", "empty", "case", "other_user"}
PwMatches(cl) == cl \in {"exact", "padded", "nfkc"}

LoginCase(name, cl, t) ==
    LET cfg == C20Cfg("")
        ok  == /\ name \in DOMAIN cfg.users
               /\ LoginSucceeds(cfg, name,
                      IF PwMatches(cl) THEN cfg.users[name].pw ELSE "#")
        actor == IF ok THEN ActsAs(cfg, [bearer |-> SessionOf(cfg, name),
                                         transport |-> t, peer |-> ""])
                 ELSE Nobody
    IN [prop |-> "C20", table |-> "login", cfg |-> C20CfgJson,
        bearer |-> [kind |-> "none"],
        transport |-> t, peer_role |-> "", name |-> name, pw_class |-> cl,
        expect_id |-> actor.id, expect_fp |-> Fingerprint(actor),
        expect_login |-> ok]

\* A session issued for a role that has since been removed from the
\* configuration (daemon restarted on the same data): nobody.
StaleRoles == [n \in DOMAIN C20Roles \ {"writer"} |-> C20Roles[n]]
StaleCase(t) ==
    LET cfg == [users |-> C20Users, roles |-> StaleRoles,
                unixUsers |-> [p \in {} |-> ""]]
        b   == [kind |-> "session", user |-> "bob", role |-> "writer",
                issuer |-> "this"]
        actor == ActsAs(cfg, [bearer |-> b, transport |-> t,
                              peer |-> IF t = "unix" THEN "me" ELSE ""])
    IN [prop |-> "C20", table |-> "stale",
        cfg |-> [users |-> C20Users,
                 roles |-> [n \in DOMAIN StaleRoles |-> RoleJson(StaleRoles[n])]],
        removed |-> [n \in {"writer"} |-> RoleJson(C20Roles[n])],
        bearer |-> b, transport |-> t, peer_role |-> "", name |-> "",
        pw_class |-> "", expect_id |-> actor.id,
        expect_fp |-> Fingerprint(actor), expect_login |-> FALSE]

C20Cases ==
    { ChainCase(b, t, pr) : b \in BearerClasses, t \in Transports,
                            pr \in PeerRoles }
    \cup { StaleCase(t) : t \in Transports }
    \cup { LoginCase(n, cl, t) : n \in Names, cl \in PwClasses,
                                 t \in Transports }

------------------------------------------------------------------------------
Init == c \in (IF Part = "c13" THEN C13Cases ELSE C20Cases)

PrintCase == PrintT(<<"REPLAY", ToJson(c)>>)
=============================================================================
