SPECIFICATION Spec
INVARIANT AllLoad
INVARIANT AckedNeverLost
INVARIANT UnackedAllOrNothing
INVARIANT RPCleanAfterRestart
INVARIANT TwinEquivalence
CHECK_DEADLOCK FALSE
