--------------------------- MODULE MalformedTrace ---------------------------
(* Trace specification for C16: judges what the real endpoints did with    *)
(* the inputs the harness (kv-fuzz) fed them against Malformed.            *)
(*                                                                         *)
(* The trace consists of pairs of lines:                                   *)
(*   reset  the context (which entities exist); the version counters start *)
(*          at 0                                                           *)
(*   req    one vector (endpoint, class, addressed entity, channel) and    *)
(*          one observed outcome of it: the kind of reply (error, ok,      *)
(*          panic, exit, garbled = neither an error nor a proper reply),   *)
(*          whether the digest of the configuration and the digest of the  *)
(*          published content changed, and the number of instances of the  *)
(*          class that behaved like this.                                  *)
(* A req line conforms iff Malformed(e, c, t, ch) or Accepted(e, c, t, ch) *)
(* of the specification leads from the current state to exactly the        *)
(* projected state.  A panic or exit needs alive' = FALSE, which no action *)
(* of the specification allows; a reply that is neither an error nor ok    *)
(* has no action either; an error reply with a changed digest contradicts  *)
(* the UNCHANGED of Malformed; an ok reply to a class that is malformed by *)
(* construction contradicts the guard of Accepted.  So that one run judges *)
(* the whole trace, a line that conforms to no action is consumed by       *)
(* NonConforming, which prints it as MISMATCH and counts it (the following *)
(* reset line restores the state).                                         *)
EXTENDS Malformed, Sequences, Json, IOUtils

Rec == ndJsonDeserialize(IOEnv.TRACE)

VARIABLES
    l,      \* next line of the trace
    bad,    \* number of lines that conform to no action
    cnt     \* what the conforming lines exercised (anti-vacuity)

tvars == <<vars, l, bad, cnt>>

Line == Rec[l]

IsEvent(e) == l <= Len(Rec) /\ Line.ev = e /\ l' = l + 1

Kinds == {"refused", "accepted", "strict_refused", "accepted_changed"}

TraceInit == l = 1 /\ bad = 0 /\ cnt = [k \in Kinds |-> 0] /\ Init

Summary ==
    l = Len(Rec) => PrintT(<<"SUMMARY", Len(Rec), bad', ToJson(cnt')>>)

Reset ==
    /\ IsEvent("reset")
    /\ repo' = Line.ctx.repo
    /\ cas' = IF Line.ctx.ca THEN {"ca"} ELSE {}
    /\ kids' = IF Line.ctx.child THEN {"child"} ELSE {}
    /\ pubs' = IF Line.ctx.pub THEN {"pub"} ELSE {}
    /\ cfg' = 0 /\ pubv' = 0 /\ alive' = TRUE /\ reply' = "none"
    /\ UNCHANGED <<bad, cnt>>
    /\ Summary

KnownVector(r) ==
    /\ r.e \in Endpoints
    /\ r.c \in Classes(r.e)
    /\ r.t \in Targets(r.e)
    /\ r.chan \in Endpoint[r.e].chans

Projected(r) ==
    /\ repo' = repo /\ cas' = cas /\ kids' = kids /\ pubs' = pubs
    /\ cfg' = (IF r.cfgchg THEN cfg + 1 ELSE cfg)
    /\ pubv' = (IF r.pubchg THEN pubv + 1 ELSE pubv)
    /\ alive' = (r.out \in {"error", "ok", "garbled"})
    /\ reply' = r.out

Count(k, n) == cnt' = [cnt EXCEPT ![k] = @ + n]

TMalformed ==
    /\ IsEvent("req") /\ KnownVector(Line) /\ Projected(Line)
    /\ Malformed(Line.e, Line.c, Line.t, Line.chan)
    /\ Count(IF Line.c \in Strict(Line.e) THEN "strict_refused"
             ELSE "refused", Line.n)
    /\ UNCHANGED bad
    /\ Summary

TAccepted ==
    /\ IsEvent("req") /\ KnownVector(Line) /\ Projected(Line)
    /\ Accepted(Line.e, Line.c, Line.t, Line.chan)
    /\ Count(IF Line.cfgchg \/ Line.pubchg THEN "accepted_changed"
             ELSE "accepted", Line.n)
    /\ UNCHANGED bad
    /\ Summary

NonConforming ==
    /\ IsEvent("req") /\ Projected(Line)
    /\ ~ ( /\ KnownVector(Line)
           /\ \/ Malformed(Line.e, Line.c, Line.t, Line.chan)
              \/ Accepted(Line.e, Line.c, Line.t, Line.chan) )
    /\ PrintT(<<"MISMATCH", l>>)
    /\ bad' = bad + 1
    /\ UNCHANGED cnt
    /\ Summary

TraceNext == Reset \/ TMalformed \/ TAccepted \/ NonConforming

TraceSpec == TraceInit /\ [][TraceNext]_tvars

\* the context of every recorded request is one of the specification
TraceInvariant == FactSet = Close(FactSet)

TraceAccepted ==
    LET d == TLCGet("stats").diameter IN
    IF d - 1 = Len(Rec) THEN TRUE
    ELSE /\ PrintT(<<"TRACE_INCOMPLETE", "matched", d - 1, "of", Len(Rec)>>)
         /\ FALSE
=============================================================================
