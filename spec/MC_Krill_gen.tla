---------------------------- MODULE MC_Krill_gen ----------------------------
(* Behaviour generator for Krill.tla: the base actions plus a history      *)
(* variable holding the actions in the vocabulary of the harness (run-ca). *)
(* API operations and single background-task steps are interleaved; a      *)
(* Settle marker makes the harness run refresh rounds and tasks to a fixed *)
(* point (in this generator: one refresh followed by all tasks).  What the *)
(* real code does at each step is validated against KrillTrace.tla, so a   *)
(* generated operation that turns out not to be applicable on the real     *)
(* state is still checked (refused / no-op variants of the trace spec).    *)
EXTENDS Krill, Sequences, Json

CONSTANTS Depth, MaxApiStreak, MaxDestr,
          MftDue, ObjDue   \* the timing regime of the generated runs

\* In the roll theme an activation that has become possible is the next API
\* operation (a uniform random walk seldom gets that far otherwise).
RollFirst == "roll" \in Ops
RollReady == \E c \in Sub : /\ IsCa(c) /\ exists[c] /\ RollSlots(c) # {}
                             /\ \A s \in RollSlots(c) : CanActivate(s)

VARIABLES hist, streak, settling, dirty, destr

gvars == <<vars, hist, streak, settling, dirty, destr>>

GenRoa == {<<"p1", "a1">>, <<"p2", "a1">>, <<"p2", "a2">>}
GenAspa == {<<"a1", "prov:a2">>, <<"a1", "prov:a2+a3">>}
GenRtr == {<<"a1", "rtr:k1">>, <<"a1", "rtr:k2">>}
GenRoaAspa == GenRoa \cup GenAspa \cup GenRtr
\* router keys are configured like route authorisations (add / remove, an
\* object iff the AS is held) through their own API call
IsRtr(r) == r[2] \in {"rtr:k1", "rtr:k2"}
AddName(r) == IF IsRtr(r) THEN "RtrAdd" ELSE "RoaAdd"
DelName(r) == IF IsRtr(r) THEN "RtrDel" ELSE "RoaDel"
NoAspa == {}
GenV4 == {"p1", "p2", "p3"}
ProvOf(x) == IF x[2] = "prov:a2" THEN <<"a2">> ELSE <<"a2", "a3">>
GenChain == [c \in Sub |-> IF c = "B" THEN "A" ELSE IF c = "C" THEN "B" ELSE "A"]
\* a chain of four: B under A, C under B, D under C
GenDeep == [c \in Sub |-> IF c = "B" THEN "A" ELSE IF c = "C" THEN "B" ELSE "C"]
\* B under A; C and F (a child that is not hosted here) under B
GenForeign == [c \in Sub |-> IF c = "B" THEN "A" ELSE "B"]
\* B under A, C under B, F under C: the parent of the child that is not hosted
\* here can lose its resource class and get a new one
GenForeign2 == [c \in Sub |-> IF c = "B" THEN "A" ELSE IF c = "C" THEN "B" ELSE "C"]
\* (with Sub = {"B", "C", "C2"} and CaOf = SecondSlots the same function makes
\* A the second parent of C: C holds resources from B and from A directly)

SetToSeq(S) ==
    LET RECURSIVE F(_)
        F(T) == IF T = {} THEN <<>>
                ELSE LET x == CHOOSE y \in T : TRUE IN <<x>> \o F(T \ {x})
    IN F(S)

\* (the harness matches the name of a ResourceClassRemoved task up to the
\* class name, which the CA numbers in the order of creation)
TaskName(t) ==
    IF t[1] = "sync_repo" THEN "sync_repo_" \o t[2]
    ELSE IF t[1] = "sync_parent"
    THEN "sync_" \o CaOf[t[2]] \o "_with_parent_" \o parent[t[2]]
    ELSE "resource_class_removed_ca_" \o CaOf[t[2]] \o "_parent_" \o parent[t[2]] \o "_rcn_0"

GenInit == Init /\ hist = <<>> /\ streak = 0 /\ settling = FALSE /\ dirty = FALSE /\ destr = 0

Api(rec) == /\ ~settling /\ streak < MaxApiStreak
            /\ streak' = streak + 1 /\ settling' = FALSE /\ dirty' = TRUE
            /\ hist' = Append(hist, rec)
            /\ destr' = IF rec.a \in {"ChildRemove", "DeleteCa"} THEN destr + 1 ELSE destr
            /\ (rec.a \in {"ChildRemove", "DeleteCa"} => destr < MaxDestr)

GenApiAny ==
    \/ \E c \in Sub, R \in SUBSET Res :
         AddCa(c, ParentOf[c], R)
         /\ Api([a |-> "AddCa", c |-> c, p |-> ParentOf[c], res |-> SetToSeq(R)])
    \/ "parents" \in Ops /\ \E s \in Sub :
         \* (not while the revocation requests of a class that has just been
         \* removed are still to be sent: known finding, see Dangling)
         \/ /\ RemoveParent(s) /\ RM(s) \notin tasks
            /\ Api([a |-> "RemoveParent", c |-> s, p |-> parent[s]])
         \/ \E R \in SUBSET Res :
              /\ AddParent(s, ParentOf[s], R)
              /\ Api([a |-> "AddParent", c |-> s, p |-> ParentOf[s], res |-> SetToSeq(R)])
    \/ "res" \in Ops /\ \E c \in Sub, R \in SUBSET Res :
         ChildRes(c, R)
         /\ Api([a |-> "ChildRes", c |-> c, p |-> parent[c], res |-> SetToSeq(R)])
    \/ "suspend" \in Ops /\ \E c \in Sub :
         \/ ChildSuspend(c) /\ Api([a |-> "ChildSuspend", c |-> c, p |-> parent[c]])
         \/ ChildUnsuspend(c) /\ Api([a |-> "ChildUnsuspend", c |-> c, p |-> parent[c]])
    \/ "autosuspend" \in Ops
         /\ (\E c \in AllCA : Inactive(c)) /\ AutoSuspend({})
         /\ Api([a |-> "AutoSuspend"])
    \/ "map" \in Ops /\ \E c \in Sub :
         /\ (exists[c] \/ c \in Foreign) /\ ChildMap(c)
         /\ Api([a |-> "ChildMap", c |-> c, p |-> parent[c],
                 in_parent |-> "0", for_child |-> "m" \o c])
    \/ "remove" \in Ops /\ \E c \in Sub :
         ChildRemove(c) /\ Api([a |-> "ChildRemove", c |-> c, p |-> parent[c]])
    \/ "aspa" \in Ops /\ \E c \in AllCA, x \in AspaDefs :
         \/ AspaSet(c, x) /\ Api([a |-> "AspaSet", c |-> c, cust |-> x[1], prov |-> ProvOf(x)])
         \/ AspaDel(c, x[1]) /\ Api([a |-> "AspaSet", c |-> c, cust |-> x[1], prov |-> <<>>])
    \/ "roa" \in Ops /\ \E c \in AllCA, r \in Roa \ AspaDefs :
         \/ RoaAdd(c, r) /\ Api([a |-> AddName(r), c |-> c, r |-> <<r[1], r[2]>>])
         \/ RoaDel(c, r) /\ Api([a |-> DelName(r), c |-> c, r |-> <<r[1], r[2]>>])
    \/ "roadelta" \in Ops /\ \E c \in AllCA, A \in SUBSET {r \in Roa \ AspaDefs : ~IsRtr(r)},
                                              D \in SUBSET {r \in Roa \ AspaDefs : ~IsRtr(r)} :
         /\ Cardinality(A) + Cardinality(D) >= 2
         /\ RoaDelta(c, A, D)
         /\ Api([a |-> "RoaDelta", c |-> c,
                 add |-> SetToSeq({r[1] \o "|" \o r[2] : r \in A}),
                 del |-> SetToSeq({r[1] \o "|" \o r[2] : r \in D})])
    \/ "roll" \in Ops /\ \E c \in Sub :
         \/ RollInit(c) /\ Api([a |-> "RollInit", c |-> c])
         \/ RollActivate(c) /\ Api([a |-> "RollActivate", c |-> c])
         \/ RollActivateRefused(c) /\ Api([a |-> "RollActivate", c |-> c])
    \/ "delete" \in Ops /\ \E c \in Sub :
         DeleteCa(c) /\ Api([a |-> "DeleteCa", c |-> c])
    \/ "pubops" \in Ops /\
         \/ \E c \in Sub : PubRemove(c) /\ Api([a |-> "PubRemove", c |-> c])
         \/ \E c \in Sub : PubAdd(c) /\ Api([a |-> "PubAdd", c |-> c])
         \/ RepoSyncAll /\ Api([a |-> "RepoSyncAll"])
    \/ "foreign" \in Ops /\ \E f \in Foreign :
         \/ \E R \in SUBSET Res :
              /\ AddForeign(f, ParentOf[f], R)
              /\ Api([a |-> "AddForeign", c |-> f, p |-> ParentOf[f], res |-> SetToSeq(R)])
         \/ FList(f) /\ Api([a |-> "FList", c |-> f])
         \/ \E x \in {"cur", "new"} :
              \/ FRevoke(f, x, FALSE) /\ Api([a |-> "FRevoke", c |-> f, x |-> x])
              \* (limits within the entitlement -- within the offer or not --,
              \* no limit, and one that names everything)
              \/ FCall(f) /\ \E L \in (SUBSET ent[f]) \cup {Res}, nl \in BOOLEAN :
                   /\ FCall(f) /\ (nl => L = Offer(f))
                   /\ FIssue(f, x, L)
                   /\ Api([a |-> "FIssue", c |-> f, x |-> x, lim |-> SetToSeq(L), nolim |-> nl,
                           fam |-> "all"])
              \* a limit on the IPv4 family only: the other families as offered
              \/ FCall(f) /\ \E LV \in SUBSET (ent[f] \cap GenV4) :
                   /\ FIssue(f, x, (Offer(f) \ GenV4) \cup LV)
                   /\ Api([a |-> "FIssue", c |-> f, x |-> x, lim |-> SetToSeq(LV), nolim |-> FALSE,
                           fam |-> "v4"])
    \/ "restart" \in Ops /\ UNCHANGED <<pubknown, pst, rst, kst, exists, gone, parent, hasp, ent,
                                          cstate, iss, sus, rc, rcv, req, routes, pub, tasks>>
                         /\ Api([a |-> "Restart"])

\* a key roll of the CA under the trust anchor
GenTaApi ==
    "taroll" \in Ops /\
    \/ RollInit(Top) /\ UNCHANGED tavars /\ Api([a |-> "RollInit", c |-> Top])
    \/ TopRollActivate /\ Api([a |-> "RollActivate", c |-> Top])

GenApi ==
    IF RollFirst /\ RollReady
    THEN \E c \in Sub : RollActivate(c) /\ UNCHANGED tavars
                         /\ Api([a |-> "RollActivate", c |-> c])
    ELSE (GenApiAny /\ UNCHANGED tavars) \/ GenTaApi

\* one background task, named
\* (the trust anchor's tasks and Top's synchronisation with it: stepped by
\* name when they have something to do)
GenStep ==
    /\ ~settling
    /\ \/ \E t \in tasks :
            /\ RunTask(t) /\ UNCHANGED tavars
            /\ hist' = Append(hist, [a |-> "Step", task |-> TaskName(t)])
       \/ /\ "taroll" \in Ops
          /\ \/ /\ (req[Top] \ taq) # {} /\ TopSync
                /\ hist' = Append(hist, [a |-> "Step",
                                 task |-> "sync_" \o Top \o "_with_parent_ta"])
             \/ /\ taq # {} /\ TaCycle
                /\ hist' = Append(hist, [a |-> "Step", task |-> "sync_ta_proxy_signer"])
             \/ /\ tapub # taiss /\ TaRepo
                /\ hist' = Append(hist, [a |-> "Step", task |-> "sync_repo_ta"])
    /\ streak' = 0 /\ settling' = FALSE /\ dirty' = TRUE /\ destr' = destr

\* Settle: the harness refreshes and runs tasks to a fixed point
GenSettleStart ==
    /\ ~settling /\ "refresh" \in Ops /\ dirty
    /\ RefreshAll /\ UNCHANGED tavars
    /\ hist' = Append(hist, [a |-> "Settle"])
    /\ settling' = TRUE /\ streak' = 0 /\ dirty' = FALSE /\ destr' = destr
GenSettleRun ==
    /\ settling
    /\ \/ tasks # {} /\ (\E c \in AllCA : Task(c)) /\ UNCHANGED tavars
       \/ /\ "taroll" \in Ops /\ TaWork
          /\ \/ (req[Top] \ taq) # {} /\ TopSync
             \/ taq # {} /\ TaCycle
             \/ tapub # taiss /\ TaRepo
    /\ UNCHANGED <<hist, streak, settling, dirty, destr>>
\* the end of a settle; a maintenance run may follow at once, observed in
\* isolation: mark the facts, run the maintenance task and the syncs it
\* causes, state the expectation
\* (a restart with margins larger than the lifetimes stands in for the
\* passing of time: at the next maintenance run everything is due)
MaintSeq(task, expect, due) ==
    IF due
    THEN << [a |-> "Mark"], [a |-> "RestartDue"], [a |-> task], [a |-> "Pump"],
            [a |-> "RestartNormal"], [a |-> expect] >>
    ELSE << [a |-> "Mark"], [a |-> task], [a |-> "Pump"], [a |-> expect] >>
GenSettleEnd ==
    /\ settling /\ tasks = {} /\ ("taroll" \in Ops => ~TaWork)
    /\ settling' = FALSE
    /\ \/ hist' = hist
       \/ /\ "maintain" \in Ops
          /\ \/ hist' = hist \o MaintSeq("Republish",
                              IF MftDue THEN "ExpectReissued" ELSE "ExpectSame", MftDue)
             \/ hist' = hist \o MaintSeq("Renew",
                              IF ObjDue THEN "ExpectRenewed" ELSE "ExpectSame", ObjDue)
    /\ UNCHANGED <<vars, streak, dirty, destr>>

GenNext == /\ Len(hist) < Depth
           /\ (GenApi \/ GenStep \/ GenSettleStart \/ GenSettleRun \/ GenSettleEnd)

DepthBound == Len(hist) <= Depth

PrintBehaviour ==
    (Len(hist) >= Depth /\ ~settling)
    => PrintT(<<"REPLAY", ToJson([top |-> SetToSeq(TopRes),
                                  slots |-> SetToSeq({<<s, CaOf[s]>> : s \in {t \in AllCA : CaOf[t] # t}}),
                                  mftdue |-> MftDue, objdue |-> ObjDue,
                                  actions |-> Append(hist, [a |-> "Settle"])])>>)
=============================================================================
