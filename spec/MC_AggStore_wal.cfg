\* 3 threads on one WAL entity, 2 operations each (snapshot truncates the log)
CONSTANTS
  t1 = t1
  t2 = t2
  t3 = t3
  e1 = e1
  e2 = e2
  w1 = w1
  n1 = n1
  Threads = {t1,t2,t3}
  Entities = {w1}
  WalEntities = {w1}
  NewEntities = {}
  MaxOps = 2
  Ops = {"ok","reject","noop","snap","lsnap","read"}
  LockMode = "write"
SPECIFICATION Spec
INVARIANT Safety
PROPERTY AppendOnly
CHECK_DEADLOCK TRUE
SYMMETRY SymTE
