--------------------------- MODULE TaExchangeTrace ---------------------------
(* Trace specification for C15: a trace recorded by `kv-auth run-ta` from  *)
(* the real trust anchor proxy, the real (offline) signer and real local   *)
(* TA children is accepted only if every step satisfies the four parts of  *)
(* the property of TaExchange, evaluated on the projected states before    *)
(* and after the step.                                                     *)
EXTENDS TaExchange, Json, IOUtils

Rec == ndJsonDeserialize(IOEnv.TRACE)

VARIABLE l

Line == Rec[l]

ToSet(t) == {t[i] : i \in 1..Len(t)}
PairSet(t) == {<<t[i][1], t[i][2]>> : i \in 1..Len(t)}
Pair(t) == <<t[1], t[2]>>

MsgOf(r) == [t |-> r.t, nonce |-> r.nonce, by |-> r.by,
             content |-> PairSet(r.content), num |-> Pair(r.num)]

Projected(st) ==
    /\ open' = st.open /\ nn' = st.nn
    /\ reqs' = [c \in Children |-> ToSet(st.reqs[c])]
    /\ resp' = [c \in Children |-> ToSet(st.resp[c])]
    /\ assoc' = st.assoc
    /\ pnum' = Pair(st.pnum) /\ rnum' = Pair(st.rnum)
    /\ sg' = [s \in Signers |->
                 [id |-> st.signers[s].id, trusts |-> ProxyKey,
                  num |-> Pair(st.signers[s].num),
                  done |-> st.signers[s].done, iss |-> {}]]
    /\ want' = [c \in Children |-> ToSet(st.want[c])]
    /\ have' = [c \in Children |-> ToSet(st.have[c])]

HasMsg == "msg" \in DOMAIN Line
NewMsg == IF HasMsg THEN MsgOf(Line.msg)
          ELSE [t |-> "none", nonce |-> 0, by |-> "none", content |-> {},
                num |-> <<0, 0>>]
Eff == IF "eff" \in DOMAIN Line THEN MsgOf(Line.eff) ELSE NewMsg
Auth == IF "v" \in DOMAIN Line THEN Line.v \in {"orig", "rsrand", "rsproxy"}
        ELSE TRUE
Ok == Line.res = "ok"
SignerOf == IF "s" \in DOMAIN Line THEN Line.s ELSE "S1"
ChildOf == IF "c" \in DOMAIN Line THEN Line.c ELSE "ca1"

IsEvent == l <= Len(Rec) /\ l' = l + 1

TraceInit == l = 1 /\ Init

Reset ==
    /\ IsEvent /\ Line.ev = "reset"
    /\ Projected(Line.st) /\ msgs' = <<>>
    /\ open' = None /\ nn' = 0 /\ assoc' = "g1"
    /\ \A c \in Children : reqs'[c] = {} /\ resp'[c] = {} /\ want'[c] = {}
                           /\ have'[c] = {}
    /\ pnum' = <<1, 1>> /\ rnum' = <<1, 1>>
    /\ \A s \in Signers : sg'[s].num = <<1, 1>> /\ sg'[s].done = 0
    /\ sg'["S1"].id = "g1" /\ sg'["S2"].id = "g2"

\* an action the harness could not carry out (dangling message reference)
Skip == IsEvent /\ Line.ev # "reset" /\ Line.res = "skip" /\ UNCHANGED vars

\* every other step: whatever the real code did; the properties decide
Step ==
    /\ IsEvent /\ Line.ev # "reset" /\ Line.res # "skip"
    /\ Projected(Line.st)
    /\ msgs' = IF HasMsg THEN Append(msgs, NewMsg) ELSE msgs

TraceNext == Reset \/ Skip \/ Step

TraceSpec == TraceInit /\ [][TraceNext]_<<vars, l>>

IsStep == l <= Len(Rec) /\ Line.ev # "reset" /\ Line.res # "skip"

RefusedUnchanged ==
    [][IsStep => RefusedUnchangedStep(
            Line.ev, SignerOf, Eff, Auth, Ok, Line.chg = <<>>)]_<<vars, l>>

OneResponsePerRequest ==
    [][IsStep => OneResponsePerRequestStep(
            Line.ev, SignerOf, Eff, Auth, Ok, NewMsg)]_<<vars, l>>

DeliveredExactlyOnce ==
    [][IsStep => DeliveredExactlyOnceStep(Line.ev, ChildOf, Ok)]_<<vars, l>>

TaNumbersIncrease ==
    [][IsStep => TaNumbersIncreaseStep(Line.ev, Ok)]_<<vars, l>>

TypeOK ==
    /\ \A c \in Children : reqs[c] \cup resp[c] \cup want[c] \subseteq ReqNames
    /\ \A i \in 1..Len(msgs) :
         \A x \in msgs[i].content : x[1] \in Children /\ x[2] \in ReqNames

TraceInvariant == TypeOK /\ Disjoint

TraceAccepted ==
    LET d == TLCGet("stats").diameter IN
    IF d - 1 = Len(Rec) THEN TRUE
    ELSE /\ PrintT(<<"TRACE_REJECTED", "matched", d - 1, "of", Len(Rec)>>)
         /\ PrintT(<<"TRACE_NEXT", ToJson(Rec[d])>>)
         /\ FALSE
=============================================================================
