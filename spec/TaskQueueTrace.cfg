CONSTANTS
  Names = {"start", "rep", "ren", "snap", "sa", "sb"}
  Recurring = {"rep", "ren", "snap"}
  StartTask = "start"
  MaxTs = 4
  MaxRun = 3
  MaxDup = 2
  RequeueMin = 1
  ModesUsed = {"IfMissing", "ReplaceExisting", "ReplaceExistingSoonest", "FinishOrReplaceExisting", "FinishOrReplaceExistingSoonest"}
SPECIFICATION TraceSpec
INVARIANT TraceInvariant
PROPERTY TraceStepProps
POSTCONDITION TraceAccepted
CHECK_DEADLOCK FALSE
