--------------------------- MODULE UpDownAuthTrace ---------------------------
(* Trace specification for C12: a trace recorded by `kv-auth run-updown`   *)
(* from the real CaManager::rfc6492 / RepositoryManager::rfc8181 is        *)
(* accepted only if every request step satisfies the three parts of the    *)
(* property of UpDownAuth (evaluated on the projected states before and    *)
(* after the request) and every administrative step (identity updates) is  *)
(* the corresponding action of UpDownAuth.                                 *)
EXTENDS UpDownAuth, Json, IOUtils

Rec == ndJsonDeserialize(IOEnv.TRACE)

VARIABLE l      \* next line of the trace

Line == Rec[l]

ToSet(t) == {t[i] : i \in 1..Len(t)}
CertSet(t) == {<<t[i][1], ToSet(t[i][2])>> : i \in 1..Len(t)}
ObjSet(t) == {<<t[i][1], t[i][2]>> : i \in 1..Len(t)}

Projected(st) ==
    /\ reg' = [s \in Servers |-> st.reg[s]]
    /\ srv' = [s \in Servers |-> st.srv[s]]
    /\ iss' = [s \in CaServers |->
                  [c \in DOMAIN st.iss[s] |-> CertSet(st.iss[s][c])]]
    /\ pub' = [q \in DOMAIN st.pub |-> ObjSet(st.pub[q])]
    /\ seen' = [s \in CaServers |->
                  [c \in DOMAIN st.seen[s] |-> st.seen[s][c]]]
    /\ susp' = [s \in CaServers |->
                  [c \in DOMAIN st.susp[s] |-> st.susp[s][c]]]
    /\ held' = [s \in CaServers |->
                  [c \in DOMAIN st.held[s] |-> CertSet(st.held[s][c])]]

\* the entitlements of the real set-up are those of the specification
EntOf(st) == [s \in CaServers |->
                 [c \in DOMAIN st.ent[s] |-> ToSet(st.ent[s][c])]]

MsgOf(r) ==
    [p |-> r.p, key |-> r.key, snd |-> r.snd, rcp |-> r.rcp, tgt |-> r.tgt,
     kind |-> r.kind, ckey |-> r.ckey, lim |-> ToSet(r.lim), uri |-> r.uri,
     val |-> r.val, tam |-> r.tam]

IsEvent(e) == l <= Len(Rec) /\ Line.ev = e /\ l' = l + 1

TraceInit == l = 1 /\ Init

\* a fresh real world: must be the initial state of the specification
Reset ==
    /\ IsEvent("reset")
    /\ Projected(Line.st)
    /\ reg' = Reg0
    /\ \A s \in Servers : srv'[s] = 1
    /\ \A s \in CaServers : \A c \in DOMAIN iss'[s] :
            iss'[s][c] = {} /\ seen'[s][c] = 0 /\ ~susp'[s][c]
            /\ held'[s][c] = {}
    /\ \A q \in DOMAIN pub' : pub'[q] = {}
    /\ EntOf(Line.st) = Ent

\* requests: the step is whatever the real code did; the property parts
\* below decide whether it was allowed
TReq == IsEvent("Req") /\ Projected(Line.st)

TChildId ==
    /\ IsEvent("ChildId") /\ Line.verdict = "ok"
    /\ ChildId(Line.srv, Line.c) /\ Projected(Line.st)
    /\ NextKey[Line.srv][Line.c] = Line.key

TServerId ==
    /\ IsEvent("ServerId") /\ Line.verdict = "ok"
    /\ ServerId(Line.srv) /\ Projected(Line.st)

TSuspend ==
    /\ IsEvent("Suspend") /\ Line.verdict = "ok"
    /\ Suspend(Line.srv, Line.c) /\ Projected(Line.st)

TPubReReg ==
    /\ IsEvent("PubReReg") /\ Line.verdict = "ok"
    /\ PubReReg(Line.c) /\ Projected(Line.st)
    /\ NextKey["R"][Line.c] = Line.key

\* a batch of requests that the specification says must all be refused
\* (TLC computed that when it generated the behaviour); the harness
\* compared each of them; deviating ones are written as Req lines
TVectors ==
    /\ IsEvent("Vectors")
    /\ UNCHANGED vars /\ Projected(Line.st)

\* single bit corruption of one valid message (exploration, judged by the
\* harness: a flipped message may only be acted upon if it decodes to the
\* identical message)
TBitFlips == IsEvent("BitFlips") /\ Line.bad = 0 /\ Projected(Line.st)

TraceNext ==
    \/ Reset \/ TReq \/ TChildId \/ TServerId \/ TPubReReg \/ TSuspend
    \/ TVectors \/ TBitFlips

TraceSpec == TraceInit /\ [][TraceNext]_<<vars, l>>

IsReqStep == l <= Len(Rec) /\ Line.ev = "Req"

RefusedUnchanged ==
    [][IsReqStep => RefusedUnchangedStep(
            MsgOf(Line), Line.verdict, Line.chg = <<>>)]_<<vars, l>>

EffectsWithinSender ==
    [][IsReqStep => EffectsWithinSenderStep(MsgOf(Line), Line.verdict)
      ]_<<vars, l>>

ReplySignedByCurrentServerKey ==
    [][IsReqStep => ReplySignedByCurrentServerKeyStep(
            MsgOf(Line), Line.verdict, Line.rk)]_<<vars, l>>

\* a positive reply only shows things of the sender
ReplyWithinSender ==
    [][IsReqStep /\ Line.verdict = "ok" /\ Valid(MsgOf(Line)) =>
        LET m == MsgOf(Line) IN
        CASE m.p = "ud" /\ m.kind = "list" ->
                /\ CertSet(Line.rcerts) \subseteq Own(m.tgt, m.snd)
                /\ ToSet(Line.rent) \subseteq Ent[m.tgt][m.snd]
          [] m.p = "ud" /\ m.kind = "issue" ->
                CertSet(Line.rcerts) \subseteq iss'[m.tgt][m.snd]
          [] m.p = "pub" /\ m.kind = "list" ->
                ToSet(Line.robjs) \subseteq UrisOf(m.snd)
          [] OTHER -> TRUE
      ]_<<vars, l>>

\* (WithinScope follows step by step from EffectsWithinSender)
TraceInvariant == TypeOK

TraceAccepted ==
    LET d == TLCGet("stats").diameter IN
    IF d - 1 = Len(Rec) THEN TRUE
    ELSE /\ PrintT(<<"TRACE_REJECTED", "matched", d - 1, "of", Len(Rec)>>)
         /\ PrintT(<<"TRACE_NEXT", ToJson(Rec[d])>>)
         /\ FALSE
=============================================================================
