------------------------------- MODULE Authz -------------------------------
(***************************************************************************)
(* Authorisation and authentication of the krill HTTP interface.           *)
(*                                                                         *)
(*  C13  Every API route enforces the permission its operation requires.   *)
(*  C20  Only genuine credentials authenticate, and only as the configured *)
(*       identity.                                                         *)
(*                                                                         *)
(* Both are decision tables, so this module is a set of definitions: TLC   *)
(* enumerates the cases (MC_Authz_gen) and is the oracle for what the real *)
(* daemon did with each of them (AuthzTrace).  The module has three parts: *)
(*                                                                         *)
(*  1. the reference policy: one entry per route x method of the HTTP      *)
(*     interface, written from the point of view of the operation (what it *)
(*     reads or changes), not copied from the handler's argument;          *)
(*  2. role evaluation (specific CA entry, else blanket, else general);    *)
(*  3. the provider chain and the login rule.                              *)
(***************************************************************************)
EXTENDS Naturals, Sequences, FiniteSets, TLC

(***************************************************************************)
(* Permissions (src/daemon/http/auth/permission.rs).                       *)
(***************************************************************************)
Perms == { "login",
           "pub-admin", "pub-list", "pub-read", "pub-create", "pub-delete",
           "ca-list", "ca-read", "ca-create", "ca-update", "ca-admin",
           "ca-delete",
           "routes-read", "routes-update", "routes-analysis",
           "aspas-read", "aspas-update", "bgpsec-read", "bgpsec-update",
           "rta-list", "rta-read", "rta-update" }

NoCA == "-"         \* the resource of a request that addresses no CA

(***************************************************************************)
(* 1. Reference policy.                                                    *)
(*                                                                         *)
(* kind:  "public"   served to everybody, credentials or not               *)
(*        "testbed"  public when testbed mode is on, absent otherwise      *)
(*        "login"    needs only the login permission                       *)
(*        "listing"  needs only login; shows the CAs the caller may read   *)
(*        "perm"     needs login, the gate of its area and `perm` on `res` *)
(* res:   "ca" = the CA named in the path, "none" = no CA addressed        *)
(* area:  "ca"   below /api/v1/cas/{ca}: addressing a CA at all needs      *)
(*               ca-read on that CA (cas.rs:85)                            *)
(*        "pubd" below /api/v1/pubd: the publication server area is gated  *)
(*               by pub-admin (pubd.rs:17)                                 *)
(*        other areas have no gate beyond login.                           *)
(* The two gates make the code stricter than the bare operation; they are  *)
(* part of the reference so that "served" can be checked as an             *)
(* equivalence.  Read operations are listed with the read (list)           *)
(* permission of their area, operations that change something with the     *)
(* update / create / delete / admin permission of their area.              *)
(***************************************************************************)
R(id, m, path, kind, area, perm, res, src) ==
    [id |-> id, m |-> m, path |-> path, kind |-> kind, area |-> area,
     perm |-> perm, res |-> res, src |-> src]

Pub(id, m, path, src) == R(id, m, path, "public", "root", "", "none", src)
Tb(id, m, path)       == R(id, m, path, "testbed", "root", "", "none", "testbed")
Ca(id, m, path, perm) ==
    R(id, m, "/api/v1/cas/{ca}" \o path, "perm", "ca", perm, "ca", "cas")
Pd(id, m, path, perm) ==
    R(id, m, "/api/v1/pubd" \o path, "perm", "pubd", perm, "none", "pubd")
Ta(id, m, path) ==
    R(id, m, "/api/v1/ta/proxy" \o path, "perm", "ta", "ca-admin", "none", "ta")
Bk(id, m, path) ==
    R(id, m, "/api/v1/bulk/cas" \o path, "perm", "bulk", "ca-admin", "none", "bulk")

Routes == <<
  \* ---- public: protocol, repository, TA download, health, metrics,
  \*      statistics, login, UI  (root.rs, auth.rs, metrics.rs, stats.rs)
  Pub("index",        "GET",  "/",                          "root"),
  Pub("assets",       "GET",  "/assets/{asset}",            "root"),
  Pub("ui",           "GET",  "/ui",                        "root"),
  Pub("ui_sub",       "GET",  "/ui/cas/{ca}",               "root"),
  Pub("health",       "GET",  "/health",                    "root"),
  Pub("metrics",      "GET",  "/metrics",                   "metrics"),
  Pub("rfc8181",      "POST", "/rfc8181/{publisher}",       "root"),
  Pub("rfc6492",      "POST", "/rfc6492/{ca}",              "root"),
  Pub("rrdp",         "GET",  "/rrdp/notification.xml",     "root"),
  Pub("ta_tal",       "GET",  "/ta/ta.tal",                 "root"),
  Pub("ta_cer",       "GET",  "/ta/ta.cer",                 "root"),
  Pub("testbed_tal",  "GET",  "/testbed.tal",               "root"),
  Pub("stats_info",   "GET",  "/stats/info",                "stats"),
  Pub("stats_repo",   "GET",  "/stats/repo",                "stats"),
  Pub("stats_cas",    "GET",  "/stats/cas",                 "stats"),
  Pub("login_url",    "GET",  "/auth/login",                "auth"),
  Pub("login",        "POST", "/auth/login",                "auth"),
  Pub("logout",       "POST", "/auth/logout",               "auth"),
  Pub("callback",     "GET",  "/auth/callback",             "auth"),
  \* ---- testbed self-service (testbed.rs)
  Tb("tb_enabled",        "GET",    "/testbed/enabled"),
  Tb("tb_child_add",      "POST",   "/testbed/children"),
  Tb("tb_child_del",      "DELETE", "/testbed/children/{child}"),
  Tb("tb_child_resp",     "GET",    "/testbed/children/{child}/parent_response.xml"),
  Tb("tb_pub_add",        "POST",   "/testbed/publishers"),
  Tb("tb_pub_del",        "DELETE", "/testbed/publishers/{publisher}"),
  Tb("tb_pub_resp",       "GET",    "/testbed/publishers/{publisher}/response.xml"),
  \* ---- /api/v1 (api.rs)
  R("authorized", "GET", "/api/v1/authorized", "login", "api", "login", "none", "api"),
  \* ---- /api/v1/cas (cas.rs)
  R("cas_list",   "GET",  "/api/v1/cas", "listing", "cas", "ca-read", "ca", "cas"),
  R("cas_create", "POST", "/api/v1/cas", "perm", "cas", "ca-create", "none", "cas"),
  Ca("ca_show",        "GET",    "",                          "ca-read"),
  Ca("ca_delete",      "DELETE", "",                          "ca-delete"),
  Ca("aspas_show",     "GET",    "/aspas",                    "aspas-read"),
  Ca("aspas_update",   "POST",   "/aspas",                    "aspas-update"),
  Ca("aspas_as_update","POST",   "/aspas/as/{asn}",           "aspas-update"),
  Ca("aspas_as_delete","DELETE", "/aspas/as/{asn}",           "aspas-update"),
  Ca("bgpsec_show",    "GET",    "/bgpsec",                   "bgpsec-read"),
  Ca("bgpsec_update",  "POST",   "/bgpsec",                   "bgpsec-update"),
  Ca("child_add",      "POST",   "/children",                 "ca-update"),
  Ca("child_show",     "GET",    "/children/{child}",         "ca-read"),
  Ca("child_update",   "POST",   "/children/{child}",         "ca-update"),
  Ca("child_delete",   "DELETE", "/children/{child}",         "ca-update"),
  Ca("child_contact",  "GET",    "/children/{child}/contact", "ca-read"),
  Ca("child_resp_json","GET",    "/children/{child}/parent_response.json", "ca-read"),
  Ca("child_resp_xml", "GET",    "/children/{child}/parent_response.xml",  "ca-read"),
  Ca("child_export",   "GET",    "/children/{child}/export",  "ca-read"),
  Ca("child_import",   "POST",   "/children/{child}/import",  "ca-admin"),
  Ca("hist_commands",  "GET",    "/history/commands",         "ca-read"),
  Ca("hist_commands_n","GET",    "/history/commands/10/0",    "ca-read"),
  Ca("hist_details",   "GET",    "/history/details/0",        "ca-read"),
  Ca("id_update",      "POST",   "/id",                       "ca-update"),
  Ca("id_child_json",  "GET",    "/id/child_request.json",    "ca-read"),
  Ca("id_child_xml",   "GET",    "/id/child_request.xml",     "ca-read"),
  Ca("id_pub_json",    "GET",    "/id/publisher_request.json","ca-read"),
  Ca("id_pub_xml",     "GET",    "/id/publisher_request.xml", "ca-read"),
  Ca("issues",         "GET",    "/issues",                   "ca-read"),
  Ca("roll_init",      "POST",   "/keys/roll_init",           "ca-update"),
  Ca("roll_activate",  "POST",   "/keys/roll_activate",       "ca-update"),
  Ca("parents_show",   "GET",    "/parents",                  "ca-read"),
  Ca("parents_add",    "POST",   "/parents",                  "ca-update"),
  Ca("parent_show",    "GET",    "/parents/{parent}",         "ca-read"),
  Ca("parent_update",  "POST",   "/parents/{parent}",         "ca-update"),
  Ca("parent_delete",  "DELETE", "/parents/{parent}",         "ca-update"),
  Ca("repo_show",      "GET",    "/repo",                     "ca-read"),
  Ca("repo_update",    "POST",   "/repo",                     "ca-update"),
  Ca("repo_status",    "GET",    "/repo/status",              "ca-read"),
  Ca("routes_show",    "GET",    "/routes",                   "routes-read"),
  Ca("routes_update",  "POST",   "/routes",                   "routes-update"),
  Ca("routes_try",     "POST",   "/routes/try",               "routes-update"),
  Ca("routes_full",    "GET",    "/routes/analysis/full",     "routes-analysis"),
  Ca("routes_dryrun",  "POST",   "/routes/analysis/dryrun",   "routes-analysis"),
  Ca("routes_sugg_get","GET",    "/routes/analysis/suggest",  "routes-analysis"),
  Ca("routes_sugg_post","POST",  "/routes/analysis/suggest",  "routes-analysis"),
  Ca("stats_children", "GET",    "/stats/children/connections","ca-read"),
  Ca("sync_parents",   "POST",   "/sync/parents",             "ca-update"),
  Ca("sync_repo",      "POST",   "/sync/repo",                "ca-update"),
  \* ---- /api/v1/pubd (pubd.rs)
  Pd("pubd_delete",    "POST",   "/delete",                   "pub-admin"),
  Pd("pubd_init",      "POST",   "/init",                     "pub-admin"),
  Pd("pubd_clear",     "DELETE", "/init",                     "pub-admin"),
  Pd("pubd_list",      "GET",    "/publishers",               "pub-list"),
  Pd("pubd_add",       "POST",   "/publishers",               "pub-create"),
  Pd("pubd_show",      "GET",    "/publishers/{publisher}",   "pub-read"),
  Pd("pubd_remove",    "DELETE", "/publishers/{publisher}",   "pub-delete"),
  Pd("pubd_resp_json", "GET",    "/publishers/{publisher}/response.json", "pub-read"),
  Pd("pubd_resp_xml",  "GET",    "/publishers/{publisher}/response.xml",  "pub-read"),
  Pd("pubd_reset",     "POST",   "/session_reset",            "pub-admin"),
  Pd("pubd_stale",     "GET",    "/stale",                    "pub-list"),
  Pd("pubd_stale_n",   "GET",    "/stale/3600",               "pub-list"),
  \* ---- /api/v1/ta (ta.rs): trust anchor proxy, administrative throughout
  Ta("ta_children_list", "GET",    "/children"),
  Ta("ta_child_add",     "POST",   "/children"),
  Ta("ta_child_update",  "POST",   "/children/{child}"),
  Ta("ta_child_delete",  "DELETE", "/children/{child}"),
  Ta("ta_child_json",    "GET",    "/children/{child}/parent_response.json"),
  Ta("ta_child_xml",     "GET",    "/children/{child}/parent_response.xml"),
  Ta("ta_init",          "POST",   "/init"),
  Ta("ta_id",            "GET",    "/id"),
  Ta("ta_repo_show",     "GET",    "/repo"),
  Ta("ta_repo_update",   "POST",   "/repo"),
  Ta("ta_repo_req_json", "GET",    "/repo/request.json"),
  Ta("ta_repo_req_xml",  "GET",    "/repo/request.xml"),
  Ta("ta_signer_add",    "POST",   "/signer/add"),
  Ta("ta_signer_req_get","GET",    "/signer/request"),
  Ta("ta_signer_req_make","POST",  "/signer/request"),
  Ta("ta_signer_resp",   "POST",   "/signer/response"),
  Ta("ta_signer_update", "POST",   "/signer/update"),
  \* ---- /api/v1/bulk (bulk.rs)
  Bk("bulk_import",      "POST",   "/import"),
  R("bulk_issues", "GET", "/api/v1/bulk/cas/issues", "listing", "bulk", "ca-read", "ca", "bulk"),
  Bk("bulk_sync_parent", "POST",   "/sync/parent"),
  Bk("bulk_sync_repo",   "POST",   "/sync/repo"),
  Bk("bulk_publish",     "POST",   "/publish"),
  Bk("bulk_force_publish","POST",  "/force_publish"),
  Bk("bulk_suspend",     "POST",   "/suspend")
>>

\* routes below /api/v1
IsApi(r) == r.area \in {"api", "cas", "ca", "pubd", "ta", "bulk"}

RouteIds == { Routes[i].id : i \in 1..Len(Routes) }
RouteOf(id) == Routes[CHOOSE i \in 1..Len(Routes) : Routes[i].id = id]

\* The set that the property names as reachable without credentials.
PublicIds == { "index", "assets", "ui", "ui_sub", "health", "metrics",
               "rfc8181", "rfc6492", "rrdp", "ta_tal", "ta_cer",
               "testbed_tal", "stats_info", "stats_repo", "stats_cas",
               "login_url", "login", "logout", "callback" }
TestbedIds == { "tb_enabled", "tb_child_add", "tb_child_del", "tb_child_resp",
                "tb_pub_add", "tb_pub_del", "tb_pub_resp" }

Methods == {"GET", "POST", "DELETE"}
Kinds == {"public", "testbed", "login", "listing", "perm"}

(***************************************************************************)
(* Internal sanity of the table (checked by TLC as ASSUME in MC_Authz).    *)
(***************************************************************************)
TableSane ==
    /\ \A i, j \in 1..Len(Routes) :
           i # j => /\ Routes[i].id # Routes[j].id
                    /\ <<Routes[i].m, Routes[i].path>>
                           # <<Routes[j].m, Routes[j].path>>
    /\ \A i \in 1..Len(Routes) :
           LET r == Routes[i] IN
           /\ r.m \in Methods
           /\ r.kind \in Kinds
           /\ r.res \in {"ca", "none"}
           /\ r.kind \in {"perm", "login", "listing"} => r.perm \in Perms
           /\ r.kind \in {"public", "testbed"} => r.perm = ""
           \* everything that needs a permission is under the versioned API
           \* and vice versa
           /\ (r.kind \in {"perm", "login", "listing"}) <=> IsApi(r)
           /\ (r.res = "ca" /\ r.kind = "perm") <=> (r.area = "ca")
    /\ { r \in RouteIds : RouteOf(r).kind = "public" } = PublicIds
    /\ { r \in RouteIds : RouteOf(r).kind = "testbed" } = TestbedIds
    \* an operation that changes state never gets by with a read permission
    /\ \A i \in 1..Len(Routes) :
           LET r == Routes[i] IN
           (r.kind = "perm" /\ r.m \in {"POST", "DELETE"}
              /\ r.id \notin {"routes_dryrun", "routes_sugg_post"})
             => r.perm \notin {"ca-read", "ca-list", "pub-read", "pub-list",
                               "routes-read", "routes-analysis", "aspas-read",
                               "bgpsec-read", "rta-read", "rta-list", "login"}

\* What a route needs: pairs <<permission, resource kind>>.
Gate(r) == CASE r.area = "ca"   -> {<<"ca-read", "ca">>}
             [] r.area = "pubd" -> {<<"pub-admin", "none">>}
             [] OTHER           -> {}

Need(r) ==
    CASE r.kind \in {"public", "testbed"} -> {}
      [] r.kind \in {"login", "listing"}  -> {<<"login", "none">>}
      [] OTHER -> {<<"login", "none">>} \cup Gate(r) \cup {<<r.perm, r.res>>}

(***************************************************************************)
(* 2. Roles (src/daemon/http/auth/roles.rs:129-146).                       *)
(*    A role is [none, any : SUBSET Perms, specific : [CAs -> SUBSET       *)
(*    Perms]] (specific is a function with a finite domain).               *)
(***************************************************************************)
Allowed(role, perm, res) ==
    IF res # NoCA /\ res \in DOMAIN role.specific
    THEN perm \in role.specific[res]
    ELSE IF res # NoCA THEN perm \in role.any
    ELSE perm \in role.none

NoSpecific == [c \in {} |-> {}]

Simple(S)        == [none |-> S, any |-> S, specific |-> NoSpecific]
Scoped(S, C)     == [none |-> S, any |-> {}, specific |-> [c \in C |-> S]]
Complex(n, a, s) == [none |-> n, any |-> a, specific |-> s]

AdminRole  == Simple(Perms)
NobodyRole == Simple({})

Permitted(role, r, ca) ==
    \A n \in Need(r) :
        Allowed(role, n[1], IF n[2] = "ca" THEN ca ELSE NoCA)

(***************************************************************************)
(* 3. Provider chain (authorizer.rs:255-300) and login                     *)
(*    (providers/config_file.rs:160-276).                                  *)
(*                                                                         *)
(* A configuration is                                                      *)
(*   users     : user name -> [pw, role]   (role = name of a role)         *)
(*   roles     : role name -> role                                         *)
(*   unixUsers : system user -> role name                                  *)
(* A request carries                                                       *)
(*   bearer    : [kind |-> "none"]                                         *)
(*             | [kind |-> "admin"]            the admin token verbatim    *)
(*             | [kind |-> "session", user, role, issuer]                  *)
(*                    a token that a login of `issuer` ("this" or          *)
(*                    "other" instance) issued for user with role name     *)
(*             | [kind |-> "junk"]             any other string            *)
(*   transport : "tcp" | "unix"                                            *)
(*   peer      : system user at the other end of the Unix socket, or ""    *)
(***************************************************************************)
Nobody == [id |-> "", role |-> NobodyRole]

ActsAs(cfg, req) ==
    IF req.bearer.kind = "admin"
    THEN [id |-> "admin-token", role |-> AdminRole]
    ELSE IF /\ req.bearer.kind = "session"
            /\ req.bearer.issuer = "this"
            /\ req.bearer.role \in DOMAIN cfg.roles
    THEN [id |-> req.bearer.user, role |-> cfg.roles[req.bearer.role]]
    ELSE IF /\ req.transport = "unix"
            /\ req.peer \in DOMAIN cfg.unixUsers
            /\ cfg.unixUsers[req.peer] \in DOMAIN cfg.roles
    THEN [id |-> req.peer, role |-> cfg.roles[cfg.unixUsers[req.peer]]]
    ELSE Nobody

\* Login: the user name is looked up as given; the password is compared
\* modulo surrounding white space and Unicode NFKC normalisation, which the
\* caller expresses by passing the normal form of what was typed.
LoginSucceeds(cfg, name, pwNormal) ==
    /\ name \in DOMAIN cfg.users
    /\ cfg.users[name].pw = pwNormal
    /\ cfg.users[name].role \in DOMAIN cfg.roles
    /\ Allowed(cfg.roles[cfg.users[name].role], "login", NoCA)

\* The session a successful login yields.
SessionOf(cfg, name) ==
    [kind |-> "session", user |-> name, role |-> cfg.users[name].role,
     issuer |-> "this"]

(***************************************************************************)
(* Verdicts.                                                               *)
(***************************************************************************)
\* "absent": the route does not exist in this mode (404)
\* "served": the request got past authorisation
\* "refused": 401 / 403, and no effect
Verdict(r, actor, ca, testbed) ==
    IF r.kind = "testbed" /\ ~testbed THEN "absent"
    ELSE IF r.kind \in {"public", "testbed"} THEN "served"
    ELSE IF Permitted(actor.role, r, ca) THEN "served"
    ELSE "refused"

\* A method the table does not list for a path (asked by the admin).
NoMethodVerdict(r, testbed) ==
    IF r.kind = "testbed" /\ ~testbed THEN "absent" ELSE "nomethod"

\* CAs a listing shows to the actor, out of those that exist.
Shown(actor, existing) ==
    { c \in existing : Allowed(actor.role, "ca-read", c) }

(***************************************************************************)
(* Properties of the decision functions themselves (checked in MC_Authz).  *)
(***************************************************************************)
\* Without credentials (over TCP, or over the socket from an unmapped user)
\* exactly the public set (plus testbed routes in testbed mode) is served.
AnonymousReq(t) == [bearer |-> [kind |-> "none"], transport |-> t, peer |-> ""]

PublicExactly(cfg) ==
    \A id \in RouteIds, tb \in BOOLEAN, t \in {"tcp", "unix"} :
        LET r == RouteOf(id)
            v == Verdict(r, ActsAs(cfg, AnonymousReq(t)), "ca1", tb)
        IN  /\ (v = "served") <=> (id \in PublicIds \/ (tb /\ id \in TestbedIds))
            /\ (v = "absent") <=> (~tb /\ id \in TestbedIds)

\* Nothing under the versioned API is served without login.
LoginEverywhere ==
    \A id \in RouteIds :
        LET r == RouteOf(id) IN
        IsApi(r)
          => Verdict(r, [id |-> "x", role |-> Simple(Perms \ {"login"})],
                     "ca1", TRUE) = "refused"

\* A per-CA entry wins over the blanket grant, in both directions.
SpecificWins ==
    \A id \in RouteIds :
        LET r == RouteOf(id) IN
        (r.kind = "perm" /\ r.res = "ca") =>
            /\ Verdict(r, [id |-> "x", role |->
                   Complex(Perms, Perms, [c \in {"ca1"} |-> Perms \ {r.perm}])],
                   "ca1", TRUE) = "refused"
            /\ Verdict(r, [id |-> "x", role |->
                   Complex({"login"}, {}, [c \in {"ca1"} |-> Perms])],
                   "ca1", TRUE) = "served"
=============================================================================
