------------------------------ MODULE UpDownAuth ------------------------------
(***************************************************************************)
(* C12: up-down (RFC 6492) and publication (RFC 8181) requests act only    *)
(* for the registered identity key.                                        *)
(*                                                                         *)
(* World (fixed; the harness builds exactly this on a real KrillRuntime):  *)
(*   CA servers  P (the parent under test) and O (another CA in the same   *)
(*   daemon); publication server R.                                        *)
(*   P has children c1 (entitled r1,r2; identity k1) and c2 (r3; k2);      *)
(*   O has a child that is also called c1 (r4; identity k5).               *)
(*   R has publishers p1 (identity q1) and p2 (q2); their base URIs hold   *)
(*   p1/x, p1/y and p2/x; zz/x is outside every base URI.                  *)
(*                                                                         *)
(* A message is a record                                                   *)
(*   [p, key, snd, rcp, tgt, kind, ckey, lim, uri, val, tam]               *)
(*   p    "ud" (RFC 6492) or "pub" (RFC 8181)                              *)
(*   key  the identity key the CMS is signed under                         *)
(*   snd  the sender claimed (sender handle of the RFC 6492 message, the   *)
(*        publisher handle of the RFC 8181 end point)                      *)
(*   rcp  recipient handle written into the RFC 6492 message               *)
(*   tgt  the server whose end point receives the bytes                    *)
(*   kind list/issue/revoke, list/publish/withdraw                         *)
(*   ckey, lim  certificate key and resource limit of issue/revoke         *)
(*   uri, val   object of publish/withdraw                                 *)
(*   tam  "none", or the field in which the delivered content differs      *)
(*        from the content that was signed (signature left as it was)      *)
(*                                                                         *)
(* A child that was suspended as inactive is re-activated by any request   *)
(* that is acted upon - and only by such a request.                        *)
(*                                                                         *)
(* The statement demands (no more): a request is acted upon ONLY IF it is  *)
(* Valid; anything else is refused with no change at all; an accepted      *)
(* request touches only the sender's own certificates/objects within its   *)
(* entitlement/base URI; every signed reply carries the server's current   *)
(* identity key.  It does not demand that a valid request is performed,    *)
(* nor that the recipient handle is compared (see CheckRecipient).         *)
(***************************************************************************)
EXTENDS Naturals, FiniteSets, Sequences, TLC

CONSTANTS
    MaxGen,          \* bound on identity generations of a server (model)
    CheckRecipient,  \* model only: does the server compare the recipient?
    CaKeys,          \* certificate keys requested: subset of {a1, a2, b1}
    Lims,            \* resource limits requested (None = no limit)
    Uris, Vals,      \* objects published
    Updatable,       \* <<server, handle>> pairs whose identity may change
    Suspendable,     \* <<server, child>> pairs that may be suspended
    Mutant           \* "none", or a deliberately wrong server model used to
                     \* show that the properties are not vacuous

CaServers == {"P", "O"}
Servers == CaServers \cup {"R"}
Handles6492 == {"c1", "c2", "cx"}
Handles8181 == {"p1", "p2", "px"}
Atoms == {"r1", "r2", "r3", "r4"}
None == {"none"}                       \* "no resource limit"

Ent == [P |-> [c1 |-> {"r1", "r2"}, c2 |-> {"r3"}], O |-> [c1 |-> {"r4"}]]
Base == [p1 |-> {"p1/x", "p1/y"}, p2 |-> {"p2/x"}]

Reg0 == [P |-> [c1 |-> "k1", c2 |-> "k2"], O |-> [c1 |-> "k5"],
         R |-> [p1 |-> "q1", p2 |-> "q2"]]
\* the identity a child / publisher changes to (one change each)
NextKey == [P |-> [c1 |-> "k3", c2 |-> "k4"], O |-> [c1 |-> "k6"],
            R |-> [p1 |-> "q3", p2 |-> "q4"]]

\* signing keys tried: every identity that is or will be registered
\* somewhere, an unregistered one (kr), and the servers' own identity keys
Keys6492 == {"k1", "k2", "k3", "k4", "k5", "kr", "sP", "sO"}
Keys8181 == {"q1", "q2", "q3", "kr", "k1"}
\* the full universe used for the real code (generator, trace)
AllCaKeys == {"a1", "a2", "b1"}
AllLims == {None, {"r1"}, {"r3"}}
AllUris == {"p1/x", "p1/y", "p2/x", "zz/x"}
AllVals == {"d1", "d2"}
AllSuspendable == {<<"P", "c1">>, <<"P", "c2">>, <<"O", "c1">>}
AllUpdatable == {<<"P", "c1">>, <<"P", "c2">>, <<"O", "c1">>,
                 <<"R", "p1">>, <<"R", "p2">>, <<"P", "P">>, <<"O", "O">>}

Msgs6492 ==
    [p : {"ud"}, key : Keys6492, snd : Handles6492, rcp : CaServers,
     tgt : CaServers, kind : {"list"}, ckey : {"-"}, lim : {None},
     uri : {"-"}, val : {"-"}, tam : {"none", "snd", "rcp"}]
    \cup
    [p : {"ud"}, key : Keys6492, snd : Handles6492, rcp : CaServers,
     tgt : CaServers, kind : {"issue"}, ckey : CaKeys, lim : Lims,
     uri : {"-"}, val : {"-"}, tam : {"none", "snd", "rcp", "pay"}]
    \cup
    [p : {"ud"}, key : Keys6492, snd : Handles6492, rcp : CaServers,
     tgt : CaServers, kind : {"revoke"}, ckey : CaKeys, lim : {None},
     uri : {"-"}, val : {"-"}, tam : {"none", "snd", "rcp", "pay"}]

Msgs8181 ==
    [p : {"pub"}, key : Keys8181, snd : Handles8181, rcp : {"R"},
     tgt : {"R"}, kind : {"list"}, ckey : {"-"}, lim : {None},
     uri : {"-"}, val : {"-"}, tam : {"none"}]
    \cup
    [p : {"pub"}, key : Keys8181, snd : Handles8181, rcp : {"R"},
     tgt : {"R"}, kind : {"publish"}, ckey : {"-"}, lim : {None},
     uri : Uris, val : Vals, tam : {"none", "uri", "pay"}]
    \cup
    [p : {"pub"}, key : Keys8181, snd : Handles8181, rcp : {"R"},
     tgt : {"R"}, kind : {"withdraw"}, ckey : {"-"}, lim : {None},
     uri : Uris, val : {"-"}, tam : {"none", "uri"}]

Msgs == Msgs6492 \cup Msgs8181

VARIABLES
    reg,    \* reg[s][h]: identity key registered at server s for handle h
    srv,    \* srv[s]: generation of the identity key of server s
    iss,    \* iss[s][c]: certificates <<ckey, resources>> issued to child c
    pub,    \* pub[p]: objects <<uri, content>> published by publisher p
    seen,   \* seen[s][c]: exchanges recorded in the status of child c
    susp,   \* susp[s][c]: child c is suspended (inactive); any request that
            \* is acted upon re-activates it first
    held    \* held[s][c]: certificates of a suspended child (withdrawn
            \* while suspended, back when it is re-activated)

vars == <<reg, srv, iss, pub, seen, susp, held>>

Init ==
    /\ reg = Reg0
    /\ srv = [s \in Servers |-> 1]
    /\ iss = [P |-> [c1 |-> {}, c2 |-> {}], O |-> [c1 |-> {}]]
    /\ pub = [p1 |-> {}, p2 |-> {}]
    /\ seen = [P |-> [c1 |-> 0, c2 |-> 0], O |-> [c1 |-> 0]]
    /\ susp = [P |-> [c1 |-> FALSE, c2 |-> FALSE], O |-> [c1 |-> FALSE]]
    /\ held = [P |-> [c1 |-> {}, c2 |-> {}], O |-> [c1 |-> {}]]

Registered(s, h) == IF h \in DOMAIN reg[s] THEN reg[s][h] ELSE "none"

\* The one condition under which a request may be acted upon.
Valid(m) ==
    /\ m.tam = "none"
    /\ Registered(m.tgt, m.snd) = m.key

\* the certificates of a child, whether it is suspended or not
Own(s, c) == IF susp[s][c] THEN held[s][c] ELSE iss[s][c]
KeysOf(s, c) == {x[1] : x \in Own(s, c)}
OthersKeys(s, c) == UNION {KeysOf(s, d) : d \in DOMAIN iss[s] \ {c}}
UrisOf(p) == {x[1] : x \in pub[p]}

-----------------------------------------------------------------------------
(* What the three kinds of outcome may do to the state (relations between  *)
(* the unprimed and the primed state; used by the model, by the model      *)
(* checked properties and by the trace specification).                     *)

OthersUntouched(m) ==
    /\ reg' = reg /\ srv' = srv
    /\ IF m.p = "ud"
       THEN /\ pub' = pub
            /\ \A s \in CaServers : \A d \in DOMAIN iss[s] :
                 (s # m.tgt \/ d # m.snd) =>
                     /\ iss'[s][d] = iss[s][d]
                     /\ seen'[s][d] = seen[s][d]
                     /\ susp'[s][d] = susp[s][d]
                     /\ held'[s][d] = held[s][d]
            /\ seen'[m.tgt][m.snd] >= seen[m.tgt][m.snd]
            \* the sender has shown that it is active
            /\ ~susp'[m.tgt][m.snd] /\ held'[m.tgt][m.snd] = {}
       ELSE /\ iss' = iss /\ seen' = seen /\ susp' = susp /\ held' = held
            /\ \A q \in DOMAIN pub : q # m.snd => pub'[q] = pub[q]

\* An accepted (performed) request: only the sender's own things, within
\* its entitlement / base URI.
PerformOk(m) ==
    /\ OthersUntouched(m)
    /\ IF m.p = "ud"
       THEN LET s == m.tgt  c == m.snd  old == Own(s, c) IN
            CASE m.kind = "list" -> iss'[s][c] = old
              [] m.kind = "issue" ->
                    \E R \in (SUBSET Ent[s][c]) \ {{}} :
                        /\ m.lim = None \/ R \subseteq m.lim
                        /\ iss'[s][c] = {x \in old : x[1] # m.ckey}
                                            \cup {<<m.ckey, R>>}
              [] m.kind = "revoke" ->
                    iss'[s][c] = {x \in old : x[1] # m.ckey}
       ELSE LET q == m.snd  old == pub[q] IN
            CASE m.kind = "list" -> pub'[q] = old
              [] m.kind = "publish" ->
                    /\ m.uri \in Base[q]
                    /\ pub'[q] = {x \in old : x[1] # m.uri}
                                    \cup {<<m.uri, m.val>>}
              [] m.kind = "withdraw" ->
                    /\ m.uri \in Base[q]
                    /\ pub'[q] = {x \in old : x[1] # m.uri}

\* A valid request that is answered with an error: nothing but the status
\* of the sender may change.
DeclineOk(m) ==
    /\ OthersUntouched(m)
    /\ IF m.p = "ud" THEN iss'[m.tgt][m.snd] = Own(m.tgt, m.snd)
                     ELSE pub'[m.snd] = pub[m.snd]

RefuseOk == UNCHANGED vars

-----------------------------------------------------------------------------
(* The three parts of the property, for one request step.  `out` is        *)
(* "ok" (a positive reply was returned), anything else is an error;        *)
(* `rk` is the server key a signed reply validates under ("none" if no     *)
(* signed reply), `untouched` says that no stored state changed.           *)

CurrentKey(m) == m.tgt \o ToString(srv[m.tgt])

RefusedUnchangedStep(m, out, untouched) ==
    ~Valid(m) => /\ out # "ok"
                 /\ untouched
                 /\ RefuseOk

EffectsWithinSenderStep(m, out) ==
    Valid(m) => IF out = "ok" THEN PerformOk(m) ELSE DeclineOk(m)

ReplySignedByCurrentServerKeyStep(m, out, rk) ==
    /\ out = "ok" => rk # "none"
    /\ rk # "none" => rk = CurrentKey(m)

-----------------------------------------------------------------------------
(* The model of the servers: what krill is designed to do.                 *)

PayloadOk(m) ==
    IF m.p = "ud"
    THEN CASE m.kind = "list" -> TRUE
           [] m.kind = "issue" ->
                /\ Mutant = "otherscert"
                        \/ m.ckey \notin OthersKeys(m.tgt, m.snd)
                /\ m.lim = None \/ m.lim \subseteq Ent[m.tgt][m.snd]
           [] m.kind = "revoke" -> m.ckey \in KeysOf(m.tgt, m.snd)
    ELSE CASE m.kind = "list" -> TRUE
           [] m.kind = "publish" ->
                Mutant = "nojail" \/ m.uri \in Base[m.snd]
           [] m.kind = "withdraw" ->
                m.uri \in Base[m.snd] /\ m.uri \in UrisOf(m.snd)

Accepts(m) ==
    /\ CASE Mutant = "skipsig" ->      \* signature not validated at all
                m.tam = "none" /\ Registered(m.tgt, m.snd) # "none"
         [] Mutant = "anychild" ->     \* validated against any child's key
                /\ m.tam = "none" /\ Registered(m.tgt, m.snd) # "none"
                /\ \E h \in DOMAIN reg[m.tgt] : reg[m.tgt][h] = m.key
         [] Mutant = "notamper" ->     \* digest of the content not compared
                Registered(m.tgt, m.snd) = m.key
         [] OTHER -> Valid(m)
    /\ CheckRecipient => m.rcp = m.tgt

\* the key the model signs replies with
ModelKey(m) == IF Mutant = "stalekey" THEN m.tgt \o "1" ELSE CurrentKey(m)

Bump(m) == IF m.p = "ud"
           THEN /\ seen' = [seen EXCEPT ![m.tgt][m.snd] = @ + 1]
                /\ susp' = [susp EXCEPT ![m.tgt][m.snd] = FALSE]
                /\ held' = [held EXCEPT ![m.tgt][m.snd] = {}]
           ELSE seen' = seen /\ susp' = susp /\ held' = held

Perform(m) ==
    /\ Bump(m) /\ UNCHANGED <<reg, srv>>
    /\ IF m.p = "ud"
       THEN /\ pub' = pub
            /\ LET s == m.tgt  c == m.snd  old == Own(s, c) IN
               CASE m.kind = "list" -> iss' = [iss EXCEPT ![s][c] = old]
                 [] m.kind = "issue" ->
                      iss' = [iss EXCEPT ![s][c] =
                          {x \in old : x[1] # m.ckey} \cup
                          {<<m.ckey,
                             IF m.lim = None THEN Ent[s][c] ELSE m.lim>>}]
                 [] m.kind = "revoke" ->
                      iss' = [iss EXCEPT ![s][c] =
                          {x \in old : x[1] # m.ckey}]
       ELSE /\ iss' = iss
            /\ LET q == m.snd  old == pub[q] IN
               CASE m.kind = "list" -> pub' = pub
                 [] m.kind = "publish" ->
                      pub' = [pub EXCEPT ![q] =
                          {x \in old : x[1] # m.uri}
                              \cup {<<m.uri, m.val>>}]
                 [] m.kind = "withdraw" ->
                      pub' = [pub EXCEPT ![q] = {x \in old : x[1] # m.uri}]

Decline(m) ==
    /\ Bump(m) /\ UNCHANGED <<reg, srv, pub>>
    /\ iss' = IF m.p = "ud"
              THEN [iss EXCEPT ![m.tgt][m.snd] = Own(m.tgt, m.snd)]
              ELSE iss

\* outcome of the model for message m: <<out, rk>>
Outcome(m) ==
    IF Accepts(m)
    THEN IF PayloadOk(m) THEN <<"ok", ModelKey(m)>>
         \* RFC 8181 errors are reported in a signed error reply, RFC 6492
         \* processing errors as a plain error
         ELSE <<"err", IF m.p = "pub" THEN ModelKey(m) ELSE "none">>
    ELSE <<"err", "none">>

Request(m) ==
    IF Accepts(m)
    THEN IF PayloadOk(m) THEN Perform(m) ELSE Decline(m)
    ELSE UNCHANGED vars

\* identity updates
ChildId(s, c) ==
    /\ s \in CaServers /\ c \in DOMAIN reg[s] /\ <<s, c>> \in Updatable
    /\ reg[s][c] # NextKey[s][c]
    /\ reg' = [reg EXCEPT ![s][c] = NextKey[s][c]]
    /\ UNCHANGED <<srv, iss, pub, seen, susp, held>>

ServerId(s) ==
    /\ s \in CaServers /\ srv[s] < MaxGen /\ <<s, s>> \in Updatable
    /\ srv' = [srv EXCEPT ![s] = @ + 1]
    /\ UNCHANGED <<reg, iss, pub, seen, susp, held>>

\* a publisher is removed and registered again with a new identity: its
\* objects are gone (administrative action, not a protocol request)
PubReReg(q) ==
    /\ q \in DOMAIN reg["R"] /\ <<"R", q>> \in Updatable
    /\ reg["R"][q] # NextKey["R"][q]
    /\ reg' = [reg EXCEPT !["R"][q] = NextKey["R"][q]]
    /\ pub' = [pub EXCEPT ![q] = {}]
    /\ UNCHANGED <<srv, iss, seen, susp, held>>

\* an inactive child is suspended by the parent (administrative action):
\* its certificates are withdrawn until it shows up again
Suspend(s, c) ==
    /\ <<s, c>> \in Suspendable /\ ~susp[s][c]
    /\ iss[s][c] # {}      \* (krill: no-op for a child without certificates)
    /\ susp' = [susp EXCEPT ![s][c] = TRUE]
    /\ held' = [held EXCEPT ![s][c] = iss[s][c]]
    /\ iss' = [iss EXCEPT ![s][c] = {}]
    /\ UNCHANGED <<reg, srv, pub, seen>>

IdentityUpdate ==
    \/ \E s \in CaServers : \E c \in DOMAIN reg[s] : ChildId(s, c)
    \/ \E s \in CaServers : ServerId(s)
    \/ \E q \in DOMAIN reg["R"] : PubReReg(q)
    \/ \E x \in Suspendable : Suspend(x[1], x[2])

Next == (\E m \in Msgs : Request(m)) \/ IdentityUpdate

Spec == Init /\ [][Next]_vars

TypeOK ==
    /\ \A s \in CaServers : \A c \in DOMAIN iss[s] :
         \A x \in iss[s][c] : x[1] \in AllCaKeys /\ x[2] \subseteq Atoms
    /\ \A q \in DOMAIN pub : \A x \in pub[q] : x[1] \in AllUris

\* State form of "within its entitlement or base URI".
WithinScope ==
    /\ \A s \in CaServers : \A c \in DOMAIN iss[s] :
         \A x \in iss[s][c] \cup held[s][c] :
            x[2] \subseteq Ent[s][c] /\ x[2] # {}
    /\ \A q \in DOMAIN pub : \A x \in pub[q] : x[1] \in Base[q]

\* a certificate key is held by one child of a server only (in the model;
\* on the real code a violation shows up as EffectsWithinSender)
KeysExclusive ==
    \A s \in CaServers : \A c, d \in DOMAIN iss[s] :
        c # d => KeysOf(s, c) \cap KeysOf(s, d) = {}
=============================================================================
