\* 3 threads on one aggregate, 2 operations each
CONSTANTS
  t1 = t1
  t2 = t2
  t3 = t3
  e1 = e1
  e2 = e2
  w1 = w1
  n1 = n1
  Threads = {t1,t2,t3}
  Entities = {e1}
  WalEntities = {}
  NewEntities = {}
  MaxOps = 2
  Ops = {"ok","reject","presave_fail","read"}
  LockMode = "write"
SPECIFICATION Spec
INVARIANT Safety
PROPERTY AppendOnly
CHECK_DEADLOCK TRUE
SYMMETRY SymTE
