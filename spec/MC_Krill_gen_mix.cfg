CONSTANTS
  Top = "A"
  CaOf <- SecondSlots
  ShadowRebuilt = TRUE
  Sub = {"B", "C", "C2"}
  Res = {"p1", "p2", "a1"}
  TopRes = {"p1", "p2", "a1"}
  Roa <- GenRoaAspa
  AspaDefs <- GenAspa
  ParentOf <- GenChain
  Ops = {"parents", "res", "suspend", "remove", "roa", "roadelta", "aspa", "roll", "delete", "refresh", "map", "restart"}
  Depth = 34
  MaxApiStreak = 2
  MaxDestr = 1
  MftDue = FALSE
  ObjDue = FALSE
INIT GenInit
NEXT GenNext
INVARIANT PrintBehaviour
CHECK_DEADLOCK FALSE
