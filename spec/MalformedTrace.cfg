CONSTANTS
  MaxVersion = 2
SPECIFICATION TraceSpec
INVARIANT TraceInvariant
POSTCONDITION TraceAccepted
CHECK_DEADLOCK FALSE
