-------------------------- MODULE MC_PubServer_gen --------------------------
(* Behaviour generator for PubServer (C10): the base actions plus a        *)
(* history variable with the action labels.  Deltas are drawn with         *)
(* RandomElement from three classes so that simulation is not drowned in   *)
(* refused requests: acceptable deltas, acceptable deltas plus exactly one *)
(* unacceptable element (atomicity), and arbitrary ones.                   *)
EXTENDS MC_PubServer, Json

CONSTANTS Depth, MaxStreak, MaxElems,
          Exhaustive   \* TRUE: every delta of DeltaChoices instead of drawn ones

VARIABLES hist, streak

gvars == <<pubs, cur, staged, session, serial, deltas, view, last, hist, streak>>

GenInit == Init /\ hist = <<>> /\ streak = 0

\* a delta is acceptable iff each of its elements is: build the acceptable
\* deltas from the acceptable elements (cheap)
GoodElems(p) == LET O == Objs(p) IN {e \in Elements : AcceptableOn(O, p, {e})}
Good(p) == LET ge == GoodElems(p)
           IN  {E \in SUBSET ge : E # {} /\ WellFormed(E) /\ Cardinality(E) <= MaxElems}
\* one element that is unacceptable on its own, on a URI the delta leaves alone
BadElems(p, G) == LET O == Objs(p)
                  IN  {e \in Elements : e.u \notin ElemUris(G) /\ ~AcceptableOn(O, p, {e})}

Pick(S) == RandomElement(S)

DeltaStep(p, E) ==
    Delta(p, E) /\ hist' = Append(hist, [a |-> "Delta", p |-> p, elems |-> E])

GoodStep(p) == LET good == Good(p)
               IN  good # {} /\ DeltaStep(p, Pick(good))
NearMissStep(p) == LET G == Pick(Good(p) \cup {{}})
                       bad == BadElems(p, G)
                   IN  bad # {} /\ DeltaStep(p, G \cup {Pick(bad)})

GenNext ==
    \/ /\ streak < MaxStreak /\ streak' = streak + 1
       /\ \/ \E p \in Pubs : AddPublisher(p) /\ hist' = Append(hist, [a |-> "Add", p |-> p])
          \/ \E p \in pubs : RemovePublisher(p) /\ hist' = Append(hist, [a |-> "Remove", p |-> p])
          \/ \E p \in Pubs : List(p) /\ hist' = Append(hist, [a |-> "List", p |-> p])
          \/ SessionReset /\ hist' = Append(hist, [a |-> "Reset", cut |-> 0])
    \/ /\ streak' = 0
       /\ \/ Exhaustive /\ \E p \in Pubs, E \in DeltaChoices : DeltaStep(p, E)
          \/ ~Exhaustive /\ \E p \in pubs : GoodStep(p)
          \/ ~Exhaustive /\ \E p \in pubs : NearMissStep(p)
          \/ ~Exhaustive /\ \E p \in Pubs : DeltaStep(p, Pick(DeltaChoices))
          \/ \E p \in Pubs \ pubs : RemovePublisher(p) /\ hist' = Append(hist, [a |-> "Remove", p |-> p])
          \/ RrdpUpdate /\ hist' = Append(hist, [a |-> "Update", cut |-> 0])

GenSpec == GenInit /\ [][GenNext]_gvars

DepthBound == Len(hist) <= Depth

PrintBehaviour ==
    Len(hist) = Depth => PrintT(<<"REPLAY", ToJson([actions |-> hist])>>)
=============================================================================
