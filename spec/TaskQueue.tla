--------------------------- MODULE TaskQueue ---------------------------
(***************************************************************************)
(* The durable task queue of Krill and its start-up logic.                 *)
(*                                                                         *)
(* Anchors: src/commons/queue.rs (Queue: schedule_task with its five       *)
(* ScheduleModes, claim_scheduled_pending_task, finish_running_task,       *)
(* reschedule_running_task), src/server/mq.rs (TaskQueue::schedule /       *)
(* schedule_missing / schedule_and_finish_existing / reschedule /          *)
(* reschedule_tasks_at_startup), src/server/manager.rs:71-81               *)
(* (run_scheduler), src/server/scheduler.rs:42-125 (the run loop and how   *)
(* it applies a TaskResult), scheduler.rs:197-312 (queue_start_tasks).     *)
(*                                                                         *)
(* One action per queue operation (each runs under the namespace-wide      *)
(* write lock, so each is atomic).  Storage keys "<millis>-<name>" in the  *)
(* "pending" scope are modelled as <<ts, name>> pairs; storing an equal    *)
(* key overwrites.  The "running" scope is a bag of names (the running key *)
(* carries the claim time, which plays no role).  Quirks of the code are   *)
(* modelled, not idealised:                                                *)
(*  - Replace* modes do not look at "running";                             *)
(*  - reschedule moves running -> pending without merging, so two pending  *)
(*    entries with the same name can exist;                                *)
(*  - look-ups by name take the first match in listing order, i.e. an      *)
(*    arbitrary one;                                                       *)
(*  - one scheduler thread: only the task claimed last (cur) is ever       *)
(*    finished, rescheduled or followed up.                                *)
(***************************************************************************)
EXTENDS Naturals, FiniteSets, TLC

CONSTANTS
    Names,          \* task names
    Recurring,      \* subset of Names: what queue_start_tasks schedules
    StartTask,      \* the name of Task::QueueStartTasks
    MaxTs,          \* timestamps are 0..MaxTs
    MaxRun,         \* bound on running entries per name (model bound)
    MaxDup,         \* bound on pending entries with equal abstract key
    RequeueMin,     \* reschedule_tasks_at_startup acts iff
                    \*   (number of running entries) >= RequeueMin
    ModesUsed       \* which ScheduleModes the environment uses

ASSUME Recurring \subseteq Names /\ StartTask \in Names \ Recurring

AllModes == {"IfMissing", "ReplaceExisting", "ReplaceExistingSoonest",
             "FinishOrReplaceExisting", "FinishOrReplaceExistingSoonest"}
\* the modes reachable through TaskQueue (mq.rs:311-345)
TaskQueueModes == {"IfMissing", "ReplaceExistingSoonest",
                   "FinishOrReplaceExistingSoonest"}

VARIABLES
    pending,    \* set of <<ts, name, k>>: the k-th pending entry with
                \* abstract key <<ts, name>> (k = 1..count, see below)
    running,    \* [Names -> 0..MaxRun]
    now,        \* abstract clock
    up,         \* is the daemon running
    cur         \* name of the task the scheduler thread is processing, or None

vars == <<pending, running, now, up, cur>>

None == "none"
Ts == 0..MaxTs

(***************************************************************************)
(* Timestamps are abstract.  A timestamp chosen by a caller denotes one    *)
(* exact millisecond value, so storing a second entry <<ts, name>>         *)
(* overwrites the first.  A timestamp taken from the clock by the code     *)
(* itself (ts = now: Queue::now() or mq::now()) denotes some instant       *)
(* within the abstract "now", so a second entry stamped "now" may have an  *)
(* equal or a different real key: it may overwrite or co-exist.  Copies    *)
(* with the same abstract key are numbered 1..count.                       *)
(***************************************************************************)
Count(P, ts, n) == Cardinality({p \in P : p[1] = ts /\ p[2] = n})
RemoveOne(P, ts, n) == P \ {<<ts, n, Count(P, ts, n)>>}
AddOptions(P, ts, n) ==
    IF Count(P, ts, n) = 0 THEN {P \cup {<<ts, n, 1>>}}
    ELSE {P} \cup (IF ts = now /\ Count(P, ts, n) < MaxDup
                   THEN {P \cup {<<ts, n, Count(P, ts, n) + 1>>}} ELSE {})

PendingNamed(n) == {<<p[1], p[2]>> : p \in {q \in pending : q[2] = n}}
NRunning == LET RECURSIVE Sum(_)
                Sum(S) == IF S = {} THEN 0
                          ELSE LET x == CHOOSE x \in S : TRUE
                               IN running[x] + Sum(S \ {x})
            IN Sum(Names)
Known == {p[2] : p \in pending} \cup {n \in Names : running[n] > 0}

Min(a, b) == IF a < b THEN a ELSE b
MinTs(S) == CHOOSE t \in {p[1] : p \in S} : \A p \in S : t <= p[1]

TypeOK ==
    /\ pending \subseteq (Ts \X Names \X (1..MaxDup))
    /\ \A p \in pending : p[3] <= Count(pending, p[1], p[2])
    /\ running \in [Names -> 0..MaxRun]
    /\ now \in Ts
    /\ up \in BOOLEAN
    /\ cur \in Names \cup {None}

InitAt(t0) ==
    /\ pending = {}
    /\ running = [n \in Names |-> 0]
    /\ now = t0
    /\ up = FALSE      \* the first step of every behaviour is a Startup
    /\ cur = None

Init == InitAt(0)

(***************************************************************************)
(* Queue::schedule_task (queue.rs:113-184).                                *)
(* sel is the pending entry that get_storage_key_and_time finds for the    *)
(* name (first match in listing order = any match), or None.               *)
(***************************************************************************)
NoSel == <<0, None>>
SelOptions(n) == IF PendingNamed(n) = {} THEN {NoSel} ELSE PendingNamed(n)

ScheduleEffect(n, ts, mode, sel) ==
    LET hasPend == sel # NoSel
        hasRun  == running[n] > 0
        keep    == IF mode = "IfMissing" THEN ~hasPend /\ ~hasRun ELSE TRUE
        P1      == IF mode = "IfMissing" \/ ~hasPend THEN pending
                   ELSE RemoveOne(pending, sel[1], sel[2])
        finish  == mode \in {"FinishOrReplaceExisting",
                             "FinishOrReplaceExistingSoonest"} /\ hasRun
        newTs   == IF mode \in {"ReplaceExistingSoonest",
                                "FinishOrReplaceExistingSoonest"} /\ hasPend
                   THEN Min(ts, sel[1]) ELSE ts
    IN  /\ IF keep THEN pending' \in AddOptions(P1, newTs, n)
                   ELSE pending' = pending
        /\ running' = IF finish THEN [running EXCEPT ![n] = @ - 1]
                                ELSE running

\* What a queued task carries (its payload: the version guard of a
\* synchronisation, revocation lists) is not part of the state of this model.
\* The property about it is a step property for recorded traces: a call that
\* writes an entry -- every call but an IfMissing that finds the name pending
\* or running -- leaves an entry of that name that carries the payload of
\* THIS call, also when the time of an earlier entry is kept
\* (ReplaceExistingSoonest): the follow-up of the latest change runs with what
\* that change asked for.  (v: the payload of the call; pays: the payloads of
\* the entries pending under the name after it.)
ScheduleWrites(n, mode) ==
    mode # "IfMissing" \/ (PendingNamed(n) = {} /\ running[n] = 0)
PayloadKeptStep(n, mode, v, pays) == ScheduleWrites(n, mode) => v \in pays

Schedule(n, ts, mode) ==
    /\ up
    /\ \E sel \in SelOptions(n) : ScheduleEffect(n, ts, mode, sel)
    /\ UNCHANGED <<now, up, cur>>

(***************************************************************************)
(* Queue::claim_scheduled_pending_task (queue.rs:224-272) as called by the *)
(* scheduler loop (TaskQueue::pop): the earliest due entry moves to        *)
(* "running"; ties are broken by listing order.                            *)
(***************************************************************************)
Due == {<<p[1], p[2]>> : p \in {q \in pending : q[1] <= now}}

ClaimN(n) ==
    /\ up /\ cur = None
    /\ \E p \in Due :
        /\ p[2] = n
        /\ \A q \in Due : p[1] <= q[1]
        /\ running[n] < MaxRun
        /\ pending' = RemoveOne(pending, p[1], p[2])
        /\ running' = [running EXCEPT ![n] = @ + 1]
        /\ cur' = n
    /\ UNCHANGED <<now, up>>

Claim == \E n \in Names : ClaimN(n)

(***************************************************************************)
(* What scheduler::run does with the TaskResult (scheduler.rs:78-100).     *)
(***************************************************************************)
\* TaskResult::Done -> tasks.finish(key)
Finish ==
    /\ up /\ cur # None /\ cur # StartTask /\ cur \notin Recurring
    /\ running[cur] > 0
    /\ running' = [running EXCEPT ![cur] = @ - 1]
    /\ cur' = None
    /\ UNCHANGED <<pending, now, up>>

\* TaskResult::Reschedule(priority) -> queue.reschedule_running_task: a plain
\* move, no merge with an existing pending entry of that name.
Reschedule(ts) ==
    /\ up /\ cur # None /\ cur # StartTask /\ cur \notin Recurring
    /\ running[cur] > 0
    /\ running' = [running EXCEPT ![cur] = @ - 1]
    /\ pending' \in AddOptions(pending, ts, cur)
    /\ cur' = None
    /\ UNCHANGED <<now, up>>

\* TaskResult::FollowUp(task, priority) -> schedule_and_finish_existing.
\* Every task that returns a follow-up names itself (sync_parent,
\* republish, renew, update_snapshots, ... in scheduler.rs).  The recurring
\* tasks (republish_if_needed, renew_objects_if_needed, update_snapshots:
\* scheduler.rs:476-612) always return a follow-up at a later time and
\* nothing else.
FollowUp(ts) ==
    /\ up /\ cur # None /\ cur # StartTask
    /\ cur \in Recurring => ts >= now   \* (strictly later; >= only because the model clock saturates)
    /\ \E sel \in SelOptions(cur) :
          ScheduleEffect(cur, ts, "FinishOrReplaceExistingSoonest", sel)
    /\ cur' = None
    /\ UNCHANGED <<now, up>>

(***************************************************************************)
(* Processing QueueStartTasks (scheduler.rs:197-312): schedule_missing for *)
(* every recurring task at the current time, then Done -> finish.          *)
(***************************************************************************)
ProcessStart ==
    /\ up /\ cur = StartTask
    /\ running[cur] > 0
    /\ LET missing == {n \in Recurring :
                          PendingNamed(n) = {} /\ running[n] = 0}
       IN  pending' = pending \cup {<<now, n, 1>> : n \in missing}
    /\ running' = [running EXCEPT ![cur] = @ - 1]
    /\ cur' = None
    /\ UNCHANGED <<now, up>>

\* finish / reschedule of a task whose running entry has been removed under
\* the scheduler's feet (somebody else used one of the FinishOrReplace* modes
\* on the task being processed, e.g. the post-save listener of a command on
\* the API thread: mq.rs:594-617): the task has been replaced by the newly
\* scheduled one, nothing is left to do (queue.rs finish_running_task /
\* reschedule_running_task).  (Until fix 3ff3c77d the queue reported an error
\* and scheduler::run stopped the daemon.)
LostCurrent ==
    /\ up /\ cur # None
    /\ running[cur] = 0
    /\ cur' = None
    /\ UNCHANGED <<pending, running, now, up>>

Tick ==
    /\ now < MaxTs
    /\ now' = now + 1
    /\ UNCHANGED <<pending, running, up, cur>>

\* The process stops or dies: everything in storage stays as it is.
Crash ==
    /\ up
    /\ up' = FALSE
    /\ cur' = None
    /\ UNCHANGED <<pending, running, now>>

(***************************************************************************)
(* StartupManager::run_scheduler (manager.rs:71-81):                       *)
(*   tasks.reschedule_tasks_at_startup()  (mq.rs:394-412): every running   *)
(*     entry goes back to pending at the current time if at least          *)
(*     RequeueMin entries are running;                                     *)
(*   tasks.schedule(QueueStartTasks, now())  (ReplaceExistingSoonest).     *)
(***************************************************************************)
\* moving the running entries of the names in S back to pending, one by
\* one, each stamped with the current time
RECURSIVE Requeue(_, _, _)
Requeue(P, R, S) ==
    \* the set of possible pending sets after re-queueing all entries of R
    \* for the names in S
    IF S = {} THEN {P}
    ELSE LET n == CHOOSE x \in S : TRUE
         IN  IF R[n] = 0 THEN Requeue(P, R, S \ {n})
             ELSE UNION { Requeue(P2, [R EXCEPT ![n] = @ - 1], S)
                          : P2 \in AddOptions(P, now, n) }

Startup ==
    /\ ~up
    /\ LET requeue == NRunning >= RequeueMin
       IN  /\ running' = IF requeue THEN [n \in Names |-> 0] ELSE running
           /\ \E P1 \in (IF requeue THEN Requeue(pending, running, Names)
                                     ELSE {pending}) :
                LET named == {<<p[1], p[2]>> : p \in {q \in P1 : q[2] = StartTask}}
                    selOpts == IF named = {} THEN {NoSel} ELSE named
                IN \E sel \in selOpts :
                     pending' \in AddOptions(
                        IF sel = NoSel THEN P1 ELSE RemoveOne(P1, sel[1], sel[2]),
                        IF sel = NoSel THEN now ELSE Min(now, sel[1]),
                        StartTask)
    /\ up' = TRUE
    /\ cur' = None
    /\ UNCHANGED now

Next ==
    \/ \E n \in Names \ {StartTask}, ts \in Ts, m \in ModesUsed : Schedule(n, ts, m)
    \/ Claim
    \/ Finish
    \/ \E ts \in Ts : Reschedule(ts)
    \/ \E ts \in Ts : FollowUp(ts)
    \/ ProcessStart
    \/ LostCurrent
    \/ Tick
    \/ Crash
    \/ Startup

Spec == Init /\ [][Next]_vars

---------------------------------------------------------------------------
(* Properties (C09) *)

\* Due tasks are handed out earliest first.
ClaimIsEarliestDueStep ==
    (cur = None /\ cur' # None)
        => \E p \in pending \ pending' :
              /\ p[2] = cur' /\ p[1] <= now
              /\ \A q \in pending : q[1] <= now => p[1] <= q[1]
ClaimIsEarliestDue == [][ClaimIsEarliestDueStep]_vars

\* Re-scheduling a task keeps the earlier of the two times: as long as a
\* name stays pending and is not claimed, its earliest pending time never
\* moves later.  (Holds for the modes TaskQueue uses; ReplaceExisting and
\* FinishOrReplaceExisting overwrite on purpose.)
SoonestKeptStep ==
    \A n \in Names :
          (PendingNamed(n) # {} /\ cur' = cur /\ up /\ up')
          => /\ PendingNamed(n)' # {}
             /\ MinTs(PendingNamed(n)') <= MinTs(PendingNamed(n))
SoonestKept == [][SoonestKeptStep]_vars

\* After every start nothing is left stranded in "running": whatever the
\* daemon was working on when it stopped is pending again.
NoOrphanAfterStartupStep ==
    (~up /\ up') => \A n \in Names : running'[n] = 0
NoOrphanAfterStartup == [][NoOrphanAfterStartupStep]_vars

\* The only running entry while the daemon is up is the one the scheduler
\* thread is processing (environment restricted to the TaskQueue modes).
RunningIsCurrent ==
    up => \A n \in Names : running[n] = (IF cur = n THEN 1 ELSE 0)

\* No queue operation loses a task: a name leaves the queue only by being
\* executed by the scheduler thread.
NoTaskLostStep == \A n \in Known : n \in Known' \/ cur = n
NoTaskLost == [][NoTaskLostStep]_vars

\* Once the start task of this run has been processed, every recurring
\* task is queued (pending, or being executed).
RecurringQueued ==
    (up /\ StartTask \notin Known) => Recurring \subseteq Known

---------------------------------------------------------------------------
(* Liveness: with a scheduler that keeps running (weak fairness on its     *)
(* steps and on start-up) and time that advances, every queued task is     *)
(* eventually executed, and every recurring task is executed again and     *)
(* again.  Crashes are not fair (they may or may not happen); the          *)
(* liveness configuration bounds their number through CrashBudget.         *)
(***************************************************************************)
Fairness ==
    /\ \A n \in Names : SF_vars(ClaimN(n))   \* ties do not starve a task
    /\ WF_vars(Finish \/ (\E ts \in Ts : FollowUp(ts)) \/ ProcessStart)
    /\ WF_vars(Tick)
    /\ WF_vars(Startup)

=============================================================================
