CONSTANTS
  Top = "A"
  CaOf <- IdCa
  ShadowRebuilt = TRUE
  Sub = {"B"}
SPECIFICATION MCSpec
INVARIANT TypeOK
INVARIANT C19_RemovalRemoves
INVARIANT C19_EntsWithinEntitlement
INVARIANT C04_KeysHaveCerts
PROPERTY MC_ShadowAfterSync
CHECK_DEADLOCK FALSE
CONSTANTS
  Res = {"p1", "p2"}
  TopRes = {"p1", "p2"}
  Roa <- MCRoa1
  AspaDefs <- NoAspa
  ParentOf <- Chain
  Ops = {"remove", "delete", "roa", "pubops", "recreate"}
CONSTANTS
  MaxApi = 7
