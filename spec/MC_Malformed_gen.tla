-------------------------- MODULE MC_Malformed_gen --------------------------
(* Vector generator for C16.  The contexts are enumerated breadth first    *)
(* (administrator steps only, VIEW = the facts); for every context TLC     *)
(* prints the vectors endpoint x class x addressed entity x channel for    *)
(* which this context is the canonical representative (Canonical(e)), with *)
(* the verdicts of the specification: whether the class must be refused.   *)
EXTENDS Malformed, Json

GenInit == Init
GenNext == Admin

View == facts

VectorsHere ==
    { [e |-> v[1], c |-> v[2], t |-> v[3], chan |-> v[4],
       strict |-> v[2] \in Strict(v[1]),
       kind |-> Endpoint[v[1]].kind]
      : v \in { w \in Vectors : Canonical(w[1]) } }

PrintBehaviour ==
    PrintT(<<"REPLAY",
             ToJson([ctx |-> [repo |-> repo, ca |-> "ca" \in cas,
                              child |-> "child" \in kids,
                              pub |-> "pub" \in pubs],
                     vectors |-> VectorsHere])>>)
=============================================================================
