CONSTANTS
  Children = {"ca1"}
  ReqNames = {"i:ka"}
  MaxNonce = 2
  MaxMsgs = 4
  MaxReassoc = 1
  Mutant = "none"
  Depth = 6
  ReassocAfter = 0
  MaxAdv = 1
  GenVariants = {"orig", "tnonce", "rsrand"}
  GenSigners = {"S1"}
INIT GenInit
NEXT GenNext
CONSTRAINT DepthBound
INVARIANT PrintBehaviour
CHECK_DEADLOCK FALSE
