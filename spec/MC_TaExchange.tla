--------------------------- MODULE MC_TaExchange ---------------------------
(* Exhaustive model check of TaExchange: every sequence of child           *)
(* requests, proxy requests, signer runs (two signer instances), responses *)
(* and adversary variants of every message ever sent, within the bounds.   *)
(* The ghost variable `last` records the step for the action properties.   *)
EXTENDS TaExchange

VARIABLE last

NoStep == [kind |-> "none"]

MCInit == Init /\ last = NoStep

Dummy == [t |-> "none", nonce |-> 0, by |-> "none", content |-> {},
          num |-> <<0, 0>>]

StepRec(kind, s, c, e, auth, ok, m) ==
    [kind |-> kind, s |-> s, c |-> c, e |-> e, auth |-> auth, ok |-> ok,
     m |-> m]

MCSign ==
    \E s \in Signers, i \in 1..Len(msgs), v \in Variants, k \in 1..Len(msgs) :
        /\ Sign(s, i, v, k)
        /\ last' = StepRec("Sign", s, "-", Present(i, v, k)[1],
                           Present(i, v, k)[2], msgs' # msgs,
                           IF msgs' # msgs THEN msgs'[Len(msgs')] ELSE Dummy)

MCResp ==
    \E i \in 1..Len(msgs), v \in Variants, k \in 1..Len(msgs) :
        /\ Resp(i, v, k)
        /\ last' = StepRec("Resp", "-", "-", Present(i, v, k)[1],
                           Present(i, v, k)[2],
                           MProxyAccepts(Present(i, v, k)[1],
                                         Present(i, v, k)[2]), Dummy)

MCMakeReq ==
    /\ MakeReq
    /\ last' = StepRec("MakeReq", "-", "-", Dummy, TRUE, msgs' # msgs,
                       IF msgs' # msgs THEN msgs'[Len(msgs')] ELSE Dummy)

MCGetReq ==
    /\ GetReq
    /\ last' = StepRec("GetReq", "-", "-", Dummy, TRUE, TRUE,
                       msgs'[Len(msgs')])

MCOther == OtherProxyReq /\ last' = StepRec("Other", "-", "-", Dummy, TRUE,
                                            TRUE, Dummy)

MCReassoc == Reassoc /\ last' = StepRec("Reassoc", "-", "-", Dummy, TRUE,
                                        TRUE, Dummy)

MCRemote == \E c \in Remote, r \in ReqNames :
    \/ /\ RWants(c, r)
       /\ last' = StepRec("RWants", "-", c, Dummy, TRUE, TRUE, Dummy)
    \/ /\ SyncOne(c, r)
       /\ last' = StepRec("SyncOne", "-", c, Dummy, TRUE, TRUE, Dummy)

MCSync == \E c \in Children \ Remote :
    /\ Sync(c)
    /\ last' = StepRec("Sync", "-", c, Dummy, TRUE, TRUE, Dummy)

MCWants == \E c \in Children \ Remote :
    /\ ChildWants(c)
    /\ last' = StepRec("Wants", "-", c, Dummy, TRUE, TRUE, Dummy)

MCNext ==
    \/ MCSign \/ MCResp \/ MCMakeReq \/ MCGetReq \/ MCOther \/ MCReassoc
    \/ MCSync \/ MCWants \/ MCRemote

MCSpec == MCInit /\ [][MCNext]_<<vars, last>>

L == last'

RefusedUnchanged ==
    [][L.kind # "none" => RefusedUnchangedStep(
            L.kind, L.s, L.e, L.auth, L.ok, UNCHANGED vars)]_<<vars, last>>

OneResponsePerRequest ==
    [][L.kind # "none" => OneResponsePerRequestStep(
            L.kind, L.s, L.e, L.auth, L.ok, L.m)]_<<vars, last>>

DeliveredExactlyOnce ==
    [][L.kind # "none" => DeliveredExactlyOnceStep(L.kind, L.c, L.ok)
      ]_<<vars, last>>

TaNumbersIncrease ==
    [][L.kind # "none" => TaNumbersIncreaseStep(L.kind, L.ok)
      ]_<<vars, last>>

\* The step record is bookkeeping: states are identified by the rest.
View == vars
=============================================================================
