CONSTANTS
  Top = "A"
  CaOf <- IdCa
  ShadowRebuilt = TRUE
  Sub = {"B", "C", "D"}
  Res = {"p1", "p2", "a1"}
  TopRes = {"p1", "p2", "a1"}
  Roa <- GenRoa
  AspaDefs <- NoAspa
  ParentOf <- GenDeep
  Ops = {"parents", "deepremove", "res", "roa", "refresh", "roll", "suspend"}
  Depth = 46
  MaxApiStreak = 2
  MaxDestr = 1
  MftDue = FALSE
  ObjDue = FALSE
INIT GenInit
NEXT GenNext
INVARIANT PrintBehaviour
CHECK_DEADLOCK FALSE
