\* 3 threads racing to create one aggregate (add_with_context), then commands / reads
CONSTANTS
  t1 = t1
  t2 = t2
  t3 = t3
  e1 = e1
  e2 = e2
  w1 = w1
  n1 = n1
  Threads = {t1,t2,t3}
  Entities = {n1}
  WalEntities = {}
  NewEntities = {n1}
  MaxOps = 2
  Ops = {"add","ok","read"}
  LockMode = "write"
SPECIFICATION Spec
INVARIANT Safety
PROPERTY AppendOnly
CHECK_DEADLOCK TRUE
SYMMETRY SymTE
