CONSTANTS
  Depth = 2
  Origins = {1, 2}
  MaxRoas = 3
  MaxAnns = 1
  RoaDepth = 2
  AnnDepth = 2
  MlOffsets = {0, 1, 2}
  WithBeyond = TRUE
  RoaAsns = {0, 1, 2}
  SampleMod = 1
  SampleSeed = 0
  AnnsFirst = FALSE
INIT GenInit
NEXT GenNext
INVARIANT Sane
INVARIANT PrintCase
CHECK_DEADLOCK FALSE
