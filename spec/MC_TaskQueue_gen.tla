------------------------- MODULE MC_TaskQueue_gen -------------------------
(* Behaviour generator for TaskQueue: the base actions plus a history      *)
(* variable holding the action labels.  A behaviour is printed as one      *)
(* JSON line when it reaches the requested depth.  The clock is frozen at  *)
(* NowLevel (the harness cannot move the real clock): timestamps <=        *)
(* NowLevel are due, later ones are not.                                   *)
EXTENDS TaskQueue, Sequences, Json

CONSTANTS Depth, NowLevel, MaxStreak, MaxCrashes,
          EnvNames, EnvTs   \* what the environment schedules

VARIABLES hist, streak, crashes

GenInit == InitAt(NowLevel) /\ hist = <<>> /\ streak = 0 /\ crashes = 0

Rec(a) == [a |-> a]

GenStep ==
    \* at most MaxStreak Schedule steps in a row, so that random simulation
    \* is not drowned in the many instances of Schedule
    \/ /\ streak < MaxStreak
       /\ streak' = streak + 1
       /\ \E n \in EnvNames, ts \in EnvTs, m \in ModesUsed :
            Schedule(n, ts, m) /\ hist' = Append(hist, [a |-> "Schedule", n |-> n, ts |-> ts, m |-> m])
    \/ /\ streak' = 0
       /\ \/ Claim /\ hist' = Append(hist, Rec("Claim"))
          \/ Finish /\ hist' = Append(hist, Rec("Finish"))
          \/ \E ts \in EnvTs : Reschedule(ts) /\ hist' = Append(hist, [a |-> "Reschedule", ts |-> ts])
          \/ \E ts \in EnvTs : cur \notin Recurring /\ FollowUp(ts) /\ hist' = Append(hist, [a |-> "FollowUp", ts |-> ts])
          \* a recurring task is processed by the real code, which decides the time
          \/ cur \in Recurring /\ FollowUp(now + 1) /\ hist' = Append(hist, Rec("Process"))
          \/ ProcessStart /\ hist' = Append(hist, Rec("ProcessStart"))
          \/ LostCurrent /\ hist' = Append(hist, Rec("Finish"))
          \/ LostCurrent /\ hist' = Append(hist, [a |-> "Reschedule", ts |-> NowLevel])
          \/ crashes < MaxCrashes /\ Crash /\ hist' = Append(hist, Rec("Crash"))
          \/ Startup /\ hist' = Append(hist, Rec("Startup"))

GenNext == GenStep /\ crashes' = (IF up /\ ~up' THEN crashes + 1 ELSE crashes)

GenSpec == GenInit /\ [][GenNext]_<<vars, hist, streak, crashes>>

DepthBound == Len(hist) <= Depth

PrintBehaviour ==
    Len(hist) = Depth => PrintT(<<"REPLAY", ToJson([now |-> NowLevel, actions |-> hist])>>)
=============================================================================
