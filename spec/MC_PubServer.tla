---------------------------- MODULE MC_PubServer ----------------------------
(* Model-checking wrapper for PubServer: concrete handles and URIs.        *)
EXTENDS PubServer, PubServerNames

Deltas1 == SmallDeltas(1)
Deltas2 == SmallDeltas(2)
Deltas3 == SmallDeltas(3)
DeltasAll == DeltasOf(Uris)

\* the last request is an observation: states that differ only there are
\* explored once (action properties still see every transition)
NoLast == <<pubs, cur, staged, session, serial, deltas, view>>

\* C10 does not depend on the RRDP history: serial, session and deltas are
\* hidden as well, which makes the visible state space finite without a bound
View10 == <<pubs, cur, staged, view>>

SerialBound == serial <= MaxSerial /\ session <= MaxSession

=============================================================================
