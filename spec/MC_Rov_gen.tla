----------------------------- MODULE MC_Rov_gen -----------------------------
(* Case enumerator for Rov: every set of at most MaxRoas ROAs from RoaPool  *)
(* combined with every set of at most MaxAnns announcements.  A case is one *)
(* step: the initial states choose the ROA set, the single step chooses the *)
(* announcement set.  Every case is printed as one JSON line and the sanity *)
(* theorems of Rov are checked on it.                                       *)
EXTENDS Rov, FiniteSetsExt, Json, TLC

CONSTANTS MaxRoas, MaxAnns,
          RoaDepth,     \* ROA prefixes have at most this length
          AnnDepth,     \* announced prefixes have at most this length
          MlOffsets,    \* maximum length = prefix length + an offset ...
          WithBeyond,   \* ... or Beyond (the family maximum)
          RoaAsns,      \* origin ASNs of ROAs (may include 0)
          SampleMod,    \* 1: every case; n > 1: a seeded sample of about
          SampleSeed,   \*    one case in n
          AnnsFirst     \* TRUE: initial states choose the announcements
                        \* (only matters for TLC's parallelism)

VARIABLES roas, anns, phase
vars == <<roas, anns, phase>>

RoaPool ==
    { r \in [p : {q \in Prefix : Len(q) <= RoaDepth}, ml : 0..Beyond,
             asn : RoaAsns] :
        \/ r.ml <= Depth /\ \E k \in MlOffsets : r.ml = Len(r.p) + k
        \/ WithBeyond /\ r.ml = Beyond }

AnnPool == [p : {q \in Prefix : Len(q) <= AnnDepth}, o : Origins]

\* all subsets of S with exactly k elements (kSubset of FiniteSetsExt is
\* limited to small S)
RECURSIVE KSub(_, _)
KSub(k, S) == IF k = 0 THEN {{}}
              ELSE UNION { { T \cup {x} : x \in S \ T } : T \in KSub(k - 1, S) }

Subsets(k, S) == IF Cardinality(S) <= 60 THEN kSubset(k, S) ELSE KSub(k, S)

RoaSets == UNION { Subsets(k, RoaPool) : k \in 0..MaxRoas }
AnnSets == UNION { Subsets(k, AnnPool) : k \in 0..MaxAnns }

(* Seeded sampling for the quick tier: a case is kept iff an arithmetic     *)
(* hash of its content and the seed is 0 modulo SampleMod.                  *)
PVal(p) == Len(p) * 41 + MapThenSumSet(LAMBDA i : p[i] * 2^(i-1), 1..Len(p))
HRoa(r) == LET h == PVal(r.p) * 131 + r.ml * 17 + r.asn * 5 + 3
           IN (h * h) % 10007
HAnn(a) == LET h == PVal(a.p) * 89 + a.o * 29 + 11 IN (h * h) % 10007
Sampled(R, A) ==
    \/ SampleMod = 1
    \/ ( MapThenSumSet(HRoa, R) * 31 + MapThenSumSet(HAnn, A) * 17
         + SampleSeed * 7919 ) % SampleMod = 0

GenInit == /\ phase = 0
           /\ IF AnnsFirst THEN anns \in AnnSets /\ roas = {}
                           ELSE roas \in RoaSets /\ anns = {}

GenNext == /\ phase = 0
           /\ phase' = 1
           /\ IF AnnsFirst THEN anns' = anns /\ roas' \in RoaSets
                           ELSE roas' = roas /\ anns' \in AnnSets
           /\ Sampled(roas', anns')

Sane == phase = 1 => SanityTheorems(roas, anns)

PrintCase ==
    phase = 1 => PrintT(<<"REPLAY", ToJson([roas |-> roas, anns |-> anns])>>)

\* the restriction table, for the harness
ASSUME PrintT(<<"RESTRICTIONS", ToJson(Restrictions)>>)

Sizes == <<Cardinality(RoaPool), Cardinality(AnnPool),
           Cardinality(RoaSets), Cardinality(AnnSets)>>
=============================================================================
