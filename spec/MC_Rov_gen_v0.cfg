CONSTANTS
  Depth = 2
  Origins = {1, 2}
  MaxRoas = 3
  MaxAnns = 3
  RoaDepth = 1
  AnnDepth = 1
  MlOffsets = {0}
  WithBeyond = TRUE
  RoaAsns = {0, 1, 2}
  SampleMod = 1
  SampleSeed = 0
  AnnsFirst = FALSE
INIT GenInit
NEXT GenNext
INVARIANT Sane
INVARIANT PrintCase
CHECK_DEADLOCK FALSE
