\* Exhaustive: one publisher, one URI, every cut (crash and injected error)
\* of every write, one fault per behaviour; the tree before the repairs
\* 99a13ae1, 6e18ad8e, 0b66fb18, 3d66903f: TLC finds NotificationParsable (Inv11),
\* InterruptedWriteNeverBlocks (Inv11) and RsyncEqualsSnapshotAfterWrite violated.
\* checks/c11.py generates the other configurations from the same template.
CONSTANTS
  Pubs <- PubsOne
  Uris <- UrisOneX
  Contents <- Cont
  Size <- SizeSmall
  MinNr = 0
  MaxNr = 2
  MinAge = "zero"
  MaxAge = "inf"
  MaxNrEquality = TRUE
  MaxSerial = 4
  MaxSession = 2
  DeltaChoices <- Deltas1
  TruncateOnCreate = FALSE
  RemoveTmpFirst = FALSE
  RemoveOldFirst = FALSE
  MaxFaults = 2
  Depth = 99
  FaultOdds = 1
SPECIFICATION MCSpec
CONSTRAINT RBound
VIEW RView
INVARIANT Inv11
INVARIANT DeltasContiguousToCurrent
INVARIANT DeltasBoundedOnDisk
INVARIANT DeltasNeverExceedMaxNrOnDisk
PROPERTY DiskFollowsLogical
PROPERTY WriteOk
PROPERTY RsyncEqualsSnapshotAfterWrite
PROPERTY SerialPlusOne
PROPERTY SessionOnlyOnReset
CHECK_DEADLOCK FALSE
