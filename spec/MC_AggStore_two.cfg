\* 2 threads x 2 aggregates x 2 operations, commands / reads / snapshots / history
CONSTANTS
  t1 = t1
  t2 = t2
  t3 = t3
  e1 = e1
  e2 = e2
  w1 = w1
  n1 = n1
  Threads = {t1,t2}
  Entities = {e1,e2}
  WalEntities = {}
  NewEntities = {}
  MaxOps = 2
  Ops = {"ok","noop","reject","presave_fail","read","snap","hist"}
  LockMode = "write"
SPECIFICATION Spec
INVARIANT Safety
PROPERTY AppendOnly
CHECK_DEADLOCK TRUE
SYMMETRY SymTE
