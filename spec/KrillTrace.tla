----------------------------- MODULE KrillTrace -----------------------------
(* Trace specification: checks that a trace recorded from the real Krill   *)
(* (harness run-ca: API calls on the real CaManager / RepositoryManager,   *)
(* background tasks executed one at a time through the scheduler's         *)
(* process_task) is a behaviour of Krill.tla.  Every line carries the      *)
(* event, its arguments, its result and the state projected onto the       *)
(* variables of Krill.tla (from the CAs' own state, the publication        *)
(* server's content decoded from outside, and the task queue).  A line is  *)
(* accepted only if the named action is enabled and leads to exactly the   *)
(* projected state; every invariant of Krill.tla is evaluated in every     *)
(* state, and the relying-party walk over the real repository must agree   *)
(* with what the specification derives from its state.                     *)
EXTENDS Krill, Sequences, SequencesExt, Json, IOUtils

Rec == ndJsonDeserialize(IOEnv.TRACE)

TraceAspa == {"a1", "a2"} \X {"prov:a2", "prov:a3", "prov:a2+a3", "prov:a1", "prov:a1+a3"}
TraceRtr == {"a1", "a2"} \X {"rtr:k1", "rtr:k2"}
TraceRoa == ({"p1", "p2", "p3"} \X {"a1", "a2", "a0"}) \cup TraceAspa \cup TraceRtr
TraceParentOf == [c \in Sub |-> Top]   \* not used by the trace actions

VARIABLES
    l,          \* next line of the trace
    rp,         \* the relying-party verdict recorded with the last line
    keys,       \* serial-number level facts per key as decoded from the
                \* publication server's content: manifest and CRL number,
                \* the objects (by identity) current under the key, which
                \* objects ever seen under the key are on its CRL
    ever,       \* history: the objects ever current under each key
    mark,       \* the serial-number level facts at the last Mark event
    regime,     \* [mftdue, objdue]: what the "due" timing values make due
    phase,      \* "normal" / "due": which timing values are in force
    aggm,       \* [AllCA -> BOOLEAN] the CA's route origin objects are
                \* aggregated per origin AS (observed)
    lossy       \* the publication server's operator removed a publisher
                \* in this behaviour (the relying-party level expectations
                \* do not apply to what the operator took away)

tvars == <<vars, l, rp, keys, ever, mark, regime, phase, lossy, aggm>>

Line == Rec[l]

SetOf(seq) == {seq[i] : i \in 1..Len(seq)}
Known(rec, c) == c \in DOMAIN rec
AggOf(a) == [c \in AllCA |-> IF Known(a.pub, c) THEN a.pub[c].agg ELSE FALSE]
Certs(rec) == [x \in Roles |-> SetOf(rec[x])]

\* the projected state of the line, CA by CA (a CA that was never created
\* does not appear in the projection and has its initial values)
AbsPub(p) == [cur |-> p.cur, new |-> p.new, old |-> p.old,
              vrps |-> {<<v[1], v[2]>> : v \in SetOf(p.vrps)},
              kids |-> {<<k[1], k[2], SetOf(k[3])>> : k \in SetOf(p.kids)},
              ovrps |-> {<<v[1], v[2]>> : v \in SetOf(p.ovrps)},
              okids |-> {<<k[1], k[2], SetOf(k[3])>> : k \in SetOf(p.okids)}]

Projected(a) ==
    /\ \A c \in AllCA :
        IF Known(a.exists, c)
        THEN /\ exists'[c] = a.exists[c]
             /\ rc'[c] = a.rc[c]
             /\ rcv'[c] = Certs(a.rcv[c])
             /\ req'[c] = SetOf(a.req[c])
             /\ routes'[c] = {<<r[1], r[2]>> : r \in SetOf(a.routes[c])}
             /\ pub'[c] = AbsPub(a.pub[c])
             /\ a.pub[c].stray = <<>>
             \* (the parent of the slot and whether the CA has it configured,
             \* as long as the CA exists)
             /\ (Known(a.parent, c) => parent'[c] = a.parent[c])
             /\ (Known(a.hasp, c) => hasp'[c] = a.hasp[c])
             \* the parent's record of the child, as long as the parent exists
             /\ ((parent'[c] \in AllCA /\ exists'[parent'[c]]) \/ c = Top)
                  => /\ ent'[c] = SetOf(a.ent[c])
                     /\ cstate'[c] = a.cstate[c]
                     /\ iss'[c] = Certs(a.iss[c])
                     /\ sus'[c] = Certs(a.sus[c])
        ELSE ~exists'[c]
    \* the status reports of the CAs that exist (C19)
    /\ \A c \in AllCA :
        /\ (c # Top /\ Known(a.pst, c)) =>
               /\ pst'[c].last = a.pst[c].last
               /\ pst'[c].ents = SetOf(a.pst[c].ents)
               /\ a.pst[c].others = <<>>
        /\ (c # Top /\ Known(a.rst, c)) =>
               /\ rst'[c].last = a.rst[c].last
               /\ rst'[c].same = a.rst[c].same
               /\ rst'[c].empty = a.rst[c].empty
        /\ (c # Top /\ Known(a.kst, c)) => kst'[c] = a.kst[c]
        /\ (c # Top /\ Known(a.pubknown, c)) => pubknown'[c] = a.pubknown[c]
    \* while everything is due (between RestartDue and RestartNormal) every
    \* command that touches a CA re-issues its manifests as a side effect
    \* and schedules a repository synchronisation; these extra tasks are
    \* taken over by the DueTouch event that follows
    /\ LET obs == {<<t[1], t[2]>> : t \in SetOf(a.tasks)}
       IN  IF phase = "due"
           THEN tasks' \subseteq obs /\ \A t \in obs \ tasks' : t[1] = "sync_repo"
           ELSE tasks' = obs
    /\ a.odd = <<>>
    \* the trust anchor's side of its exchanges with Top
    /\ taq' = SetOf(a.taq) /\ tar' = SetOf(a.tar)
    /\ taiss' = SetOf(a.taiss) /\ tapub' = SetOf(a.tapub)

NoKeys == [k \in {} |-> {}]
ObserveKeys(K) ==
    /\ keys' = K
    /\ ever' = [k \in (DOMAIN ever) \cup (DOMAIN K) |->
                  (IF k \in DOMAIN ever THEN ever[k] ELSE {})
                  \cup (IF k \in DOMAIN K THEN SetOf(K[k].objs) ELSE {})]

IsEvent(e) == /\ l <= Len(Rec) /\ Line.ev = e /\ l' = l + 1 /\ rp' = Line.rp
              /\ ObserveKeys(Line.abs.keys)
              /\ mark' = (IF e = "Mark" THEN Line.abs.keys ELSE mark)
              /\ regime' = regime
              /\ lossy' = (lossy \/ e = "PubRemove")
              /\ aggm' = AggOf(Line.abs)
              /\ phase' = (IF e = "RestartDue" THEN "due"
                           ELSE IF e = "RestartMargin" THEN "margin"
                           ELSE IF e \in {"RestartNormal", "Restart"} THEN "normal"
                           ELSE phase)
Ok == Line.status = "ok"
IsError == Line.status = "error"

TraceInit == /\ l = 1 /\ Init /\ rp = [vrps |-> <<>>, problems |-> <<>>]
             /\ keys = NoKeys /\ ever = NoKeys /\ mark = NoKeys
             /\ regime = [mftdue |-> FALSE, objdue |-> FALSE] /\ phase = "normal" /\ lossy = FALSE /\ aggm = [c \in AllCA |-> FALSE]

\* a new behaviour starts: a fresh instance whose top CA has been set up
Reset ==
    /\ l <= Len(Rec) /\ Line.ev = "reset" /\ l' = l + 1
    /\ rp' = [vrps |-> <<>>, problems |-> <<>>]
    /\ keys' = NoKeys /\ ever' = NoKeys /\ mark' = NoKeys
    /\ regime' = [mftdue |-> Line.mftdue, objdue |-> Line.objdue]
    /\ phase' = "normal" /\ lossy' = FALSE /\ aggm' = [c \in AllCA |-> FALSE]
    /\ exists' = [c \in AllCA |-> c = Top]
    /\ gone' = [c \in AllCA |-> FALSE]
    /\ parent' = [c \in AllCA |-> IF c = Top THEN "ta" ELSE "none"]
    /\ hasp' = [c \in AllCA |-> c = Top]
    /\ ent' = [c \in AllCA |-> IF c = Top THEN TopRes ELSE NoRes]
    /\ cstate' = [c \in AllCA |-> IF c = Top THEN "active" ELSE "none"]
    /\ iss' = [c \in AllCA |-> IF c = Top THEN [NoCerts EXCEPT !["cur"] = TopRes]
                                          ELSE NoCerts]
    /\ sus' = [c \in AllCA |-> NoCerts]
    /\ rc' = [c \in AllCA |-> IF c = Top THEN "active" ELSE "none"]
    /\ rcv' = [c \in AllCA |-> IF c = Top THEN [NoCerts EXCEPT !["cur"] = TopRes]
                                          ELSE NoCerts]
    /\ req' = [c \in AllCA |-> {}]
    /\ routes' = [c \in AllCA |-> {}]
    /\ pub' = [c \in AllCA |-> IF c = Top THEN [EmptyPub EXCEPT !.cur = TRUE]
                                          ELSE EmptyPub]
    /\ tasks' = {}
    /\ pubknown' = [c \in AllCA |-> c = Top]
    /\ pst' = [c \in AllCA |-> NoPst]
    /\ rst' = [c \in AllCA |-> NoRst]
    /\ kst' = [c \in AllCA |-> "none"]
    /\ taq' = {} /\ tar' = {} /\ taiss' = {"cur"} /\ tapub' = {"cur"}

\* the set-up of the top CA under the trust anchor (not modelled step by
\* step): the recorded state must be the specification's initial state
Setup == IsEvent("Setup") /\ Ok /\ UNCHANGED vars /\ Projected(Line.abs)

Args == Line

TAddCa == IsEvent("AddCa") /\ Ok
          /\ AddCa(Args.c, Args.p, SetOf(Args.res)) /\ Projected(Line.abs)
\* one more parent for a CA / a removed parent added again; removing a
\* parent
TAddParent == IsEvent("AddParent") /\ Ok
          /\ AddParent(Args.c, Args.p, SetOf(Args.res)) /\ Projected(Line.abs)
TRemoveParent == IsEvent("RemoveParent") /\ Ok
          /\ RemoveParent(Args.c) /\ Projected(Line.abs)
TChildRes == IsEvent("ChildRes") /\ Ok
          /\ ChildRes(Args.c, SetOf(Args.res)) /\ Projected(Line.abs)
\* a resource update to the same value is a no-op
TChildResSame == IsEvent("ChildRes") /\ Ok
          /\ SetOf(Args.res) = ent[Args.c] /\ UNCHANGED vars /\ Projected(Line.abs)
TChildSuspend == IsEvent("ChildSuspend") /\ Ok
          /\ ChildSuspend(Args.c) /\ Projected(Line.abs)
\* suspending a child without certificates (or an already suspended one)
\* has no effect
TChildSuspendNoop == IsEvent("ChildSuspend") /\ Ok
          /\ (cstate[Args.c] = "suspended" \/ ~HasCerts(Args.c))
          /\ UNCHANGED vars /\ Projected(Line.abs)
\* the check for inactive children of every CA
TAutoSuspend == IsEvent("AutoSuspend") /\ Ok
          /\ AutoSuspend(IF "marked" \in DOMAIN Rec[l - 1].abs
                         THEN SetOf(Rec[l - 1].abs.marked) ELSE {})
          /\ Projected(Line.abs)
TChildUnsuspend == IsEvent("ChildUnsuspend") /\ Ok
          /\ ChildUnsuspend(Args.c) /\ Projected(Line.abs)
TChildUnsuspendNoop == IsEvent("ChildUnsuspend") /\ Ok
          /\ cstate[Args.c] = "active" /\ UNCHANGED vars /\ Projected(Line.abs)
TChildMap == IsEvent("ChildMap") /\ Ok /\ UNCHANGED vars /\ Projected(Line.abs)
TChildRemove == IsEvent("ChildRemove") /\ Ok
          /\ ChildRemove(Args.c) /\ Projected(Line.abs)
TRoaAdd == IsEvent("RoaAdd") /\ Ok
          /\ RoaAdd(Args.c, <<Args.r[1], Args.r[2]>>) /\ Projected(Line.abs)
TRoaDel == IsEvent("RoaDel") /\ Ok
          /\ RoaDel(Args.c, <<Args.r[1], Args.r[2]>>) /\ Projected(Line.abs)
\* router keys: configured like route authorisations
TRtrAdd == IsEvent("RtrAdd") /\ Ok
          /\ RoaAdd(Args.c, <<Args.r[1], Args.r[2]>>) /\ Projected(Line.abs)
TRtrDel == IsEvent("RtrDel") /\ Ok
          /\ RoaDel(Args.c, <<Args.r[1], Args.r[2]>>) /\ Projected(Line.abs)
RoaOfStr(x) == CHOOSE r \in Roa : r[1] \o "|" \o r[2] = x
TRoaDelta == IsEvent("RoaDelta") /\ Ok
          /\ RoaDelta(Args.c, {RoaOfStr(x) : x \in SetOf(Args.add)},
                               {RoaOfStr(x) : x \in SetOf(Args.del)})
          /\ Projected(Line.abs)
ProvLabel(p) == IF Len(p) = 1 THEN "prov:" \o p[1] ELSE "prov:" \o p[1] \o "+" \o p[2]
TAspaSet == IsEvent("AspaSet") /\ Ok /\ Args.prov # <<>>
          /\ LET x == <<Args.cust, ProvLabel(Args.prov)>>
             IN  \/ AspaSet(Args.c, x)
                 \/ (x \in routes[Args.c] /\ UNCHANGED vars)
          /\ Projected(Line.abs)
TAspaDel == IsEvent("AspaSet") /\ Ok /\ Args.prov = <<>>
          /\ AspaDel(Args.c, Args.cust) /\ Projected(Line.abs)
TRollInit == IsEvent("RollInit") /\ Ok
          /\ RollInit(Args.c) /\ Projected(Line.abs)
\* initiating a roll when no class is in the active state does nothing
TRollInitNoop == IsEvent("RollInit") /\ Ok
          /\ rc[Args.c] # "active" /\ UNCHANGED vars /\ Projected(Line.abs)
TRollActivate == IsEvent("RollActivate") /\ Ok /\ Args.c # Top
          /\ RollActivate(Args.c) /\ Projected(Line.abs)
TRollActivateNoop == IsEvent("RollActivate") /\ Ok
          /\ rc[Args.c] # "roll_new" /\ UNCHANGED vars /\ Projected(Line.abs)
TDeleteCa == IsEvent("DeleteCa") /\ Ok
          /\ DeleteCa(Args.c) /\ Projected(Line.abs)
TRefresh == IsEvent("Refresh") /\ Ok /\ RefreshAll /\ Projected(Line.abs)
TPubRemove == IsEvent("PubRemove") /\ Ok /\ PubRemove(Args.c) /\ Projected(Line.abs)
TPubAdd == IsEvent("PubAdd") /\ Ok /\ PubAdd(Args.c) /\ Projected(Line.abs)
TRepoSyncAll == IsEvent("RepoSyncAll") /\ Ok /\ RepoSyncAll /\ Projected(Line.abs)

\* a child that is not hosted by this instance: added at its parent, and its
\* provisioning requests (a signed message through CaManager::rfc6492; an
\* issuance request is answered with an error exactly when the limit is not
\* within what the parent offers)
TAddForeign == IsEvent("AddForeign") /\ Ok
          /\ AddForeign(Args.c, Args.p, SetOf(Args.res)) /\ Projected(Line.abs)
TFList == IsEvent("FList") /\ Ok /\ FList(Args.c) /\ Projected(Line.abs)
\* (a limit that names the IPv4 family only leaves the other families as
\* offered)
V4Atoms == {"p1", "p2", "p3"}
FLimit == IF Args.nolim THEN Offer(Args.c)
          ELSE IF "fam" \in DOMAIN Args /\ Args.fam = "v4"
          THEN (Offer(Args.c) \ V4Atoms) \cup SetOf(Args.lim)
          ELSE SetOf(Args.lim)
TFIssue == IsEvent("FIssue") /\ (Ok \/ IsError) /\ FCall(Args.c)
          /\ (Ok <=> FIssueOk(Args.c, FLimit))
          /\ FIssue(Args.c, Args.x, FLimit) /\ Projected(Line.abs)
\* (whether the parent's record of the child lists the key as in use is
\* taken from the record as observed before the request)
TFRevoke == IsEvent("FRevoke") /\ Ok
          /\ FRevoke(Args.c, Args.x, Args.x \in SetOf(Rec[l - 1].abs.inuse[Args.c]))
          /\ Projected(Line.abs)

\* A request the code refuses must leave everything as it was.  (Whether a
\* refusal is justified is C05's business; here the roll activation is the
\* one refusal the hierarchy model itself predicts.)
TRefused ==
    /\ l <= Len(Rec)
    /\ Line.ev \in {"AddCa", "AddForeign", "AddParent", "RemoveParent", "ChildRes", "ChildMap", "ChildSuspend", "ChildUnsuspend",
                    "ChildRemove", "RoaAdd", "RoaDel", "RoaDelta", "AspaSet", "RtrAdd", "RtrDel", "RollInit",
                    "RollActivate", "DeleteCa"}
    /\ IsError /\ l' = l + 1 /\ rp' = Line.rp
    /\ ObserveKeys(Line.abs.keys) /\ mark' = mark /\ regime' = regime
    /\ phase' = phase /\ lossy' = lossy /\ aggm' = AggOf(Line.abs)
    /\ Line.ev = "RollActivate" => RollActivateRefused(Args.c)
    /\ UNCHANGED vars /\ Projected(Line.abs)

\* one background task, as named by the real task queue (Line.tk is the
\* task's kind and CA parsed from its name)
TStep ==
    /\ IsEvent("Step")
    /\ LET kind == Line.tk[1]
           c == Line.tk[2]
       IN  \/ /\ kind = "sync_repo" /\ c \in AllCA
              /\ (SyncRepo(c) \/ SyncRepoFails(c) \/ (SyncDropped(c) /\ SR(c) \notin tasks'))
           \/ /\ kind = "sync_parent" /\ c \in Sub
              /\ \/ SyncParentSend(c) \/ SyncParentList(c) \/ SyncParentFails(c)
                 \/ SyncParentNoParent(c)
                 \/ (SyncDropped(c) /\ SP(c) \notin tasks')
           \/ /\ kind = "rc_removed" /\ c \in Sub
              /\ (RcRemoved(c) \/ (SyncDropped(c) /\ RM(c) \notin tasks'))
           \/ /\ kind = "other"
              /\ c \in {"update_rrdp_if_needed", "none"}
              /\ UNCHANGED vars
    /\ UNCHANGED tavars
    /\ Projected(Line.abs)

\* Top's synchronisation with the trust anchor and the trust anchor's own
\* tasks
TStepTa ==
    /\ IsEvent("Step") /\ Line.tk[1] = "other"
    /\ \/ Line.tk[2] = "sync_" \o Top \o "_with_parent_ta" /\ TopSync
       \/ Line.tk[2] = "sync_ta_proxy_signer" /\ TaCycle
       \/ Line.tk[2] = "sync_repo_ta" /\ TaRepo
    /\ Projected(Line.abs)
\* the activation of a new key of Top
TTopRollActivate == IsEvent("RollActivate") /\ Ok /\ Args.c = Top
          /\ TopRollActivate /\ Projected(Line.abs)

\* maintenance tasks run out of band, under the run's timing regime
TRepublish == IsEvent("Republish") /\ Ok /\ Republish(regime.mftdue /\ phase = "due") /\ Projected(Line.abs)
TRenew == IsEvent("Renew") /\ Ok /\ Renew(regime.objdue /\ phase = "due") /\ Projected(Line.abs)
TDueTouch == IsEvent("DueTouch") /\ phase = "due"
    /\ LET obs == {<<t[1], t[2]>> : t \in SetOf(Line.abs.tasks)}
       IN  /\ tasks \subseteq obs
           /\ \A t \in obs \ tasks : t[1] = "sync_repo" /\ CaHasKeys(t[2])
           /\ tasks' = obs
    /\ UNCHANGED <<exists, gone, parent, hasp, ent, cstate, iss, sus, rc, rcv, req, routes, pub,
                   pubknown, pst, rst, kst>>
    /\ Projected(Line.abs)
\* A maintenance run under a margin that makes only some key sets due: a
\* resource class with a key set (current, staging or old) whose manifest is
\* within the margin of its next update re-issues the manifests and CRLs of
\* ALL its key sets; the other classes -- of the same CA or of others -- do
\* nothing (publishing.rs CaObjects::re_issue decides per class; the CA's
\* publication follows if any of its classes re-issued).  (Line.margin is in
\* seconds; the times are the ones decoded from the published manifests;
\* .slot is the class the key belongs to.)
SlotOfKey(r) == IF "slot" \in DOMAIN r THEN r.slot ELSE r.ca
DueCAs(K, now, margin) ==
    {SlotOfKey(K[k]) : k \in {j \in DOMAIN K : K[j].ca \in AllCA /\ K[j].mft_next < now + margin}}
TRepublishByMargin == IsEvent("RepublishByMargin") /\ Ok
    /\ RepublishFor(DueCAs(keys, Line.abs.now, Line.margin)) /\ Projected(Line.abs)
TExpectByMargin == IsEvent("ExpectByMargin") /\ UNCHANGED vars /\ Projected(Line.abs)
    /\ DOMAIN mark = DOMAIN Line.abs.keys
    /\ LET due == DueCAs(mark, Line.abs.now, Line.margin) IN
       \A k \in DOMAIN mark :
          IF SlotOfKey(mark[k]) \in due
          THEN /\ Line.abs.keys[k].mft = mark[k].mft + 1
               /\ Line.abs.keys[k].crl = mark[k].crl + 1
               /\ Line.abs.keys[k].objs = mark[k].objs
               /\ Line.abs.keys[k].mft_next >= Line.abs.now + Line.margin
          ELSE /\ Line.abs.keys[k].mft = mark[k].mft
               /\ Line.abs.keys[k].objs = mark[k].objs
               /\ Line.abs.keys[k].mft_next = mark[k].mft_next
\* ... observed before anything is published, on the manifest numbers in the
\* CAs' own object stores (also while a roll is under way: the old key's set
\* is re-issued with the others).  Due-ness is that of the stored sets.
StoreDueCAs(K, now, margin) ==
    {SlotOfKey(K[k]) : k \in {j \in DOMAIN K : K[j].ca \in AllCA /\ K[j].store >= 0
                                       /\ K[j].store_next < now + margin}}
TRepublishByStoreMargin == IsEvent("RepublishByStoreMargin") /\ Ok
    /\ RepublishFor(StoreDueCAs(keys, Line.abs.now, Line.margin)) /\ Projected(Line.abs)
TExpectStoreByMargin == IsEvent("ExpectStoreByMargin") /\ UNCHANGED vars /\ Projected(Line.abs)
    /\ DOMAIN mark = DOMAIN Line.abs.keys
    /\ LET due == StoreDueCAs(mark, Line.abs.now, Line.margin) IN
       \A k \in DOMAIN mark : mark[k].store >= 0 =>
          IF SlotOfKey(mark[k]) \in due
          THEN /\ Line.abs.keys[k].store = mark[k].store + 1
               /\ Line.abs.keys[k].store_next >= Line.abs.now + Line.margin
          ELSE /\ Line.abs.keys[k].store = mark[k].store
               /\ Line.abs.keys[k].store_next = mark[k].store_next
\* a restart (with the due / the normal timing values) changes nothing
TRestart == (IsEvent("Restart") \/ IsEvent("RestartDue") \/ IsEvent("RestartNormal")
             \/ IsEvent("RestartMargin"))
            /\ Ok /\ UNCHANGED vars /\ Projected(Line.abs)
TMark == IsEvent("Mark") /\ UNCHANGED vars /\ Projected(Line.abs)

\* C14: what a maintenance run (and the repository syncs it caused) did to
\* the keys that exist before and after: compared with the marked facts
Both == (DOMAIN mark) \cap (DOMAIN keys)
\* nothing due: nothing changes at all
TExpectSame == IsEvent("ExpectSame") /\ UNCHANGED vars /\ Projected(Line.abs)
    /\ DOMAIN mark = DOMAIN Line.abs.keys
    /\ \A k \in DOMAIN mark :
          /\ Line.abs.keys[k].mft = mark[k].mft /\ Line.abs.keys[k].crl = mark[k].crl
          /\ Line.abs.keys[k].objs = mark[k].objs
          /\ Line.abs.keys[k].mft_next = mark[k].mft_next
\* manifests and CRLs due: every key's numbers go up by exactly one, the
\* objects stay the same objects
TExpectReissued == IsEvent("ExpectReissued") /\ UNCHANGED vars /\ Projected(Line.abs)
    /\ DOMAIN mark = DOMAIN Line.abs.keys
    /\ \A k \in DOMAIN mark :
          /\ Line.abs.keys[k].mft = mark[k].mft + 1 /\ Line.abs.keys[k].crl = mark[k].crl + 1
          /\ Line.abs.keys[k].objs = mark[k].objs
          /\ Line.abs.keys[k].mft_this >= mark[k].mft_this
\* route origin objects due: every one of them is replaced by a new object
\* (the payloads are the same: the projected publication is unchanged), the
\* numbers of keys with such objects go up by exactly one, other keys stay
KindsOfCa(c) ==
    LET ks == {mark[j].kinds : j \in {i \in DOMAIN mark : mark[i].ca = c}}
    IN  CHOOSE n \in ks : \A m \in ks : m <= n
TExpectRenewed == IsEvent("ExpectRenewed") /\ UNCHANGED vars /\ Projected(Line.abs)
    /\ DOMAIN mark = DOMAIN Line.abs.keys
    /\ \A k \in DOMAIN mark :
          LET old == SetOf(mark[k].roas)
              new == SetOf(Line.abs.keys[k].roas)
          IN  /\ Cardinality(new) = Cardinality(old)
              /\ new \cap old = {}
              /\ SetOf(Line.abs.keys[k].objs) \ new = SetOf(mark[k].objs) \ old
              \* (route origins, provider authorisations and router
              \* certificates are renewed by one command each, and every
              \* command that changes objects re-issues the manifest once)
              \* -- for every key set of the class, also a staging or old
              \* key's that has no such objects itself)
              /\ Line.abs.keys[k].mft = mark[k].mft + KindsOfCa(mark[k].ca)

\* The scheduler thread finishes a task it had claimed and processed before
\* the events in between (StepHold ... Release): whatever those events
\* scheduled -- also a task of the same name as the running one -- must
\* still be in the queue (C09); applying the held result changes nothing
\* that is due.
TRelease == IsEvent("Release") /\ Ok /\ UNCHANGED vars /\ Projected(Line.abs)

\* the harness found nothing left to do after a full refresh round
TSettled == IsEvent("Settled") /\ UNCHANGED vars /\ Projected(Line.abs)

\* (the actions of the CAs do not mention the trust anchor's variables)
TraceNextCa ==
    \/ Setup
    \/ TAddCa \/ TAddParent \/ TRemoveParent \/ TChildRes \/ TChildResSame \/ TChildSuspend \/ TChildSuspendNoop
    \/ TAutoSuspend
    \/ TChildUnsuspend \/ TChildUnsuspendNoop \/ TChildRemove
    \/ TChildMap \/ TRoaAdd \/ TRoaDel \/ TRtrAdd \/ TRtrDel \/ TRoaDelta \/ TAspaSet \/ TAspaDel \/ TRollInit \/ TRollInitNoop
    \/ TRollActivate \/ TRollActivateNoop \/ TDeleteCa \/ TRefresh
    \/ TRefused \/ TStep \/ TRelease \/ TSettled \/ TPubRemove \/ TPubAdd \/ TRepoSyncAll
    \/ TAddForeign \/ TFList \/ TFIssue \/ TFRevoke
    \/ TRepublish \/ TRenew \/ TRestart \/ TDueTouch \/ TRepublishByMargin \/ TExpectByMargin \/ TRepublishByStoreMargin \/ TExpectStoreByMargin \/ TMark \/ TExpectSame \/ TExpectReissued \/ TExpectRenewed

TraceNext ==
    \/ Reset
    \/ TraceNextCa /\ UNCHANGED tavars
    \/ TStepTa \/ TTopRollActivate

TraceSpec == TraceInit /\ [][TraceNext]_tvars

---------------------------------------------------------------------------
(* What is checked in every state of an accepted trace *)

\* the relying-party walk over the real repository agrees with what the
\* specification derives from the published state
RpVrpsObserved == {<<<<v[1], v[2]>>, v[3]>> : v \in SetOf(rp.vrps)}
\* (A route origin object that names several prefixes -- aggregation per
\* origin AS -- is rejected as a whole when one of them is outside the
\* certificate: until the CA has learnt of its smaller certificate the other
\* prefixes of that AS are not validated either.)
RejectedWithSibling(v) ==
    LET r == v[1]
        c == v[2]
    IN  aggm[c] /\ \E s \in SlotsOf(c), x \in {"cur", "old"} : \E r2 \in Products(s, x) :
                     r2[2] = r[2] /\ Prefix(r2) \notin CertRes(s, x)
RpMatches ==
    (l > 1 /\ Rec[l - 1].ev \notin {"reset"})
    => /\ RpVrpsObserved \subseteq RpVrps
       /\ \A v \in RpVrps \ RpVrpsObserved : RejectedWithSibling(v)

\* when the harness reports a fixed point the model must agree that
\* nothing is left to do
SettledAgreed ==
    (l > 1 /\ Rec[l - 1].ev = "Settled")
        => Settled /\ (rp.problems = <<>> \/ ~NoDangling \/ ~NoStuckRequest \/ ~NoLostCert
                       \/ lossy)

\* C03: whatever stopped being current under a key is on that key's CRL for
\* as long as the key publishes one (objects do not expire within a run),
\* and is gone from the repository (keys[k].objs is what is there).
C03_RevokedWhileRelevant ==
    \A k \in DOMAIN keys :
        keys[k].crl >= 0 => (ever[k] \ SetOf(keys[k].objs)) \subseteq SetOf(keys[k].revoked)
\* nothing current is revoked
C03_CurrentNotRevoked ==
    \A k \in DOMAIN keys : SetOf(keys[k].objs) \cap SetOf(keys[k].revoked) = {}
\* C14 / C01: manifest and CRL numbers agree; every file under a key is on
\* its manifest and every listed file is there
C14_NumbersAgree == \A k \in DOMAIN keys : keys[k].mft = keys[k].crl
\* C14 / C09: what a CA's object store holds is published once no repository
\* synchronisation is pending for the CA
C14_StorePublished ==
    \A k \in DOMAIN keys :
        (keys[k].ca \in AllCA /\ SR(keys[k].ca) \notin tasks /\ keys[k].store >= 0
           /\ ~(l <= Len(Rec) /\ Rec[l].ev = "DueTouch"))
        => keys[k].store = keys[k].mft
\* C14: validity windows contain the present
C14_ValidityContainsNow ==
    (l > 1 /\ Rec[l - 1].ev # "reset") =>
        \A k \in DOMAIN keys :
            keys[k].mft >= 0 =>
              keys[k].mft_this <= Rec[l - 1].abs.now /\ Rec[l - 1].abs.now <= keys[k].mft_next
C01_ManifestExact ==
    \A k \in DOMAIN keys : keys[k].unlisted = <<>> /\ keys[k].missing = <<>>

\* C01 / C09: once background work has caught up -- which includes the RRDP
\* update every publication leaves in the task queue -- what is served (the
\* RRDP snapshot the notification file names, the rsync tree) is the
\* repository content
C0109_ServedIsContent ==
    (l > 1 /\ Rec[l - 1].ev = "Settled")
        => rp.rrdpdiff = 0 /\ rp.rsyncdiff = 0

\* C09: the synchronisation of a hosted CA with each of its parents is
\* recurring maintenance: whatever the outcome of a run (success, a refusal by
\* the parent, a parent that does not know the CA any more), the task is in
\* the queue at every instant -- due, scheduled for later, or running --
\* for as long as the CA exists and has that parent
\* (scheduler.rs sync_parent: FollowUp / Reschedule; Done only when the CA or
\* its record of the parent is gone)
C09_ParentSyncKept ==
    (l > 1 /\ Rec[l - 1].ev \notin {"reset", "Setup"} /\ "qsync" \in DOMAIN Rec[l - 1].abs) =>
        \A c \in AllCA : (Ex(c) /\ hasp[c]) => c \in SetOf(Rec[l - 1].abs.qsync)

\* C04 / C09 / C15: at a settle point nothing is left to do between Top and
\* the trust anchor (queued requests answered, answers fetched, certificates
\* published)
C04_TopSettled ==
    (l > 1 /\ Rec[l - 1].ev = "Settled") => ~TaWork

TraceInvariant ==
    /\ TypeOK /\ C0109_ServedIsContent /\ C04_TopSettled /\ C01_TopValid /\ TaExactlyOnce
    /\ C03_RevokedWhileRelevant /\ C03_CurrentNotRevoked
    /\ C14_NumbersAgree /\ C14_ValidityContainsNow /\ C14_StorePublished
    /\ C01_ManifestExact
    /\ RpMatches
    /\ SettledAgreed
    /\ C01_Clean /\ C01_Vrps
    /\ C02_NoOverclaim /\ C02_Converged
    /\ C04_KeysHaveCerts /\ C04_PubKeysMatch

NotReset == l <= Len(Rec) /\ Line.ev # "reset"
\* C14: manifest numbers of a key never go down, and go up whenever the set
\* of objects under the key changes
C14_NumbersRiseStep ==
    \A k \in (DOMAIN keys) \cap (DOMAIN keys') :
        /\ keys'[k].mft >= keys[k].mft
        /\ SetOf(keys'[k].objs) # SetOf(keys[k].objs) => keys'[k].mft > keys[k].mft

TraceStepProps ==
    [][ NotReset => /\ C02_IssuedWithinEntitlementStep
                    /\ C14_NumbersRiseStep
                    /\ C19_ShadowAfterSyncStep ]_tvars

TraceAccepted ==
    LET d == TLCGet("stats").diameter IN
    IF d - 1 = Len(Rec) THEN TRUE
    ELSE /\ PrintT(<<"TRACE_REJECTED", "matched", d - 1, "of", Len(Rec)>>)
         /\ PrintT(<<"TRACE_NEXT", ToJson(Rec[d])>>)
         /\ FALSE
\* the relying-party level expectations, for behaviours in which the
\* publication server's operator did not remove a publisher
T_C01_Clean == lossy \/ C01_Clean
T_C01_Vrps == lossy \/ C01_Vrps
T_C04_PubKeysMatch == lossy \/ C04_PubKeysMatch
T_C02_NoOverclaim == lossy \/ C02_NoOverclaim

=============================================================================
