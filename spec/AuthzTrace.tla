----------------------------- MODULE AuthzTrace -----------------------------
(* Judges what the real daemon did (harness `kv-http run-http`) against     *)
(* Authz.  Every line of the trace is one request: the case as configured   *)
(* in the daemon (route, role contents, credential class, transport, peer   *)
(* mapping, testbed mode) plus what was observed from outside (status       *)
(* class, state digest before/after, CAs shown, audit actor).  TLC          *)
(* recomputes the verdict from the specification; the `expect*` fields the  *)
(* generator printed are not consulted.                                     *)
(*                                                                          *)
(* The lines are independent decisions, so the trace is not a behaviour:    *)
(* the state is just the index of the line being judged, every line is      *)
(* judged, and every mismatch is printed ("MISMATCH").  The run is          *)
(* accepted iff no mismatch was printed and all lines were visited.         *)
EXTENDS Authz, Json, IOUtils

Rec == ndJsonDeserialize(IOEnv.TRACE)

VARIABLE i
Init == i = 0
Next == i < Len(Rec) /\ i' = i + 1

Range(t) == { t[k] : k \in DOMAIN t }

RoleOfJson(j) ==
    [none |-> Range(j.none), any |-> Range(j.any),
     specific |-> [x \in { j.specific[k].ca : k \in DOMAIN j.specific } |->
                      LET k == CHOOSE k \in DOMAIN j.specific :
                                  j.specific[k].ca = x
                      IN Range(j.specific[k].perms)]]

------------------------------------------------------------------------------
\* C13 lines
C13Cfg(l) ==
    [users |-> [u \in {"u"} |-> [pw |-> "pw", role |-> "r"]],
     roles |-> [n \in {"r", "peer"} |->
                   IF n = "r" THEN RoleOfJson(l.role)
                   ELSE RoleOfJson(l.peer_role)],
     unixUsers |-> IF l.peer_mapped THEN [p \in {"me"} |-> "peer"]
                   ELSE [p \in {} |-> ""]]

C13Req(l) ==
    [bearer |-> CASE l.cred = "role"  -> SessionOf(C13Cfg(l), "u")
                  [] l.cred = "admin" -> [kind |-> "admin"]
                  [] l.cred = "wrong" -> [kind |-> "junk"]
                  [] OTHER            -> [kind |-> "none"],
     transport |-> l.transport,
     peer |-> IF l.transport = "unix" THEN "me" ELSE ""]

C13Problems(l) ==
    LET r     == RouteOf(l.route)
        actor == ActsAs(C13Cfg(l), C13Req(l))
        v     == IF l.nomethod THEN NoMethodVerdict(r, l.testbed)
                 ELSE Verdict(r, actor, l.ca, l.testbed)
        shown == Range(l.obs.shown)
        exist == Range(l.obs.existing)
    IN  (IF l.route \notin RouteIds THEN {"unknown route"} ELSE {})
   \cup (IF (~l.nomethod /\ r.m # l.m) \/ r.path # l.path
         THEN {"route changed"} ELSE {})
        \* the login route's credential is the Basic pair, it is served to
        \* everybody who may log in
   \cup (IF l.obs.verdict # v
         THEN {"Served: spec says " \o v \o ", daemon " \o l.obs.verdict}
         ELSE {})
   \cup (IF v = "refused" /\ l.obs.effect
         THEN {"RefusedNoEffect: state changed by a refused request"}
         ELSE {})
   \cup (IF r.kind = "listing" /\ v = "served" /\ l.obs.verdict = "served"
         THEN (IF l.route = "cas_list" /\ shown # Shown(actor, exist)
               THEN {"ListingFiltered: list differs from readable CAs"}
               ELSE {})
              \cup
              (IF ~(shown \subseteq Shown(actor, exist))
               THEN {"ListingFiltered: shows a CA the caller may not read"}
               ELSE {})
         ELSE {})

------------------------------------------------------------------------------
\* C20 lines
C20CfgOf(l) ==
    LET c == l.cfg IN
    [users |-> c.users,
     roles |-> [n \in DOMAIN c.roles |-> RoleOfJson(c.roles[n])],
     unixUsers |-> IF l.peer_role = "" THEN [p \in {} |-> ""]
                   ELSE [p \in {"me"} |-> l.peer_role]]

ProbeRoute(p) == IF p = "ca_show_other" THEN RouteOf("ca_show") ELSE RouteOf(p)
ProbeCa(p) == IF p = "ca_show_other" THEN "ca2" ELSE "ca1"

FpProblems(actor, obs) ==
    { "OnlyGenuineCredentials: probe " \o p \o " spec " \o
        Verdict(ProbeRoute(p), actor, ProbeCa(p), FALSE) \o " daemon " \o obs.fp[p] :
        p \in { q \in DOMAIN obs.fp :
                  obs.fp[q] # Verdict(ProbeRoute(q), actor, ProbeCa(q), FALSE) } }
    \cup
    (IF /\ "routes_update" \in DOMAIN obs.fp
        /\ obs.fp["routes_update"] = "served"
        /\ obs.actor # "user:" \o actor.id
     THEN {"AuditActor: spec user:" \o actor.id \o " daemon " \o obs.actor}
     ELSE {})
    \cup
    (IF /\ "routes_update" \in DOMAIN obs.fp
        /\ obs.fp["routes_update"] # "served"
        /\ obs.actor # ""
     THEN {"RefusedNoEffect: command recorded for a refused request"}
     ELSE {})

C20Problems(l) ==
    LET cfg == C20CfgOf(l) IN
    IF l.table \in {"chain", "stale"}
    THEN LET req == [bearer |-> l.bearer, transport |-> l.transport,
                     peer |-> IF l.transport = "unix" THEN "me" ELSE ""]
         IN FpProblems(ActsAs(cfg, req), l.obs)
    ELSE LET ok == LoginSucceeds(cfg, l.name, l.obs.pw_normal)
             actor == IF ok
                      THEN ActsAs(cfg, [bearer |-> SessionOf(cfg, l.name),
                                        transport |-> l.transport, peer |-> ""])
                      ELSE Nobody
         IN (IF (l.obs.login = "ok") # ok
             THEN {"LoginRule: spec " \o (IF ok THEN "ok" ELSE "refused")
                     \o " daemon " \o l.obs.login}
             ELSE {})
            \cup
            (IF ok /\ l.obs.login = "ok"
             THEN (IF l.obs.id # l.name \/ l.obs.role # cfg.users[l.name].role
                   THEN {"LoginIdentity: logged in as " \o l.obs.id \o "/"
                           \o l.obs.role}
                   ELSE {})
                  \cup FpProblems(actor, l.obs)
             ELSE {})

------------------------------------------------------------------------------
Problems(l) ==
    IF l.ev = "c13" THEN C13Problems(l) ELSE C20Problems(l)

\* Always TRUE; prints the mismatches of the line just reached.
Judge ==
    i > 0 =>
        LET p == Problems(Rec[i]) IN
        p # {} => PrintT(<<"MISMATCH", i, ToJson(p)>>)

Visited ==
    LET d == TLCGet("stats").diameter IN
    IF d - 1 = Len(Rec) THEN TRUE
    ELSE PrintT(<<"TRACE_INCOMPLETE", d - 1, Len(Rec)>>) /\ FALSE
=============================================================================
