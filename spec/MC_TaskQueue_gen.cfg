CONSTANTS
  Names = {"start", "rep", "ren", "snap", "sa", "sb"}
  Recurring = {"rep", "ren", "snap"}
  StartTask = "start"
  MaxTs = 4
  MaxRun = 3
  MaxDup = 2
  RequeueMin = 1
  ModesUsed = {"IfMissing", "ReplaceExisting", "ReplaceExistingSoonest", "FinishOrReplaceExisting", "FinishOrReplaceExistingSoonest"}
  Depth = 25
  NowLevel = 1
  MaxStreak = 2
  MaxCrashes = 3
  EnvNames = {"rep", "ren", "snap", "sa", "sb"}
  EnvTs = {0, 3, 4}
INIT GenInit
NEXT GenNext
INVARIANT PrintBehaviour
CHECK_DEADLOCK FALSE
