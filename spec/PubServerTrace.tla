--------------------------- MODULE PubServerTrace ---------------------------
(* Trace specification for C10: checks that a trace recorded from the real *)
(* publication server (harness-pub, run-pub) is a behaviour of PubServer    *)
(* and satisfies the properties of C10.                                    *)
(*                                                                         *)
(* The hidden state (registered publishers, snapshot objects, staged       *)
(* elements, RRDP serial) follows the specification *given the reply the   *)
(* real server gave* (the XxxO actions of PubServer); the observation      *)
(* variables view and last are what the real server answered.  A real      *)
(* answer that differs from the specified one therefore shows up as a      *)
(* violation of a named property of C10, evaluated by TLC.                 *)
EXTENDS PubServer, PubServerNames, Json, IOUtils

Rec == ndJsonDeserialize(IOEnv.TRACE)

VARIABLE l      \* next line of the trace

Line == Rec[l]

SeqToSet(s) == {s[i] : i \in 1..Len(s)}
ObjSet(arr) == {<<o[1], o[2]>> : o \in SeqToSet(arr)}
ElemSet(arr) == {[k |-> e.k, u |-> e.u, c |-> e.c, h |-> e.h] : e \in SeqToSet(arr)}

HasList(r, p) == \E i \in 1..Len(r.lists) : r.lists[i].p = p
ListOf(r, p) == r.lists[CHOOSE i \in 1..Len(r.lists) : r.lists[i].p = p]
ViewOf(r) == [p \in Pubs |-> IF HasList(r, p) THEN ObjSet(ListOf(r, p).objs) ELSE {}]

IsEvent(e) == l <= Len(Rec) /\ Line.ev = e /\ l' = l + 1

TraceInit == l = 1 /\ Init

Reset ==
    /\ IsEvent("reset")
    /\ pubs' = {} /\ cur' = [p \in Pubs |-> {}] /\ staged' = [p \in Pubs |-> {}]
    /\ session' = 1 /\ serial' = 1 /\ deltas' = <<>>
    /\ view' = [p \in Pubs |-> {}] /\ last' = NoRequest

\* RepositoryManager::init, and the file system events of C11
Skip == (IsEvent("Init") \/ IsEvent("fs") \/ IsEvent("fserr") \/ IsEvent("fsfail") \/ IsEvent("wend") \/ IsEvent("Restart")
         \/ IsEvent("Rewrite"))
        /\ UNCHANGED vars

TAdd == IsEvent("Add") /\ AddPublisherO(Line.p, Line.ok) /\ view' = ViewOf(Line)
TRemove == IsEvent("Remove") /\ RemovePublisherO(Line.p, Line.ok) /\ view' = ViewOf(Line)
TDelta == IsEvent("Delta") /\ DeltaO(Line.p, ElemSet(Line.elems), Line.ok) /\ view' = ViewOf(Line)
TList == IsEvent("List") /\ ListO(Line.p, Line.ok, ObjSet(Line.listed)) /\ view' = ViewOf(Line)
\* the age-based choices are the environment's (the configuration of the run
\* fixes them through MinAge / MaxAge)
TUpdate == IsEvent("Update")
           /\ \E y \in YoungChoices : \E o \in OldChoices(y) : RrdpUpdateAged(y, o)
           /\ view' = ViewOf(Line)
TReset == IsEvent("Reset") /\ SessionResetO /\ view' = ViewOf(Line)

TraceNext == Reset \/ Skip \/ TAdd \/ TRemove \/ TDelta \/ TList \/ TUpdate \/ TReset

TraceSpec == TraceInit /\ [][TraceNext]_<<vars, l>>

\* the line that produced the current state
Prev == Rec[l - 1]
AtRequest == l > 1 /\ Prev.ev \in {"Add", "Remove", "Delta", "List", "Update", "Reset"}

\* the action properties of C10 on every step that is not a separator
NotReset == l <= Len(Rec) /\ Line.ev # "reset"
TraceAppliedIff == [][NotReset => AppliedIffStep]_<<vars, l>>
TraceDeltaAtomic == [][NotReset => DeltaAtomicStep]_<<vars, l>>
TraceUnknownRefused == [][NotReset => UnknownRefusedStep]_<<vars, l>>
TraceIsolation == [][NotReset => IsolationStep]_<<vars, l>>
TraceRemoveWithdrawsExactlyOwn == [][NotReset => RemoveWithdrawsExactlyOwnStep]_<<vars, l>>
TraceUpdatePublishesViews == [][NotReset => UpdatePublishesViewsStep]_<<vars, l>>
TraceSerialPlusOne == [][NotReset => SerialPlusOneStep]_<<vars, l>>
TraceSessionOnlyOnReset == [][NotReset => SessionOnlyOnResetStep]_<<vars, l>>

TraceTypeOK == TypeOK
TraceStagedApplies == StagedAppliesToSnapshot
TraceUnregistered == UnregisteredHasNothing

\* conformance of the remaining observations
NoPanic == AtRequest => ~Prev.panic
\* repo_stats agree with the logical RRDP state (unless the write was cut:
\* C11's business)
StatsAgree ==
    AtRequest /\ Prev.stats.known =>
        /\ Prev.stats.serial = serial
        /\ Prev.ev # "Reset" => Prev.stats.session = session
\* get_publisher_details: known iff registered, same objects as the list
DetailsAgree ==
    AtRequest =>
        \A i \in 1..Len(Prev.lists) :
            LET e == Prev.lists[i]
            IN  /\ e.details.known <=> e.p \in pubs
                /\ e.details.known =>
                      /\ e.details.jail_ok
                      /\ ObjSet(e.details.files) = ObjSet(e.objs)
\* What an RRDP update put on disk (projected at the "wend" that follows an
\* Update; C10 runs have no cuts): the delta file of the new serial holds
\* exactly the merged staged elements (with the hashes of the objects the
\* snapshot held - the merge table), the snapshot file exactly the
\* publishers' objects.
AtWendOk == l > 1 /\ Prev.ev = "wend" /\ Prev.wres = "ok" /\ Prev.of \in {"Update", "Reset"}
DiskFiles(k) == {f \in SeqToSet(Prev.disk.files) : f.k = k /\ f.s = session /\ f.n = serial}
PublishedAgrees ==
    AtWendOk =>
        /\ \A f \in DiskFiles("snap") : ObjSet(f.body) = CurAll(cur) /\ f.dup = CurDup(cur)
        /\ DiskFiles("snap") # {}
        /\ deltas # <<>> =>
              /\ DiskFiles("delta") # {}
              /\ \A f \in DiskFiles("delta") :
                    ElemSet(f.body) = deltas[1].body /\ f.dup = deltas[1].dup

\* requests that the specification refuses / accepts are refused / accepted
RepliesAgree ==
    AtRequest =>
        /\ Prev.ev = "Add" => (Prev.ok <=> last.ok)
        /\ Prev.ev \in {"Update", "Reset"} => Prev.ok

TraceAccepted ==
    LET d == TLCGet("stats").diameter IN
    IF d - 1 = Len(Rec) THEN TRUE
    ELSE /\ PrintT(<<"TRACE_REJECTED", "matched", d - 1, "of", Len(Rec)>>)
         /\ PrintT(<<"TRACE_NEXT", ToJson(Rec[d])>>)
         /\ FALSE
=============================================================================
