--------------------------- MODULE MC_Krill_live ---------------------------
(* Liveness of Krill.tla: C02 "converges" and C04 "always completes" as     *)
(* temporal properties, checked by TLC under fairness of the background     *)
(* tasks.  The environment performs at most MaxApi API operations (MC_Krill) *)
(* and the periodic refresh (every CA is told to synchronise with its       *)
(* parents: the recurring SyncParent tasks of the code) recurs for ever.    *)
(* Fairness is per task kind and CA: a task that stays due is run.          *)
(* No VIEW and no state constraint: a constraint could hide a cycle.        *)
EXTENDS MC_Krill

lvars == <<vars, napi>>

Quiet == UNCHANGED tavars /\ napi' = napi

LiveNext == MCNext \/ (RefreshAll /\ Quiet)

ParentSync(c) == SyncParentSend(c) \/ SyncParentList(c) \/ SyncParentFails(c)
                 \/ SyncParentNoParent(c)
RepoSync(c) == SyncRepo(c) \/ SyncRepoFails(c)

LiveSpec ==
    /\ MCInit /\ [][LiveNext]_lvars
    /\ WF_lvars(RefreshAll /\ Quiet)
    /\ \A c \in AllCA :
        /\ WF_lvars(ParentSync(c) /\ Quiet)
        /\ WF_lvars(RepoSync(c) /\ Quiet)
        /\ WF_lvars(RcRemoved(c) /\ Quiet)
        /\ WF_lvars(SyncDropped(c) /\ Quiet)

\* the CA can reach a parent that knows it
Reach(c) == /\ Ex(c) /\ hasp[c] /\ parent[c] \in AllCA /\ exists[parent[c]]
            /\ cstate[c] # "none"

\* C04: a roll always completes.  After the activation the old key is
\* revoked and its publication point goes away; a new key gets its
\* certificate (unless the parent has nothing to offer any more: known
\* finding C02-open-request-blocks-listing).  "Waiting for the operator to
\* activate" (roll_new) is at rest, not stuck.
C04_OldKeyGoes ==
    \A c \in Sub : (rc[c] = "roll_old") ~> (rc[c] # "roll_old" \/ ~Reach(c))
C04_NewKeyCertified ==
    \A c \in Sub : (rc[c] = "roll_pending")
                      ~> (rc[c] # "roll_pending" \/ ~Reach(c) \/ Offer(c) = NoRes)
\* ... and then the old key's publication point is gone from the repository
C04_OldPointGoes ==
    \A c \in Sub : (pub[c].old /\ rc[c] = "active" /\ exists[c] /\ pubknown[c])
                      ~> (~pub[c].old \/ rc[c] # "active" \/ ~exists[c] \/ ~pubknown[c])

\* C02: once the environment is done, every CA ends up -- for good -- with
\* exactly what its parent offers, no open request, and the parent issuing
\* exactly the certificates the CA holds (the exceptions are the recorded
\* findings StuckRequest / LostCert, and CAs whose parent is gone).
Converged == \A c \in AllCA : NoOpenWork(c)
C02_ConvergesForGood == <>[]Converged

\* C01 / C09: what a CA's object store holds is published again and again
\* (every change leaves a repository synchronisation that runs)
C09_PublishedInfinitelyOften ==
    \A c \in Sub : []<>((IsCa(c) /\ exists[c] /\ pubknown[c]) => pub[c] = Obj(c))

\* anti-vacuity: a roll that waits for the operator rests in roll_new, so
\* this must be violated (the checks require TLC to find the lasso)
Sanity_RollNewNeverRests ==
    \A c \in Sub : (rc[c] = "roll_new") ~> (rc[c] # "roll_new")
=============================================================================
