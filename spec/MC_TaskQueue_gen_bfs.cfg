CONSTANTS
  Names = {"start", "rep", "ren", "snap", "sa", "sb"}
  Recurring = {"rep", "ren", "snap"}
  StartTask = "start"
  MaxTs = 4
  MaxRun = 3
  MaxDup = 2
  RequeueMin = 1
  ModesUsed = {"IfMissing", "ReplaceExistingSoonest"}
  Depth = 6
  NowLevel = 1
  MaxStreak = 1
  MaxCrashes = 1
  EnvNames = {"rep", "sa"}
  EnvTs = {0, 3}
INIT GenInit
NEXT GenNext
CONSTRAINT DepthBound
INVARIANT PrintBehaviour
CHECK_DEADLOCK FALSE
