CONSTANTS
  MaxGen = 2
  CheckRecipient = FALSE
  Mutant = "none"
  CaKeys <- SmallCaKeys
  Lims <- SmallLims
  Uris <- SmallUris
  Vals <- SmallVals
  Updatable <- SmallUpdatable
INIT MCInit
NEXT MCNext
VIEW View
INVARIANT TypeOK
INVARIANT WithinScope
PROPERTY RefusedUnchanged
PROPERTY EffectsWithinSender
PROPERTY ReplySignedByCurrentServerKey
PROPERTY ReplacedIdentityRefused
CHECK_DEADLOCK FALSE
