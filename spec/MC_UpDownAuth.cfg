CONSTANTS
  MaxGen = 2
  CheckRecipient = FALSE
  Mutant = "none"
  CaKeys <- SmallCaKeys
  Lims <- SmallLims
  Uris <- SmallUris
  Vals <- SmallVals
  Suspendable <- OneSuspendable
  Updatable <- SmallUpdatable
INIT MCInit
NEXT MCNext
VIEW View
INVARIANT TypeOK
INVARIANT WithinScope
INVARIANT KeysExclusive
PROPERTY RefusedUnchanged
PROPERTY EffectsWithinSender
PROPERTY ReplySignedByCurrentServerKey
PROPERTY ReplacedIdentityRefused
CHECK_DEADLOCK FALSE
