CONSTANTS
  MaxGen = 2
  CheckRecipient = FALSE
  Mutant = "none"
  CaKeys <- TinyCaKeys
  Lims <- TinyLims
  Uris <- TinyUris
  Vals <- SmallVals
  Suspendable <- OneSuspendable
  Updatable <- TinyUpdatable
INIT MCInit
NEXT MCNext
VIEW View
INVARIANT TypeOK
INVARIANT WithinScope
INVARIANT KeysExclusive
PROPERTY RefusedUnchanged
PROPERTY EffectsWithinSender
PROPERTY ReplySignedByCurrentServerKey
PROPERTY ReplacedIdentityRefused
CHECK_DEADLOCK FALSE
