CONSTANTS
  Pubs <- PubsOne
  Uris <- UrisOneX
  Contents <- Cont
  Size <- SizeSmall
  MinNr = 0
  MaxNr = 2
  MinAge = "zero"
  MaxAge = "inf"
  MaxSerial = 3
  MaxSession = 2
  DeltaChoices <- Deltas1
  MaxFaults = 1
  Depth = 99
  FaultOdds = 1
SPECIFICATION MCSpec
CONSTRAINT RBound
VIEW RView
INVARIANT Inv11
INVARIANT DeltasBoundedOnDisk
PROPERTY DiskFollowsLogical
PROPERTY WriteOk
PROPERTY RsyncEqualsSnapshotAfterWrite
CHECK_DEADLOCK FALSE
