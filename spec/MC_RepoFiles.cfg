\* Exhaustive: one publisher, one URI, every cut (crash and injected error)
\* of every write, one fault per behaviour; the properties the specification
\* (which models the code's quirks) satisfies.  checks/c11.py generates the
\* other configurations from the same template.
CONSTANTS
  Pubs <- PubsOne
  Uris <- UrisOneX
  Contents <- Cont
  Size <- SizeSmall
  MinNr = 0
  MaxNr = 2
  MinAge = "zero"
  MaxAge = "inf"
  MaxNrEquality = TRUE
  MaxSerial = 4
  MaxSession = 2
  DeltaChoices <- Deltas1
  TruncateOnCreate = FALSE
  RemoveOldFirst = FALSE
  MaxFaults = 1
  Depth = 99
  FaultOdds = 1
SPECIFICATION MCSpec
CONSTRAINT RBound
VIEW RView
INVARIANT RTypeOK
INVARIANT NotificationRefsExist
INVARIANT SnapshotIsStateAtSerial
INVARIANT ClientCatchesUp
INVARIANT DeltasContiguousOnDisk
INVARIANT DeltasContiguousToCurrent
PROPERTY DiskFollowsLogical
PROPERTY WriteOk
PROPERTY SerialPlusOne
PROPERTY SessionOnlyOnReset
CHECK_DEADLOCK FALSE
