\* Exhaustive: one publisher, one URI, every cut (crash and injected error)
\* of every write, one fault per behaviour, the current (repaired) code.
\* checks/c11.py generates the other configurations from the same template.
CONSTANTS
  Pubs <- PubsOne
  Uris <- UrisOneX
  Contents <- Cont
  Size <- SizeSmall
  MinNr = 0
  MaxNr = 2
  MinAge = "zero"
  MaxAge = "inf"
  MaxNrEquality = FALSE
  MaxSerial = 4
  MaxSession = 2
  DeltaChoices <- Deltas1
  TruncateOnCreate = TRUE
  RemoveTmpFirst = TRUE
  RemoveOldFirst = TRUE
  MaxFaults = 1
  Depth = 99
  FaultOdds = 1
SPECIFICATION MCSpec
CONSTRAINT RBound
VIEW RView
INVARIANT Inv11
INVARIANT DeltasContiguousToCurrent
INVARIANT DeltasBoundedOnDisk
INVARIANT DeltasNeverExceedMaxNrOnDisk
PROPERTY DiskFollowsLogical
PROPERTY WriteOk
PROPERTY RsyncEqualsSnapshotAfterWrite
PROPERTY SerialPlusOne
PROPERTY SessionOnlyOnReset
CHECK_DEADLOCK FALSE
