CONSTANTS
  Names = {"start", "rep", "ren", "sa", "sb"}
  Recurring = {"rep", "ren"}
  StartTask = "start"
  MaxTs = 3
  MaxRun = 2
  MaxDup = 2
  RequeueMin = 1
  ModesUsed = {"IfMissing", "ReplaceExistingSoonest"}
SPECIFICATION Spec
INVARIANT TypeOK
INVARIANT RecurringQueued
INVARIANT RunningIsCurrent
PROPERTY ClaimIsEarliestDue
PROPERTY SoonestKept
PROPERTY NoOrphanAfterStartup
PROPERTY NoTaskLost
CHECK_DEADLOCK FALSE
