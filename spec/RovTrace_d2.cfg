CONSTANTS
  Depth = 2
  Origins = {1, 2}
SPECIFICATION TraceSpec
POSTCONDITION AllLinesJudged
CHECK_DEADLOCK FALSE
