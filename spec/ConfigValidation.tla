-------------------------- MODULE ConfigValidation --------------------------
(* Validation of configuration changes of a CA against the resources it    *)
(* holds (property C05): which requests are accepted, what an accepted      *)
(* request does to the configuration, and that a refused request changes    *)
(* nothing.  Function-style specification: TLC enumerates the requests      *)
(* (MC_ConfigValidation_gen) and evaluates these definitions both to check  *)
(* the sanity theorems below and - in ConfigValidationTrace - to judge what *)
(* the real CA did with each request.                                       *)
(*                                                                          *)
(* The CA under test holds AS 1 and AS 2 (not AS 3), 10.0.0.0/16 and        *)
(* 2001:db8::/32; the harness maps the atoms below onto these resources.    *)
(* A state may contain entries for resources the CA held when they were     *)
(* configured and has lost since (u4, u6, AS 3): they can be removed but    *)
(* not added, replaced or otherwise re-asserted.                            *)
EXTENDS Naturals, Integers, Sequences, FiniteSets

----------------------------------------------------------------------------
(* Resources *)

PfxInfo == [
    h4 |-> [fam |-> 4, len |-> 24, held |-> TRUE],   \* 10.0.0.0/24
    b4 |-> [fam |-> 4, len |-> 16, held |-> TRUE],   \* 10.0.0.0/16, all of it
    u4 |-> [fam |-> 4, len |-> 24, held |-> FALSE],  \* 11.0.0.0/24
    o4 |-> [fam |-> 4, len |-> 15, held |-> FALSE],  \* 10.0.0.0/15, too large
    h6 |-> [fam |-> 6, len |-> 48, held |-> TRUE],   \* 2001:db8::/48
    u6 |-> [fam |-> 6, len |-> 48, held |-> FALSE] ] \* 2001:db9::/48
Pfx == DOMAIN PfxInfo
FamMax(f) == IF f = 4 THEN 32 ELSE 128

HeldAsns == {1, 2}        \* AS 3 is not held; providers are AS 11, AS 12

(* Resource atoms for child entitlements. *)
AtomHeld == [ a1 |-> TRUE, a3 |-> FALSE, h4 |-> TRUE, b4 |-> TRUE,
              u4 |-> FALSE, o4 |-> FALSE, h6 |-> TRUE, B6 |-> TRUE ]
(* Named resource sets a child can be entitled to (sets of atoms). *)
ResPool == [
    none  |-> {},
    sub4  |-> {"h4"},
    asn   |-> {"a1"},
    mix   |-> {"a1", "h4", "h6"},
    all   |-> {"a1", "b4", "B6"},     \* exactly what the parent holds
    unh4  |-> {"u4"},
    part  |-> {"h4", "u4"},
    big4  |-> {"o4"},
    unhas |-> {"a3"},
    partas |-> {"a1", "a3"} ]
ResNames == DOMAIN ResPool
ResHeld(n) == \A a \in ResPool[n] : AtomHeld[a]

----------------------------------------------------------------------------
(* ROA deltas.  An entry is [p, ml, asn, c]: prefix atom, maximum length    *)
(* (NoMl = implicit), origin AS, comment ("" = none).  The configuration is *)
(* a set of [pl, c] with pl = [p, ml, asn] a payload with explicit maximum  *)
(* length, at most one per payload.                                         *)

NoMl == -1

NormMl(e) == IF e.ml = NoMl THEN PfxInfo[e.p].len ELSE e.ml
Payload(e) == [p |-> e.p, ml |-> NormMl(e), asn |-> e.asn]

MlValid(pl) == /\ pl.ml >= PfxInfo[pl.p].len
               /\ pl.ml <= FamMax(PfxInfo[pl.p].fam)
PfxHeld(pl) == PfxInfo[pl.p].held

Has(cfg, pl) == \E x \in cfg : x.pl = pl
CommentOf(cfg, pl) == (CHOOSE x \in cfg : x.pl = pl).c
Without(cfg, pl) == { x \in cfg : x.pl # pl }

(* Removals are processed first, one after the other, then the additions,   *)
(* one after the other; "present" always refers to the configuration as     *)
(* changed by the entries before (so a payload can be removed and added     *)
(* again in one delta, and a second identical addition is a duplicate).     *)
(* An entry that is in error changes nothing; the delta is refused iff any  *)
(* entry is in error.  The result is [cfg, errs].                           *)
RECURSIVE RoaRemove(_, _, _, _)
RoaRemove(cfg, errs, rem, i) ==
    IF i > Len(rem) THEN [cfg |-> cfg, errs |-> errs]
    ELSE LET pl == Payload(rem[i]) IN
         IF Has(cfg, pl) THEN RoaRemove(Without(cfg, pl), errs, rem, i + 1)
         ELSE RoaRemove(cfg, errs \cup {"remove-not-present"}, rem, i + 1)

(* "Already present (same comment)" is judged as the code judges it: the    *)
(* comment an authorisation is compared with is the one it had before the   *)
(* additions of this delta, or - for an authorisation introduced by this    *)
(* delta - the comment of the entry that introduced it (trk); an entry with *)
(* another comment is a comment update, and the last one wins.              *)
RECURSIVE RoaAdd(_, _, _, _, _)
RoaAdd(cfg, trk, errs, add, i) ==
    IF i > Len(add) THEN [cfg |-> cfg, errs |-> errs]
    ELSE LET e == add[i]
             pl == Payload(e) IN
         IF ~ MlValid(pl)
           THEN RoaAdd(cfg, trk, errs \cup {"invalid-max-length"}, add, i + 1)
         ELSE IF ~ PfxHeld(pl)
           THEN RoaAdd(cfg, trk, errs \cup {"prefix-not-held"}, add, i + 1)
         ELSE IF Has(trk, pl) /\ CommentOf(trk, pl) = e.c
           THEN RoaAdd(cfg, trk, errs \cup {"already-present"}, add, i + 1)
         ELSE RoaAdd(Without(cfg, pl) \cup {[pl |-> pl, c |-> e.c]},
                     IF Has(trk, pl) THEN trk
                     ELSE trk \cup {[pl |-> pl, c |-> e.c]},
                     errs, add, i + 1)

(* All or nothing: a request with an entry in error changes nothing. *)
Final(cfg, r) == [cfg |-> IF r.errs = {} THEN r.cfg ELSE cfg, errs |-> r.errs]

RoaDelta(cfg, add, rem) ==
    LET r == RoaRemove(cfg, {}, rem, 1) IN
    Final(cfg, RoaAdd(r.cfg, r.cfg, r.errs, add, 1))

RoaDeltaAccepted(cfg, add, rem) == RoaDelta(cfg, add, rem).errs = {}

----------------------------------------------------------------------------
(* ASPA.  The configuration is a set of [cust, provs] (provs a non-empty    *)
(* set), at most one per customer AS.                                       *)

AspaHas(cfg, c) == \E x \in cfg : x.cust = c
AspaOf(cfg, c) == (CHOOSE x \in cfg : x.cust = c).provs
AspaWithout(cfg, c) == { x \in cfg : x.cust # c }
SeqSet(s) == { s[i] : i \in 1..Len(s) }
HasDup(s) == \E i, j \in 1..Len(s) : i # j /\ s[i] = s[j]

(* Definitions update: removals first (each must exist), then add-or-       *)
(* replace entries [cust, provs] with provs a sequence.                     *)
RECURSIVE AspaRemove(_, _, _, _)
AspaRemove(cfg, errs, rem, i) ==
    IF i > Len(rem) THEN [cfg |-> cfg, errs |-> errs]
    ELSE IF AspaHas(cfg, rem[i])
         THEN AspaRemove(AspaWithout(cfg, rem[i]), errs, rem, i + 1)
         ELSE AspaRemove(cfg, errs \cup {"remove-unknown-customer"}, rem, i + 1)

AspaDefErrors(d) ==
    (IF Len(d.provs) = 0 THEN {"providers-empty"} ELSE {})
    \cup (IF d.cust \in SeqSet(d.provs) THEN {"customer-as-provider"} ELSE {})
    \cup (IF HasDup(d.provs) THEN {"providers-duplicate"} ELSE {})
    \cup (IF d.cust \notin HeldAsns THEN {"customer-not-held"} ELSE {})

RECURSIVE AspaAdd(_, _, _, _)
AspaAdd(cfg, errs, add, i) ==
    IF i > Len(add) THEN [cfg |-> cfg, errs |-> errs]
    ELSE LET d == add[i] IN
         IF AspaDefErrors(d) # {}
         THEN AspaAdd(cfg, errs \cup AspaDefErrors(d), add, i + 1)
         ELSE AspaAdd(AspaWithout(cfg, d.cust)
                        \cup {[cust |-> d.cust, provs |-> SeqSet(d.provs)]},
                      errs, add, i + 1)

AspaUpdate(cfg, add, rem) ==
    LET r == AspaRemove(cfg, {}, rem, 1) IN
    Final(cfg, AspaAdd(r.cfg, r.errs, add, 1))

(* Providers update of one customer: lenient by design (removing a provider *)
(* that is not listed and adding one that is are fine, krill documents this *)
(* as idempotence); refused iff it would leave a non-empty definition for a *)
(* customer AS that is not held or that lists the customer itself.  A       *)
(* definition left without providers is removed.                            *)
AspaProviders(cfg, c, added, removed) ==
    LET old == IF AspaHas(cfg, c) THEN AspaOf(cfg, c) ELSE {}
        new == (old \ SeqSet(removed)) \cup SeqSet(added)
        errs == IF new = old \/ new = {} THEN {}
                ELSE (IF c \notin HeldAsns THEN {"customer-not-held"} ELSE {})
                     \cup (IF c \in new THEN {"customer-as-provider"} ELSE {})
    IN [ cfg |-> IF errs # {} THEN cfg
                 ELSE IF new = {} THEN AspaWithout(cfg, c)
                 ELSE AspaWithout(cfg, c) \cup {[cust |-> c, provs |-> new]},
         errs |-> errs ]

----------------------------------------------------------------------------
(* Router keys (BGPsec).  The configuration is a set of [asn, key].  An     *)
(* added definition is [asn, key, sig] with sig = "the CSR is validly       *)
(* self-signed".                                                            *)

RECURSIVE RtrRemove(_, _, _, _)
RtrRemove(cfg, errs, rem, i) ==
    IF i > Len(rem) THEN [cfg |-> cfg, errs |-> errs]
    ELSE LET k == [asn |-> rem[i].asn, key |-> rem[i].key] IN
         IF k \in cfg THEN RtrRemove(cfg \ {k}, errs, rem, i + 1)
         ELSE RtrRemove(cfg, errs \cup {"remove-unknown-key"}, rem, i + 1)

RECURSIVE RtrAdd(_, _, _, _)
RtrAdd(cfg, errs, add, i) ==
    IF i > Len(add) THEN [cfg |-> cfg, errs |-> errs]
    ELSE LET d == add[i] IN
         IF ~ d.sig THEN RtrAdd(cfg, errs \cup {"csr-not-self-signed"}, add, i + 1)
         ELSE IF d.asn \notin HeldAsns
              THEN RtrAdd(cfg, errs \cup {"as-not-held"}, add, i + 1)
         ELSE RtrAdd(cfg \cup {[asn |-> d.asn, key |-> d.key]}, errs, add, i + 1)

RtrUpdate(cfg, add, rem) ==
    LET r == RtrRemove(cfg, {}, rem, 1) IN
    Final(cfg, RtrAdd(r.cfg, r.errs, add, 1))

----------------------------------------------------------------------------
(* Children.  The configuration is a set of [h, res] (res a name of         *)
(* ResPool), at most one per handle.                                        *)

ChildHas(cfg, h) == \E x \in cfg : x.h = h
ChildWithout(cfg, h) == { x \in cfg : x.h # h }

ChildAdd(cfg, h, res) ==
    LET errs == (IF ResPool[res] = {} THEN {"no-resources"} ELSE {})
                \cup (IF ~ ResHeld(res) THEN {"resources-not-held"} ELSE {})
                \cup (IF ChildHas(cfg, h) THEN {"duplicate-child"} ELSE {})
    IN [ cfg |-> IF errs = {} THEN cfg \cup {[h |-> h, res |-> res]} ELSE cfg,
         errs |-> errs ]

ChildUpdate(cfg, h, res) ==
    LET errs == (IF ResPool[res] = {} THEN {"no-resources"} ELSE {})
                \cup (IF ~ ResHeld(res) THEN {"resources-not-held"} ELSE {})
                \cup (IF ~ ChildHas(cfg, h) THEN {"unknown-child"} ELSE {})
    IN [ cfg |-> IF errs = {}
                 THEN ChildWithout(cfg, h) \cup {[h |-> h, res |-> res]}
                 ELSE cfg,
         errs |-> errs ]

----------------------------------------------------------------------------
(* A case is [kind, state, req]; Outcome gives [cfg, errs] for it.          *)

Outcome(c) ==
    CASE c.kind = "roa"   -> RoaDelta(c.state, c.req.add, c.req.rem)
      [] c.kind = "aspa"  -> AspaUpdate(c.state, c.req.add, c.req.rem)
      [] c.kind = "aspap" -> AspaProviders(c.state, c.req.cust, c.req.add,
                                           c.req.rem)
      [] c.kind = "rtr"   -> RtrUpdate(c.state, c.req.add, c.req.rem)
      [] c.kind = "chadd" -> ChildAdd(c.state, c.req.h, c.req.res)
      [] c.kind = "chupd" -> ChildUpdate(c.state, c.req.h, c.req.res)

Accepted(c) == Outcome(c).errs = {}

(* AllOrNothing: the configuration after the request is the outcome's       *)
(* configuration, which for a refused request is the one before.            *)
AllOrNothing(c) == ~ Accepted(c) => Outcome(c).cfg = c.state

----------------------------------------------------------------------------
(* Sanity theorems, checked by TLC on every enumerated case.                *)

\* everything configured is backed by held resources and well-formed
RoaCfgOK(cfg) == \A x \in cfg : MlValid(x.pl) /\ PfxHeld(x.pl)
                                /\ \A y \in cfg : y.pl = x.pl => y = x
AspaCfgOK(cfg) == \A x \in cfg : /\ x.cust \in HeldAsns
                                 /\ x.provs # {} /\ x.cust \notin x.provs
                                 /\ \A y \in cfg : y.cust = x.cust => y = x
RtrCfgOK(cfg) == \A x \in cfg : x.asn \in HeldAsns
ChildCfgOK(cfg) == \A x \in cfg : /\ ResPool[x.res] # {} /\ ResHeld(x.res)
                                  /\ \A y \in cfg : y.h = x.h => y = x

CfgOK(kind, cfg) ==
    CASE kind = "roa" -> RoaCfgOK(cfg)
      [] kind \in {"aspa", "aspap"} -> AspaCfgOK(cfg)
      [] kind = "rtr" -> RtrCfgOK(cfg)
      [] OTHER -> ChildCfgOK(cfg)

\* nothing that is not backed by held resources is ever created or
\* re-asserted by an accepted request (whatever the state contained
\* before), and a refused request changes nothing
Preserves(c) == /\ CfgOK(c.kind, c.state) => CfgOK(c.kind, Outcome(c).cfg)
                /\ CfgOK(c.kind, Outcome(c).cfg \ c.state)
                /\ AllOrNothing(c)

\* an implicit maximum length is the same payload as the explicit one
NormTheorem == \A p \in Pfx, a \in {0, 1} :
    Payload([p |-> p, ml |-> NoMl, asn |-> a])
      = Payload([p |-> p, ml |-> PfxInfo[p].len, asn |-> a])

\* an accepted ROA delta is applied entirely: afterwards every added
\* payload is present with the comment of its last addition, and every
\* removed payload that was not added again is absent
RoaApplied(c) ==
    (c.kind = "roa" /\ Accepted(c)) =>
      LET out == Outcome(c).cfg
          add == c.req.add
          rem == c.req.rem IN
      /\ \A i \in 1..Len(add) :
            /\ Has(out, Payload(add[i]))
            /\ (\A j \in (i+1)..Len(add) : Payload(add[j]) # Payload(add[i]))
                  => CommentOf(out, Payload(add[i])) = add[i].c
      /\ \A i \in 1..Len(rem) :
            (\A j \in 1..Len(add) : Payload(add[j]) # Payload(rem[i]))
               => ~ Has(out, Payload(rem[i]))
      /\ \A x \in c.state :
            ( (\A i \in 1..Len(rem) : Payload(rem[i]) # x.pl)
              /\ (\A j \in 1..Len(add) : Payload(add[j]) # x.pl) ) => x \in out

SanityTheorems(c) == Preserves(c) /\ RoaApplied(c)
=============================================================================
