--------------------------- MODULE AggStoreTrace ---------------------------
(* Trace specification: a trace recorded from the real aggregate store     *)
(* (harness-store run-conc / run-hist) is accepted only if it is a         *)
(* behaviour of AggStore with the exclusive scope lock.  Every line is one *)
(* step of AggStore: the hook events logged under the storage locks plus   *)
(* the thread-local steps the harness inserts where the code performs them *)
(* (see harness-store/src/norm.rs).  A line is accepted only if the action *)
(* it names is enabled for that thread and produces the observed versions, *)
(* cache decision, stored kind and result.  What the real code decides     *)
(* where the specification leaves a choice (the outcome of a state-        *)
(* dependent command) is taken from the trace.  After quiescence a "final" *)
(* line per entity carries what can be seen from outside: the command keys *)
(* in the key-value store, the history listing, the version of the live    *)
(* state, the identifiers of the applied commands, and the three state     *)
(* equalities of C06 (live = full replay = snapshot + later commands).     *)
EXTENDS AggStore, Json, IOUtils

Rec == ndJsonDeserialize(IOEnv.TRACE)

VARIABLES
    l,      \* next line of the trace
    hb      \* [Threads -> number of stored commands when a history scan began]

Line == Rec[l]
T == Line.thr

tvars == <<vars, l, hb>>

IsEvent(e) == l <= Len(Rec) /\ Line.ev = e /\ l' = l + 1

ToSet(seq) == {seq[i] : i \in 1..Len(seq)}

-----------------------------------------------------------------------------
(* Reset: the projected initial state of a recorded behaviour *)

EntIdx(e) == {i \in 1..Len(Line.ents) : Line.ents[i].e = e}
HasEnt(e) == EntIdx(e) # {}
EntRec(e) == Line.ents[CHOOSE i \in EntIdx(e) : TRUE]

PreRec(row) == [kind |-> row[3], id |-> SetupId(row[1]), actor |-> row[2]]

IsWalEnt(e) == HasEnt(e) /\ EntRec(e).wal

ResetCmds(e) ==
    IF ~HasEnt(e) \/ ~EntRec(e).exists THEN <<>>
    ELSE LET r == EntRec(e) IN
         IF r.wal
         THEN [v \in r.snapver..(r.next - 1) |->
                 OkRec(SetupId(v), SetupThread)]
         ELSE [v \in 0..(r.next - 1) |->
                 IF v = 0 THEN InitRec(SetupId(0), SetupThread)
                 ELSE PreRec(r.pre[v])]

WalIdSeq(a, b) == [i \in 1..(b - a) |-> SetupId(a + i - 1)]
WalState(r) == [ver |-> r, eff |-> WalIdSeq(0, r)]

ResetState(e, ver) ==
    IF ver = 0 THEN None ELSE ReplayToIn(InitState, ResetCmds(e), ver)

ResetFull(e) == ReplayFromIn(InitState, ResetCmds(e))

\* The initial condition itself must be a state of the protocol: keys
\* contiguous, the history listing complete.
ResetSane(e) ==
    LET r == EntRec(e) IN
    r.exists =>
        IF r.wal
        THEN ToSet(r.keys) = r.snapver..(r.next - 1)
        ELSE /\ ToSet(r.keys) = 0..(r.next - 1)
             /\ Len(r.pre) = r.next - 1
             /\ r.snapver <= r.next /\ r.cachever <= r.next

Reset ==
    /\ IsEvent("reset")
    /\ \A e \in Entities : IsWalEnt(e) => IsWal(e)
    /\ \A e \in Entities : HasEnt(e) => ResetSane(e)
    /\ cmds' = [e \in Entities |-> ResetCmds(e)]
    /\ snap' = [e \in Entities |->
                 IF HasEnt(e) /\ EntRec(e).exists
                 THEN IF EntRec(e).wal THEN WalState(EntRec(e).snapver)
                      ELSE ResetState(e, EntRec(e).snapver)
                 ELSE None]
    /\ cache' = [e \in Entities |->
                  IF HasEnt(e) /\ EntRec(e).exists /\ EntRec(e).cached
                  THEN IF EntRec(e).wal THEN WalState(EntRec(e).next)
                       ELSE ResetState(e, EntRec(e).cachever)
                  ELSE None]
    /\ hcache' = [e \in Entities |-> <<>>]
    /\ order' = [e \in Entities |->
                  IF HasEnt(e) /\ EntRec(e).exists
                  THEN IF EntRec(e).wal THEN WalIdSeq(0, EntRec(e).next)
                       ELSE ResetFull(e).eff
                  ELSE <<>>]
    /\ lock' = [e \in Entities |-> {}]
    /\ root' = {}
    /\ rootw' = NoThread
    /\ pc' = [t \in Threads |-> "idle"]
    /\ ent' = [t \in Threads |-> NoEnt]
    /\ op' = [t \in Threads |-> "none"]
    /\ kind' = [t \in Threads |-> "none"]
    /\ loc' = [t \in Threads |-> None]
    /\ changed' = [t \in Threads |-> FALSE]
    /\ cver' = [t \in Threads |-> 0]
    /\ pend' = [t \in Threads |-> None]
    /\ res' = [t \in Threads |-> "none"]
    /\ before' = [t \in Threads |-> None]
    /\ nops' = [t \in Threads |-> 0]
    /\ returned' = {}
    /\ exited' = FALSE
    /\ hb' = [t \in Threads |-> 0]

TraceInit == l = 1 /\ Init /\ hb = [t \in Threads |-> 0]

-----------------------------------------------------------------------------
(* One action per line *)

StoredCount(e) == Cardinality(DOMAIN cmds[e] \ {0})

TBegin ==
    /\ IsEvent("begin")
    /\ Line.i = nops[T] + 1
    /\ Begin(T, Line.e, Line.op)
    /\ hb' = [hb EXCEPT ![T] = StoredCount(Line.e)]

TAcqRoot == IsEvent("acq_root") /\ AcquireRoot(T) /\ UNCHANGED hb

TAcq ==
    /\ IsEvent("acq") /\ ent[T] = Line.e
    /\ AcquireScope(T) /\ UNCHANGED hb

TLoad ==
    /\ IsEvent("load") /\ Load(T)
    /\ IF Line.unknown THEN pc'[T] = "rel"
       ELSE /\ pc'[T] = "apply"
            /\ loc'[T].ver = Line.ver
            /\ changed'[T] = ~Line.cached
    /\ UNCHANGED hb

TApply == IsEvent("apply") /\ ApplyStored(T) /\ UNCHANGED hb

TCheck ==
    /\ IsEvent("check") /\ CheckKeyFree(T)
    /\ cver'[T] = Line.ver
    /\ UNCHANGED hb

TProcess ==
    /\ IsEvent("process")
    /\ IF Line.wal THEN ProcessWal(T, Line.kind)
       ELSE ProcessAgg(T, Line.kind)
    /\ UNCHANGED hb

TStore ==
    /\ IsEvent("store") /\ StoreCmd(T)
    /\ cver[T] = Line.ver
    /\ pend[T].kind = (IF Line.kind = "ok" THEN "ok" ELSE "err")
    /\ UNCHANGED hb

TCache ==
    /\ IsEvent("cache") /\ CacheStep(T)
    /\ Line.wal \/ /\ Line.upd = changed[T]
                   /\ Line.upd => loc[T].ver = Line.ver
    /\ UNCHANGED hb

TSnapshot == IsEvent("snapshot") /\ Snapshot(T) /\ UNCHANGED hb

TRel ==
    /\ IsEvent("rel") /\ ent[T] = Line.e
    /\ ReleaseScope(T) /\ UNCHANGED hb

TRelRoot ==
    /\ IsEvent("relroot") /\ ReleaseRoot(T)
    /\ res[T] = Line.res
    /\ (Line.res = "ok" /\ Line.hasver) => loc[T].ver = Line.ver
    /\ UNCHANGED hb

TAddCheck ==
    /\ IsEvent("addcheck") /\ AddCheck(T)
    /\ Line.dup <=> pc'[T] = "rel"
    /\ UNCHANGED hb

TAddStore == IsEvent("addstore") /\ AddStore(T) /\ UNCHANGED hb
TAddCache == IsEvent("addcache") /\ AddCache(T) /\ UNCHANGED hb

TAcqRootW == IsEvent("acq_rootw") /\ AcquireRootW(T) /\ UNCHANGED hb
TRelRootW ==
    /\ IsEvent("rel_rootw") /\ ReleaseRootW(T) /\ Line.res = "ok"
    /\ UNCHANGED hb

KindName(k) == k    \* "ok" | "err" | "init", as in the history listing

HistRows(h) == [i \in 1..Len(h) |-> <<h[i][1], h[i][2].actor, h[i][2].kind>>]

\* command_history scans version by version, each get_command locking on
\* its own: what it returns is the complete listing at some instant
\* between the begin and the end of the call.
THist ==
    LET e == ent[T]
        all == HistScan(e, <<>>)
        n == Len(Line.rows)
    IN
    /\ IsEvent("hist") /\ pc[T] = "hist" /\ Line.res = "ok"
    /\ hb[T] <= n /\ n <= Len(all)
    /\ Line.rows = HistRows(SubSeq(all, 1, n))
    /\ hcache' = [hcache EXCEPT ![e] = SubSeq(all, 1, n)]
    /\ nops' = [nops EXCEPT ![T] = @ + 1]
    /\ pc' = [pc EXCEPT ![T] = "idle"]
    /\ UNCHANGED <<cmds, snap, cache, order, lock, root, rootw, ent, op,
                   kind, loc, changed, cver, pend, res, before, returned,
                   exited, hb>>

\* After quiescence: what can be seen from outside.
TFinal ==
    LET e == Line.e
        full == FullReplay(e)
        all == HistScan(e, <<>>)
    IN
    /\ IsEvent("final")
    /\ \A t \in Threads : pc[t] = "idle"
    /\ ToSet(Line.keys) = DOMAIN cmds[e]
    /\ Len(Line.keys) = Cardinality(DOMAIN cmds[e])
    /\ Line.other_keys = <<>>
    /\ Line.snap = (snap[e] # None)
    /\ (Exists(e) /\ ~IsWal(e)) =>
         /\ Line.hist = HistRows(all)
         /\ Len(all) = StoredCount(e)
    /\ Exists(e) =>
         /\ Line.live_ver = full.ver
         /\ Line.replay_ver = full.ver
         /\ Line.fresh_ver = full.ver
         /\ Line.has_eff =>
              Line.eff = SelectSeq(full.eff, LAMBDA id : id[1] # SetupThread)
         /\ Line.eq_replay
         /\ Line.eq_fresh
    /\ UNCHANGED <<vars, hb>>

-----------------------------------------------------------------------------
(* Lines of the history driver (run-hist, C06): the public operations run  *)
(* sequentially; at a check point every entity is observed from outside    *)
(* (keys, snapshot version) and rebuilt twice.  The observation must be a  *)
(* state the protocol can be in after whole operations: keys contiguous    *)
(* and only ever appended, the snapshot a prefix state, and the three      *)
(* versions and states (live, snapshot + later commands, full replay)      *)
(* equal.                                                                  *)

GenRec(v) == [kind |-> IF v = 0 THEN "init" ELSE "ok", id |-> SetupId(v),
              actor |-> SetupThread]

TStepLine == IsEvent("step") /\ ~Line.panic /\ UNCHANGED <<vars, hb>>
TNote == IsEvent("note") /\ UNCHANGED <<vars, hb>>
TObsApi == IsEvent("obs_api") /\ Line.ok /\ UNCHANGED <<vars, hb>>

TObsAgg ==
    LET e == Line.e
        n == Len(Line.keys)
        old == DOMAIN cmds[e]
        cm == [v \in 0..(n - 1) |->
                 IF v \in old THEN cmds[e][v] ELSE GenRec(v)]
        full == ReplayFromIn(InitState, cm)
    IN
    /\ IsEvent("obs") /\ Line.kind = "agg" /\ ~IsWal(e)
    /\ \A t \in Threads : pc[t] = "idle"
    /\ n >= 1
    /\ ToSet(Line.keys) = 0..(n - 1)
    /\ old \subseteq 0..(n - 1)
    /\ Line.snapver <= n
    /\ snap[e] # None => Line.snapver >= snap[e].ver
    /\ Line.live_ver = n /\ Line.fresh_ver = n /\ Line.replay_ver = n
    /\ Line.ok
    /\ cmds' = [cmds EXCEPT ![e] = cm]
    /\ order' = [order EXCEPT ![e] = full.eff]
    /\ snap' = [snap EXCEPT ![e] =
                  IF Line.snapver = 0 THEN None
                  ELSE ReplayToIn(InitState, cm, Line.snapver)]
    /\ cache' = [cache EXCEPT ![e] = full]
    /\ UNCHANGED <<hcache, lock, root, rootw, pc, ent, op, kind, loc,
                   changed, cver, pend, res, before, nops, returned, exited,
                   hb>>

WalIds(a, b) == [i \in 1..(b - a) |-> SetupId(a + i - 1)]

TObsWal ==
    LET e == Line.e
        n == Len(Line.keys)
        r == Line.snapver
        cm == [v \in r..(r + n - 1) |-> OkRec(SetupId(v), SetupThread)]
        st == [ver |-> r, eff |-> WalIds(0, r)]
    IN
    /\ IsEvent("obs") /\ Line.kind = "wal" /\ IsWal(e)
    /\ \A t \in Threads : pc[t] = "idle"
    /\ ToSet(Line.keys) = r..(r + n - 1)
    /\ snap[e] # None => /\ r >= snap[e].ver
                          /\ r + n >= FullReplay(e).ver
    /\ Line.live_ver = r + n /\ Line.fresh_ver = r + n
    /\ Line.ok
    /\ cmds' = [cmds EXCEPT ![e] = cm]
    /\ snap' = [snap EXCEPT ![e] = st]
    /\ order' = [order EXCEPT ![e] = WalIds(0, r + n)]
    /\ cache' = [cache EXCEPT ![e] = ReplayFromIn(st, cm)]
    /\ UNCHANGED <<hcache, lock, root, rootw, pc, ent, op, kind, loc,
                   changed, cver, pend, res, before, nops, returned, exited,
                   hb>>

TraceNext ==
    \/ Reset \/ TBegin \/ TAcqRoot \/ TAcq \/ TLoad \/ TApply \/ TCheck
    \/ TProcess \/ TStore \/ TCache \/ TSnapshot \/ TRel \/ TRelRoot
    \/ TAddCheck \/ TAddStore \/ TAddCache \/ TAcqRootW \/ TRelRootW
    \/ THist \/ TFinal
    \/ TStepLine \/ TNote \/ TObsApi \/ TObsAgg \/ TObsWal

TraceSpec == TraceInit /\ [][TraceNext]_tvars

NotReset == l <= Len(Rec) /\ Line.ev # "reset"

AppendOnlyStep ==
    \A e \in AggEntities : \A v \in DOMAIN cmds[e] :
        v \in DOMAIN cmds'[e] /\ cmds'[e][v] = cmds[e][v]

TraceStepProps == [][NotReset => AppendOnlyStep]_tvars

TraceInvariant == Safety

\* The history driver is sequential: only the replay properties matter
\* (and are cheap enough for traces over dozens of entities).
HistInvariant ==
    /\ TypeOK /\ LockDiscipline /\ VersionsContiguous
    /\ ReplayEqSnapshotEqLive

TraceAccepted ==
    LET d == TLCGet("stats").diameter IN
    IF d - 1 = Len(Rec) THEN TRUE
    ELSE /\ PrintT(<<"TRACE_REJECTED", "matched", d - 1, "of", Len(Rec)>>)
         /\ PrintT(<<"TRACE_NEXT", ToJson(Rec[d])>>)
         /\ FALSE
=============================================================================
