\* simulation: 3-4 threads, 3 aggregates, 4 operations per thread
CONSTANTS
  Threads = {1, 2, 3, 4}
  Entities = {"e1", "e2", "e3"}
  WalEntities = {}
  NewEntities = {"e3"}
  MaxOps = 4
  Ops = {"ok", "noop", "reject", "presave_fail", "cond", "read", "fread", "snap", "lsnap", "add", "hist", "list"}
  LockMode = "write"
INIT GenInit
NEXT GenNext
INVARIANT PrintBehaviour
CHECK_DEADLOCK FALSE
