CONSTANTS
  Pubs <- PubsNested
  Uris <- UrisNested
  Contents <- Cont
  Size <- SizeSmall
  MinNr = 0
  MaxNr = 2
  MinAge = "zero"
  MaxAge = "inf"
  MaxNrEquality = FALSE
  MaxSerial = 3
  MaxSession = 2
  DeltaChoices <- Deltas1
SPECIFICATION Spec
VIEW View10
INVARIANT Inv10

INVARIANT DeltasBounded
PROPERTY AppliedIff
PROPERTY DeltaAtomic
PROPERTY UnknownRefused
PROPERTY Isolation
PROPERTY RemoveWithdrawsExactlyOwn
PROPERTY UpdatePublishesViews
PROPERTY SerialPlusOne
PROPERTY SessionOnlyOnReset
CHECK_DEADLOCK FALSE
