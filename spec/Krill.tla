------------------------------- MODULE Krill -------------------------------
(***************************************************************************)
(* Krill's certification authorities: parent/child delegation, resource    *)
(* classes and their key states, configured route authorisations, the      *)
(* objects each CA publishes, the follow-up tasks every change leaves in   *)
(* the task queue, and what a relying party derives from the publication   *)
(* server's content.                                                       *)
(*                                                                         *)
(* Anchors: src/server/ca/certauth.rs (commands and events), rc.rs         *)
(* (resource class, received certificates, shrink_overclaiming), keys.rs   *)
(* (key states and the roll), child.rs (issued / suspended certificates),  *)
(* roa.rs, publishing.rs (CaObjects), manager.rs (ca_sync_parent,          *)
(* send_requests, get_updates_from_parent, cas_repo_sync_single, delete),  *)
(* mq.rs:429-628 (the event -> task table), scheduler.rs.                  *)
(*                                                                         *)
(* Grain: one action per API command and one action per background task    *)
(* execution -- the units the code runs under one entity lock / as one     *)
(* task.  The hierarchy is TA <- Top <- ... with the top CA's holdings     *)
(* fixed (a child of the TA cannot have its entitlement changed through    *)
(* the CA API).  A CA may have several parents: every parent gives it one  *)
(* resource class, modelled as one *slot* per (CA, parent) pair; what the   *)
(* code keeps per CA (existence, configured authorisations, the publisher,  *)
(* the repository report, the repository synchronisation task) lives at the *)
(* CA's first slot, what it keeps per resource class / per parent / per     *)
(* child lives at the slot.  A CA with several slots has no children here   *)
(* (a child of a CA with two classes would itself get two classes from one  *)
(* parent).                                                                 *)
(*                                                                         *)
(* Abstractions: resources are sets of atoms; keys are identified by their *)
(* role (cur / new / old) in the resource class; objects are identified    *)
(* by what they say (ROA payload, child certificate = <<child, role,       *)
(* resources>>), not by serial number.  Serial-number level facts          *)
(* (revocation, manifest numbers) are step properties of KrillTrace.       *)
(***************************************************************************)
EXTENDS Naturals, FiniteSets, TLC

CONSTANTS
    Top,        \* the CA directly under the trust anchor
    Sub,        \* the other CA names that may be created
    Res,        \* resource atoms
    TopRes,     \* the atoms Top holds
    Roa,        \* route authorisations: <<prefix atom, origin>>; and, in the
                \* same shape, provider authorisations (ASPA):
                \* <<customer AS atom, provider-set label>> -- an object for
                \* either is published iff the CA's current certificate
                \* holds the first component
    AspaDefs,   \* the subset of Roa that are provider authorisations; a CA
                \* has at most one per customer AS (a new one replaces it)
    ParentOf,   \* [Sub -> AllCA]: under which CA a name may be created
    CaOf,       \* [AllCA -> AllCA]: a CA with several parents has one
                \*   resource class per parent; every name in AllCA is a
                \*   *slot* = one (CA, parent) pair, CaOf[s] is the CA the slot
                \*   belongs to (its first slot; CaOf[c] = c for a CA's first
                \*   slot, and for every CA with one parent)
    Ops,        \* the kinds of API operations the environment uses
    ShadowRebuilt \* BOOLEAN: a successful repository synchronisation sets
                \*   the shown list of published objects to what was sent in
                \*   full (TRUE) or applies the difference to it (FALSE)

AllCA == {Top} \cup Sub
\* values for CaOf: every CA has one parent / the names ending in 2 are the
\* second slots of the CAs B, C, D
IdCa == [c \in AllCA |-> c]
SecondSlots == [c \in AllCA |-> IF c = "B2" THEN "B" ELSE IF c = "C2" THEN "C"
                                ELSE IF c = "D2" THEN "D" ELSE c]
\* Children that are not hosted by this instance (names F, G): they exist
\* only in their parent's record; their provisioning requests (list, issue
\* with an arbitrary resource limit, revoke) are steps of the environment.
\* Their publication points are somewhere else.
Foreign == {"F", "G"} \cap Sub
Roles == {"cur", "new", "old"}
ReqKinds == {"pend", "cur", "new", "rev"}
NoRes == {}

VARIABLES
    exists,     \* [AllCA -> BOOLEAN]  the CA is hosted by this instance
    gone,       \* [AllCA -> BOOLEAN]  the CA was deleted
    parent,     \* [AllCA -> AllCA \cup {"ta", "none"}] the parent of the slot
    hasp,       \* [AllCA -> BOOLEAN] the CA has that parent configured
                \*   (FALSE again after ca_parent_remove)
    \* the parent's record of the child
    ent,        \* [AllCA -> SUBSET Res]   entitlement
    cstate,     \* [AllCA -> {"none", "active", "suspended"}]
    iss,        \* [AllCA -> [Roles -> SUBSET Res]] certificates the parent
                \*   currently issues for the child's keys ({} = none)
    sus,        \* [AllCA -> [Roles -> SUBSET Res]] suspended certificates
    \* the CA's own resource class
    rc,         \* [AllCA -> {"none","pending","active","roll_pending",
                \*            "roll_new","roll_old"}]
    rcv,        \* [AllCA -> [Roles -> SUBSET Res]] received certificates
    req,        \* [AllCA -> SUBSET ReqKinds] open requests for its parent:
                \*   certificate for the pending / current / new key,
                \*   revocation of the old key
    routes,     \* [AllCA -> SUBSET Roa] configured route authorisations
    pub,        \* [AllCA -> published object set] at the publication server
    tasks,      \* set of due tasks <<kind, ca>>
    \* the publication server's side and the status reports (C19)
    pubknown,   \* [AllCA -> BOOLEAN] the server has a publisher for the CA
    pst,        \* [AllCA -> [last, ents]] the CA's report about its parent:
                \*   outcome of the most recent exchange and the resources
                \*   the parent last said the CA is entitled to
    rst,        \* [AllCA -> [last, same, empty]] the CA's report about its
                \*   repository: outcome of the most recent exchange; whether
                \*   the list of published objects it shows is what the
                \*   server holds for it; whether that list is empty
    kst,        \* [AllCA -> outcome] the parent's report about the child's
                \*   most recent request
    \* the trust anchor as the (slow) parent of Top: the proxy queues what Top
    \* asks for, the signer answers the whole queue in one cycle, Top fetches
    \* each answer with its next synchronisation (taproxy.rs, tasigner/,
    \* manager.rs ta_slow_rfc6492_request)
    taq,        \* SUBSET ReqKinds: Top's requests queued at the proxy
    tar,        \* SUBSET ReqKinds: responses waiting at the proxy for Top
    taiss,      \* the keys of Top the TA has certified, by their role in Top's
                \*   class ("pend": the pending key of a roll, certified but the
                \*   certificate not yet fetched by Top)
    tapub       \* ... whose certificate the TA publishes

vars == <<exists, gone, parent, hasp, ent, cstate, iss, sus, rc, rcv, req, routes,
          pub, tasks, pubknown, pst, rst, kst, taq, tar, taiss, tapub>>
tavars == <<taq, tar, taiss, tapub>>

Prefix(r) == r[1]

Outcomes == {"none", "ok", "fail"}
NoPst == [last |-> "none", ents |-> {}]
NoRst == [last |-> "none", same |-> TRUE, empty |-> TRUE]

NoCerts == [x \in Roles |-> NoRes]

\* What a CA publishes: which keys have a manifest and CRL, the route
\* origins authorised under the current key, the child certificates.
\* (ovrps / okids: products still signed by the old key, between the
\* activation of a new key and the next repository synchronisation)
EmptyPub == [cur |-> FALSE, new |-> FALSE, old |-> FALSE,
             vrps |-> {}, kids |-> {}, ovrps |-> {}, okids |-> {}]

\* slots and the CAs they belong to
Prim(s) == CaOf[s]
IsCa(c) == CaOf[c] = c
SlotsOf(c) == {s \in AllCA : CaOf[s] = CaOf[c]}
Ex(s) == exists[Prim(s)]
\* everything the CA holds under any parent (CertAuth::all_resources)
Holdings(c) == UNION {rcv[s]["cur"] : s \in SlotsOf(c)}
\* the parent's record of its children survives the child's removal of the
\* parent (parent[s] is never reset)
ChildrenOf(p) == {c \in AllCA : parent[c] = p /\ cstate[c] # "none"}

\* The objects a CA's object store holds (publishing.rs): a function of
\* the CA's configuration, its certificates and what it issues to children.
\* C01 says the repository says exactly this.
Obj(c) ==
    IF ~Ex(c) THEN EmptyPub
    ELSE [cur  |-> rcv[c]["cur"] # NoRes,
          new  |-> rc[c] = "roll_new",
          old  |-> rc[c] = "roll_old",
          \* (every resource class gets an object for every configured
          \* authorisation its current certificate covers)
          vrps |-> {r \in routes[Prim(c)] : Prefix(r) \in rcv[c]["cur"]},
          kids |-> {<<d, x, iss[d][x]>> : d \in {e \in ChildrenOf(c) : cstate[e] = "active"},
                                          x \in Roles} \ {<<d, x, NoRes>> : d \in AllCA, x \in Roles},
          ovrps |-> {}, okids |-> {}]

TypeOK ==
    /\ exists \in [AllCA -> BOOLEAN]
    /\ gone \in [AllCA -> BOOLEAN]
    /\ parent \in [AllCA -> AllCA \cup {"ta", "none"}]
    /\ hasp \in [AllCA -> BOOLEAN]
    /\ ent \in [AllCA -> SUBSET Res]
    /\ cstate \in [AllCA -> {"none", "active", "suspended"}]
    /\ iss \in [AllCA -> [Roles -> SUBSET Res]]
    /\ sus \in [AllCA -> [Roles -> SUBSET Res]]
    /\ rc \in [AllCA -> {"none", "pending", "active", "roll_pending",
                         "roll_new", "roll_old"}]
    /\ rcv \in [AllCA -> [Roles -> SUBSET Res]]
    /\ req \in [AllCA -> SUBSET ReqKinds]
    /\ routes \in [AllCA -> SUBSET Roa]
    /\ pubknown \in [AllCA -> BOOLEAN]
    /\ pst \in [AllCA -> [last : Outcomes, ents : SUBSET Res]]
    /\ rst \in [AllCA -> [last : Outcomes, same : BOOLEAN, empty : BOOLEAN]]
    /\ kst \in [AllCA -> Outcomes]
    /\ taq \in SUBSET ReqKinds /\ tar \in SUBSET ReqKinds
    /\ taiss \in SUBSET (Roles \cup {"pend"}) /\ tapub \in SUBSET (Roles \cup {"pend"})

Init ==
    /\ exists = [c \in AllCA |-> c = Top]
    /\ gone = [c \in AllCA |-> FALSE]
    /\ parent = [c \in AllCA |-> IF c = Top THEN "ta" ELSE "none"]
    /\ hasp = [c \in AllCA |-> c = Top]
    /\ ent = [c \in AllCA |-> IF c = Top THEN TopRes ELSE NoRes]
    /\ cstate = [c \in AllCA |-> IF c = Top THEN "active" ELSE "none"]
    /\ iss = [c \in AllCA |-> IF c = Top THEN [NoCerts EXCEPT !["cur"] = TopRes]
                                         ELSE NoCerts]
    /\ sus = [c \in AllCA |-> NoCerts]
    /\ rc = [c \in AllCA |-> IF c = Top THEN "active" ELSE "none"]
    /\ rcv = [c \in AllCA |-> IF c = Top THEN [NoCerts EXCEPT !["cur"] = TopRes]
                                         ELSE NoCerts]
    /\ req = [c \in AllCA |-> {}]
    /\ routes = [c \in AllCA |-> {}]
    /\ pub = [c \in AllCA |-> IF c = Top THEN [EmptyPub EXCEPT !.cur = TRUE]
                                         ELSE EmptyPub]
    /\ tasks = {}
    /\ pubknown = [c \in AllCA |-> c = Top]
    /\ pst = [c \in AllCA |-> NoPst]
    /\ rst = [c \in AllCA |-> NoRst]
    /\ kst = [c \in AllCA |-> "none"]
    /\ taq = {} /\ tar = {} /\ taiss = {"cur"} /\ tapub = {"cur"}

SP(c) == <<"sync_parent", c>>
SR(c) == <<"sync_repo", CaOf[c]>>             \* one per CA
RM(c) == <<"rc_removed", c>>

---------------------------------------------------------------------------
(* API commands *)

\* init_ca + publisher + repository + ca_add_child at the parent +
\* ca_parent_add_or_update at the child (manager.rs import_ca does the same).
\* (A CA that was deleted can be created again under the same name -- with
\* the operation flag "recreate" -- once nothing of the old one is left: its
\* parent has removed the child, the publication server's operator has
\* removed the publisher (it is registered with the identity of the deleted
\* CA), nothing of it is published or queued.  The new CA starts without any
\* report about parent or repository.)
CanRecreate(c) ==
    /\ "recreate" \in Ops /\ gone[c] /\ cstate[c] = "none" /\ ~pubknown[c]
    /\ \A s \in SlotsOf(c) : /\ (~hasp[s] \/ s = c)
                              /\ iss[s] = NoCerts /\ sus[s] = NoCerts
                              /\ pub[s] = EmptyPub
                              /\ {SP(s), RM(s)} \cap tasks = {}
    /\ SR(c) \notin tasks
    /\ \A d \in AllCA : parent[d] = c => cstate[d] = "none"
AddCa(c, p, R) ==
    /\ IsCa(c) /\ ~exists[c] /\ (~gone[c] \/ CanRecreate(c)) /\ c # Top /\ c \notin Foreign
    /\ IsCa(p) /\ exists[p] /\ p # c
    /\ R # NoRes /\ R \subseteq Holdings(p)
    /\ exists' = [exists EXCEPT ![c] = TRUE]
    /\ parent' = [parent EXCEPT ![c] = p]
    /\ hasp' = [hasp EXCEPT ![c] = TRUE]
    /\ ent' = [ent EXCEPT ![c] = R]
    /\ cstate' = [cstate EXCEPT ![c] = "active"]
    /\ tasks' = tasks \cup {SP(c)}               \* ParentAdded -> SyncParent
    \* the publisher is created with the CA; the new parent is asked for
    \* the entitlements before it is added (ca_parent_add_or_update)
    /\ pubknown' = [pubknown EXCEPT ![c] = TRUE]
    /\ pst' = [pst EXCEPT ![c] = [last |-> "ok", ents |-> R]]
    /\ kst' = [kst EXCEPT ![c] = "ok"]
    /\ gone' = [gone EXCEPT ![c] = FALSE]
    /\ UNCHANGED <<rst, iss, sus, rc, rcv, req, routes, pub>>

\* When a resource class is removed the certificates issued under it go
\* with it (certauth.rs: the ResourceClass holds them).
KidsDropped(c, f) ==
    [d \in AllCA |-> IF parent[d] = c /\ cstate[d] # "none" THEN NoCerts ELSE f[d]]

\* One more parent for an existing CA, or a removed parent added again:
\* ca_add_child at the parent (unless it knows the CA already) and
\* ca_parent_add_or_update at the CA (certauth.rs process_add_parent).  The
\* parent is asked for the entitlements first (a resource class list query).
\* (Restriction of this model: keys are identified by their role in the
\* class, so what is still published for a removed class must have been
\* withdrawn before a new class under the same parent can get keys.)
AddParent(s, p, R) ==
    /\ s # Top /\ Ex(s) /\ ~hasp[s]
    /\ SR(s) \notin tasks /\ RM(s) \notin tasks
    /\ IsCa(p) /\ exists[p] /\ p \notin SlotsOf(s)
    /\ parent[s] \in {"none", p}
    /\ \A t \in SlotsOf(s) \ {s} : ~(hasp[t] /\ parent[t] = p)
    \* (Restriction of this model: class names are not modelled, so the
    \* children of a CA whose class was removed must have noticed -- their own
    \* class under it is gone -- before the CA gets a new class, which has a
    \* new name)
    /\ \A d \in ChildrenOf(s) : rc[d] = "none" /\ RM(d) \notin tasks
    /\ IF cstate[s] = "none"
       THEN /\ R # NoRes /\ R \subseteq Holdings(p)
            /\ ent' = [ent EXCEPT ![s] = R]
            /\ cstate' = [cstate EXCEPT ![s] = "active"]
       ELSE /\ cstate[s] = "active" /\ R = ent[s]
            /\ UNCHANGED <<ent, cstate>>
    /\ parent' = [parent EXCEPT ![s] = p]
    /\ hasp' = [hasp EXCEPT ![s] = TRUE]
    /\ tasks' = tasks \cup {SP(s)}               \* ParentAdded -> SyncParent
    /\ pst' = [pst EXCEPT ![s] = [last |-> "ok", ents |-> R \cap Holdings(p)]]
    /\ kst' = [kst EXCEPT ![s] = "ok"]
    /\ UNCHANGED <<exists, gone, iss, sus, rc, rcv, req, routes, pub, pubknown, rst>>

\* ca_parent_remove (manager.rs:1373, certauth.rs process_remove_parent):
\* revocation requests for the keys of the class under that parent are sent
\* first, best effort (a suspended child that calls in is unsuspended
\* first); the status entry of the parent is removed; the resource class is
\* removed (everything under it is withdrawn by the next repository
\* synchronisation) and a ResourceClassRemoved task without requests is left.
\* The parent keeps its record of the child.
\* (Restriction of this model unless "deepremove" is among the operations:
\* the CA has no children.  With it the certificates issued under the class
\* go with the class -- KidsDropped --, the children find nothing on offer at
\* their next listing and drop their own class, and theirs in turn.  A CA
\* that drops and later regains its class gives the new class a new name,
\* which its children learn only at their next listing -- class names are
\* not modelled, see AddParent.)
RemoveParent(s) ==
    /\ s # Top /\ Ex(s) /\ hasp[s]
    /\ ("deepremove" \in Ops \/ \A t \in SlotsOf(s) : ChildrenOf(t) = {})
    /\ LET p == parent[s]
           \* (a class whose only key is still waiting for its first
           \* certificate has nothing to revoke: no message is sent)
           callsIn == /\ p \in AllCA /\ exists[p] /\ cstate[s] # "none"
                      /\ rc[s] \notin {"none", "pending"}
           unsus == [x \in Roles |->
                       IF sus[s][x] # NoRes /\ sus[s][x] \subseteq ent[s]
                       THEN sus[s][x] \cap Holdings(p) ELSE NoRes]
           hadCerts == (\E x \in Roles : iss[s][x] # NoRes)
                       \/ (cstate[s] = "suspended" /\ \E x \in Roles : unsus[x] # NoRes)
       IN  /\ iss' = IF callsIn THEN [KidsDropped(s, iss) EXCEPT ![s] = NoCerts]
                      ELSE KidsDropped(s, iss)
           /\ sus' = IF callsIn THEN [KidsDropped(s, sus) EXCEPT ![s] = NoCerts]
                      ELSE KidsDropped(s, sus)
           /\ cstate' = IF callsIn /\ cstate[s] = "suspended"
                        THEN [cstate EXCEPT ![s] = "active"] ELSE cstate
           /\ kst' = IF callsIn THEN [kst EXCEPT ![s] = "ok"] ELSE kst
           /\ tasks' = tasks \cup {SR(s)}             \* ParentRemoved
                         \cup (IF rc[s] # "none" THEN {RM(s)} ELSE {})
                         \* ChildKeyRevoked at the parent
                         \cup (IF callsIn /\ hadCerts THEN {SR(p), SP(s)} ELSE {})
    /\ rc' = [rc EXCEPT ![s] = "none"]
    /\ rcv' = [rcv EXCEPT ![s] = NoCerts]
    /\ req' = [req EXCEPT ![s] = {}]
    /\ hasp' = [hasp EXCEPT ![s] = FALSE]
    /\ pst' = [pst EXCEPT ![s] = NoPst]           \* status_store.remove_parent
    /\ UNCHANGED <<exists, gone, parent, ent, routes, pub, pubknown, rst>>

\* ca_child_update(resources): certauth.rs process_child_update_resources.
\* Post-save: the (local) child is told to sync (mq.rs:596-623).
ChildRes(c, R) ==
    /\ c # Top /\ cstate[c] # "none" /\ exists[parent[c]]
    /\ R # NoRes /\ R \subseteq Holdings(parent[c])
    /\ R # ent[c]
    /\ ent' = [ent EXCEPT ![c] = R]
    /\ tasks' = tasks \cup {SP(c)}
    /\ UNCHANGED <<pubknown, pst, rst, kst, exists, gone, parent, hasp, cstate, iss, sus, rc, rcv, req,
                   routes, pub>>

\* The parent's side of suspending: issued certificates become suspended
\* and are withdrawn (certauth.rs process_child_suspend_inactive).  A child
\* without certificates is not suspended at all.
HasCerts(c) == \E x \in Roles : iss[c][x] # NoRes
HasSus(c) == \E x \in Roles : sus[c][x] # NoRes

ChildSuspend(c) ==
    /\ c # Top /\ cstate[c] = "active" /\ exists[parent[c]]
    /\ HasCerts(c)
    /\ cstate' = [cstate EXCEPT ![c] = "suspended"]
    /\ sus' = [sus EXCEPT ![c] = iss[c]]
    /\ iss' = [iss EXCEPT ![c] = NoCerts]
    /\ tasks' = tasks \cup {SR(parent[c])}
    /\ UNCHANGED <<pubknown, pst, rst, kst, exists, gone, parent, hasp, ent, rc, rcv, req, routes, pub>>

\* certauth.rs process_child_unsuspend: a suspended certificate is issued
\* again if the child's entitlement still contains its resources, with the
\* part the issuing certificate still holds; otherwise it is dropped.
UnsuspendCerts(c) ==
    [x \in Roles |->
        IF sus[c][x] # NoRes /\ sus[c][x] \subseteq ent[c]
        THEN sus[c][x] \cap Holdings(parent[c]) ELSE NoRes]

ChildUnsuspend(c) ==
    /\ c # Top /\ cstate[c] = "suspended" /\ exists[parent[c]]
    /\ cstate' = [cstate EXCEPT ![c] = "active"]
    /\ iss' = [iss EXCEPT ![c] = UnsuspendCerts(c)]
    /\ sus' = [sus EXCEPT ![c] = NoCerts]
    /\ tasks' = IF HasSus(c) THEN tasks \cup {SR(parent[c])} ELSE tasks
    /\ UNCHANGED <<pubknown, pst, rst, kst, exists, gone, parent, hasp, ent, rc, rcv, req, routes, pub>>

\* Task::SuspendChildrenIfNeeded for every CA (the hourly check, or "bulk
\* suspend", with the suspension of inactive children configured;
\* manager.rs ca_suspend_inactive_children, api/ca.rs
\* is_suspension_candidate): every active child whose last exchange with its
\* parent is longer ago than the threshold is suspended like by the API --
\* if the parent has a record of an exchange at all and the user agent of
\* that exchange says the child is a Krill CA (a hosted child's does; the
\* child that is not hosted here, played by the harness, never does).  Time
\* is not modelled: the action stands for a check at a moment when the
\* threshold has passed for every child.  A child without certificates is
\* not suspended (as in ChildSuspend).
Inactive(c) ==
    /\ c # Top /\ c \notin Foreign /\ cstate[c] = "active"
    /\ parent[c] \in AllCA /\ exists[parent[c]]
    /\ kst[c] # "none" /\ HasCerts(c)
\* (M: the children the check passes over because the parent's record of
\* them still carries the mark of an earlier such suspension -- the mark is
\* set by the check, api/ca.rs ChildStatus, and cleared only by the child's
\* next exchange, not when the operator unsuspends the child.  Not a
\* variable of this model: the trace specification takes it from the
\* observed record.)
AutoSuspend(M) ==
    LET S == {c \in AllCA : Inactive(c) /\ c \notin M} IN
    /\ cstate' = [c \in AllCA |-> IF c \in S THEN "suspended" ELSE cstate[c]]
    /\ sus' = [c \in AllCA |-> IF c \in S THEN iss[c] ELSE sus[c]]
    /\ iss' = [c \in AllCA |-> IF c \in S THEN NoCerts ELSE iss[c]]
    /\ tasks' = tasks \cup {SR(parent[c]) : c \in S}
    /\ UNCHANGED <<pubknown, pst, rst, kst, exists, gone, parent, hasp, ent, rc, rcv, req, routes, pub>>

\* ca_child_update(resource class name mapping): the child will know the
\* parent's resource class under another name.  Class names are not part of
\* this model (one class per CA): nothing changes -- and nothing may change
\* in what the code does either.  (Only possible while the child has no
\* certificates; modelled for a child that has no class yet.)
ChildMap(c) ==
    /\ c # Top /\ cstate[c] # "none" /\ exists[parent[c]]
    /\ ~HasCerts(c) /\ ~HasSus(c) /\ rc[c] = "none" /\ req[c] = {}
    /\ UNCHANGED vars

\* ca_child_remove: all certificates of the child are revoked and withdrawn.
ChildRemove(c) ==
    /\ c # Top /\ cstate[c] # "none" /\ exists[parent[c]]
    /\ cstate' = [cstate EXCEPT ![c] = "none"]
    /\ ent' = [ent EXCEPT ![c] = NoRes]
    /\ iss' = [iss EXCEPT ![c] = NoCerts]
    /\ sus' = [sus EXCEPT ![c] = NoCerts]
    \* (suspended certificates are revoked too: a new CRL is published)
    /\ tasks' = IF HasCerts(c) \/ HasSus(c) THEN tasks \cup {SR(parent[c])} ELSE tasks
    /\ kst' = [kst EXCEPT ![c] = "none"]         \* status_store.remove_child
    /\ UNCHANGED <<pubknown, pst, rst, exists, gone, parent, hasp, rc, rcv, req, routes, pub>>

\* ca_routes_update with one added / one removed authorisation.
RoaAdd(c, r) ==
    /\ exists[c]
    /\ r \notin routes[c] /\ Prefix(r) \in Holdings(c)
    /\ routes' = [routes EXCEPT ![c] = @ \cup {r}]
    /\ tasks' = tasks \cup {SR(c)}
    /\ UNCHANGED <<pubknown, pst, rst, kst, exists, gone, parent, hasp, ent, cstate, iss, sus, rc, rcv, req,
                   pub>>

RoaDel(c, r) ==
    /\ exists[c]
    /\ r \in routes[c]
    /\ routes' = [routes EXCEPT ![c] = @ \ {r}]
    \* an authorisation that had no object (prefix not held any more) leaves
    \* no event that needs publishing
    /\ tasks' = IF Prefix(r) \in Holdings(c) THEN tasks \cup {SR(c)} ELSE tasks
    /\ UNCHANGED <<pubknown, pst, rst, kst, exists, gone, parent, hasp, ent, cstate, iss, sus, rc, rcv, req,
                   pub>>

\* ca_routes_update with several added and removed authorisations at once
\* (all or nothing).
RoaDelta(c, A, D) ==
    /\ exists[c] /\ A \cup D # {}
    /\ A \cap routes[c] = {} /\ D \subseteq routes[c]
    /\ \A r \in A : Prefix(r) \in Holdings(c)
    /\ routes' = [routes EXCEPT ![c] = (@ \ D) \cup A]
    /\ tasks' = IF A # {} \/ \E d \in D : Prefix(d) \in Holdings(c)
                THEN tasks \cup {SR(c)} ELSE tasks
    /\ UNCHANGED <<pubknown, pst, rst, kst, exists, gone, parent, hasp, ent, cstate, iss, sus, rc, rcv, req,
                   pub>>

\* ca_aspas_definitions_update: add or replace the definition for a customer
\* AS (refused unless the CA holds the AS); remove it.
AspaSet(c, x) ==
    /\ exists[c] /\ x \in AspaDefs /\ x \notin routes[c]
    /\ x[1] \in Holdings(c)
    /\ routes' = [routes EXCEPT ![c] = (@ \ {y \in AspaDefs : y[1] = x[1]}) \cup {x}]
    /\ tasks' = tasks \cup {SR(c)}
    /\ UNCHANGED <<pubknown, pst, rst, kst, exists, gone, parent, hasp, ent, cstate, iss, sus, rc, rcv, req,
                   pub>>
AspaDel(c, cust) ==
    /\ exists[c] /\ \E y \in routes[c] \cap AspaDefs : y[1] = cust
    /\ routes' = [routes EXCEPT ![c] = @ \ {y \in AspaDefs : y[1] = cust}]
    /\ tasks' = IF cust \in Holdings(c) THEN tasks \cup {SR(c)} ELSE tasks
    /\ UNCHANGED <<pubknown, pst, rst, kst, exists, gone, parent, hasp, ent, cstate, iss, sus, rc, rcv, req,
                   pub>>

\* ca_keyroll_init (max age 0): keys.rs / certauth.rs process_keyroll_initiate
\* (every resource class of the CA that is in the active state)
\* (Top's synchronisations with the trust anchor are not part of the
\* modelled queue: see TopSync)
RollInit(c) ==
    /\ IsCa(c) /\ exists[c]
    /\ LET S == {s \in SlotsOf(c) : rc[s] = "active"}
       IN  /\ S # {}
           /\ rc' = [s \in AllCA |-> IF s \in S THEN "roll_pending" ELSE rc[s]]
           /\ req' = [s \in AllCA |-> IF s \in S THEN req[s] \cup {"pend"} ELSE req[s]]
           /\ tasks' = tasks \cup {SP(s) : s \in S \ {Top}}  \* CertificateRequested
    /\ UNCHANGED <<pubknown, pst, rst, kst, exists, gone, parent, hasp, ent, cstate, iss, sus, rcv, routes,
                   pub>>

\* ca_keyroll_activate (staging 0): the new key becomes current, everything
\* is re-issued under it, the old key keeps manifest and CRL only and a
\* revocation request for it is created.
Rotate(f) == [cur |-> f["new"], new |-> NoRes, old |-> f["cur"]]
NewRole(x) == IF x = "new" THEN "cur" ELSE IF x = "cur" THEN "old" ELSE x
Relabel(c, K) == {IF k[1] = c THEN <<c, NewRole(k[2]), k[3]>> ELSE k : k \in K}

\* activate_key re-issues every child certificate unchanged under the new
\* key; this is refused if the new key's certificate does not hold what a
\* child certificate claims (child.rs activate_key, misc.rs
\* make_issued_cert: "not entitled to all requested resources").
\* It is also refused while the CA has open requests for its parent
\* (KeyRollActivatePendingRequests).
CanActivate(c) ==
    /\ req[c] = {}
    /\ \A d \in ChildrenOf(c), x \in Roles :
        /\ iss[d][x] \subseteq rcv[c]["new"]
        /\ sus[d][x] \subseteq rcv[c]["new"]

\* (every resource class of the CA that has a new key; one class that
\* cannot be activated makes the whole command fail)
RollSlots(c) == {s \in SlotsOf(c) : rc[s] = "roll_new"}
RelabelAll(S, K) == {IF k[1] \in S THEN <<k[1], NewRole(k[2]), k[3]>> ELSE k : k \in K}
RollActivate(c) ==
    /\ IsCa(c) /\ exists[c]
    /\ LET S == RollSlots(c)
       IN  /\ S # {} /\ \A s \in S : CanActivate(s)
           /\ rc' = [s \in AllCA |-> IF s \in S THEN "roll_old" ELSE rc[s]]
           /\ rcv' = [s \in AllCA |-> IF s \in S THEN Rotate(rcv[s]) ELSE rcv[s]]
           /\ iss' = [s \in AllCA |-> IF s \in S THEN Rotate(iss[s]) ELSE iss[s]]
           /\ sus' = [s \in AllCA |-> IF s \in S THEN Rotate(sus[s]) ELSE sus[s]]
           /\ req' = [s \in AllCA |-> IF s \in S THEN {"rev"} ELSE req[s]]
           /\ tasks' = tasks \cup {SP(s) : s \in S \ {Top}} \cup {SR(c)}   \* KeyRollActivated
           \* what is at the publication server is now, by role, the staging
           \* key's manifest as the current key's and the products under the
           \* old key (and the parent's published certificates for the CA's
           \* keys are the same objects, now for keys in other roles)
           /\ pub' = [d \in AllCA |->
                       IF d \in S
                       THEN [cur |-> pub[d].new, new |-> FALSE, old |-> pub[d].cur,
                             vrps |-> {}, kids |-> {},
                             ovrps |-> pub[d].vrps, okids |-> pub[d].kids]
                       ELSE IF d \in {parent[s] : s \in S \ {Top}}
                       THEN [pub[d] EXCEPT !.kids = RelabelAll(S, @),
                                           !.okids = RelabelAll(S, @)]
                       ELSE pub[d]]
    /\ UNCHANGED <<pubknown, pst, rst, kst, exists, gone, parent, hasp, ent, cstate, routes>>

RollActivateRefused(c) ==
    /\ IsCa(c) /\ exists[c] /\ RollSlots(c) # {}
    /\ \E s \in RollSlots(c) : ~CanActivate(s)
    /\ UNCHANGED vars

\* delete_ca: revocation of the CA's keys is requested from the parent (best
\* effort), the CA and its publisher are removed.
DeleteCa(c) ==
    /\ IsCa(c) /\ exists[c] /\ c # Top
    /\ exists' = [exists EXCEPT ![c] = FALSE]
    /\ gone' = [gone EXCEPT ![c] = TRUE]
    /\ routes' = [routes EXCEPT ![c] = {}]
    /\ LET S == SlotsOf(c)
           \* revocation requests are sent for the keys the CA has under each
           \* of its parents; a suspended child that calls in is unsuspended
           \* first
           callsIn(s) == /\ parent[s] \in AllCA /\ exists[parent[s]]
                         /\ cstate[s] # "none" /\ rc[s] \notin {"none", "pending"}
           hadCerts(s) == HasCerts(s) \/ \E x \in Roles : UnsuspendCerts(s)[x] # NoRes
           C == {s \in S : callsIn(s)}
       IN  /\ rc' = [s \in AllCA |-> IF s \in S THEN "none" ELSE rc[s]]
           /\ rcv' = [s \in AllCA |-> IF s \in S THEN NoCerts ELSE rcv[s]]
           /\ req' = [s \in AllCA |-> IF s \in S THEN {} ELSE req[s]]
           /\ pub' = [s \in AllCA |-> IF s \in S THEN EmptyPub ELSE pub[s]]
           /\ iss' = [s \in AllCA |-> IF s \in C THEN NoCerts ELSE iss[s]]
           /\ sus' = [s \in AllCA |-> IF s \in C THEN NoCerts ELSE sus[s]]
           /\ cstate' = [s \in AllCA |-> IF s \in C /\ cstate[s] = "suspended"
                                         THEN "active" ELSE cstate[s]]
           \* (tasks of the deleted CA stay queued and are dropped when
           \* their time comes)
           /\ tasks' = tasks \cup UNION {{SR(parent[s]), SP(s)} : s \in {t \in C : hadCerts(t)}}
           \* the CA's reports go with it (status_store.remove_ca), also
           \* those about its children; its own last request is recorded by
           \* its parent
           /\ kst' = [d \in AllCA |->
                        IF parent[d] = c THEN "none"
                        ELSE IF d \in C THEN "ok" ELSE kst[d]]
           /\ pst' = [s \in AllCA |-> IF s \in S THEN NoPst ELSE pst[s]]
    /\ rst' = [rst EXCEPT ![c] = NoRst]
    /\ UNCHANGED <<pubknown, parent, hasp, ent>>


---------------------------------------------------------------------------
(* Background tasks *)

\* What the parent offers the child in its resource class: the entitlement
\* cut down to what the parent's current certificate holds
\* (certauth.rs entitlement_class).
Offer(c) == ent[c] \cap Holdings(parent[c])

\* A suspended child that calls in is unsuspended first
\* (manager.rs rfc6492_process_request).
CallIn(c, issNow, susNow) ==
    IF cstate[c] = "suspended"
    THEN [iss |-> UnsuspendCerts(c), sus |-> NoCerts, woke |-> TRUE]
    ELSE [iss |-> issNow, sus |-> susNow, woke |-> FALSE]

\* The CA's children's certificates are cut down to what the CA's new
\* certificate holds (rc.rs shrink_overclaiming); a certificate left with
\* nothing is removed.
Shrunk(c, newRes) ==
    [d \in AllCA |->
        IF parent[d] = c /\ cstate[d] # "none"
        THEN [x \in Roles |-> iss[d][x] \cap newRes]
        ELSE iss[d]]

ShrunkSus(c, newRes) ==
    [d \in AllCA |->
        IF parent[d] = c /\ cstate[d] # "none"
        THEN [x \in Roles |-> sus[d][x] \cap newRes]
        ELSE sus[d]]

ShrinkChanges(c, newRes) ==
    \E d \in AllCA : Shrunk(c, newRes)[d] # iss[d] \/ ShrunkSus(c, newRes)[d] # sus[d]

\* Task::SyncParent -> CaManager::ca_sync_parent
SyncParentOK(c) ==
    /\ SP(c) \in tasks /\ Ex(c) /\ hasp[c]
    /\ parent[c] \in AllCA /\ exists[parent[c]] /\ cstate[c] # "none"

\* The CA's own products and its children's certificates follow a new
\* current certificate: route origins are re-filtered, child certificates
\* are cut down (rc.rs process_rcvd_cert_current).  A repository sync is
\* needed iff something of that changed.
VrpsFor(c, R) == {r \in routes[Prim(c)] : Prefix(r) \in R}

\* ... with open requests: send_requests = revocation requests first, then
\* certificate requests; every answer is applied at once.
SyncParentSend(c) ==
    /\ SyncParentOK(c) /\ req[c] # {}
    /\ LET p    == parent[c]
           call == CallIn(c, iss[c], sus[c])
           E    == Offer(c)
           wakeTasks == IF call.woke /\ HasSus(c) THEN {SR(p)} ELSE {}
           \* 1. revocation of the old key ends the roll
           doRev == "rev" \in req[c] /\ rc[c] = "roll_old"
           \* (a key whose certificate is gone already is confirmed as
           \* revoked without any effect at the parent)
           revEffective == doRev /\ call.iss["old"] # NoRes
           rc1  == IF doRev THEN "active" ELSE rc[c]
           iss1 == IF doRev THEN [call.iss EXCEPT !["old"] = NoRes] ELSE call.iss
           rcv1 == IF doRev THEN [rcv[c] EXCEPT !["old"] = NoRes] ELSE rcv[c]
           \* 2. certificate requests (only for keys that still exist)
           certReqs == (req[c] \ {"rev"}) \cap
                        (CASE rc1 = "pending" -> {"pend"}
                           [] rc1 = "active" -> {"cur"}
                           [] rc1 = "roll_pending" -> {"pend", "cur"}
                           [] rc1 = "roll_new" -> {"new", "cur"}
                           [] rc1 = "roll_old" -> {"cur"}
                           [] OTHER -> {})
           canIssue == E # NoRes
           pendToCur == "pend" \in certReqs /\ rc1 = "pending"
           pendToNew == "pend" \in certReqs /\ rc1 = "roll_pending"
           newCur == IF ("cur" \in certReqs \/ pendToCur) THEN E ELSE rcv1["cur"]
           newNew == IF ("new" \in certReqs \/ pendToNew) THEN E ELSE rcv1["new"]
           rc2  == IF pendToCur THEN "active"
                   ELSE IF pendToNew THEN "roll_new" ELSE rc1
           curChanged == newCur # rcv[c]["cur"]
           ownChange == \/ pendToCur \/ pendToNew \/ doRev
                        \/ (curChanged /\ (VrpsFor(c, newCur) # VrpsFor(c, rcv[c]["cur"])
                                            \/ ShrinkChanges(c, newCur)))
       IN
       IF certReqs # {} /\ ~canIssue
       THEN \* the parent has nothing to offer: the issuance is refused, the
            \* exchange fails (after a possible revocation), tried again later
            /\ iss' = [iss EXCEPT ![c] = iss1]
            /\ rcv' = [rcv EXCEPT ![c] = rcv1]
            /\ rc' = [rc EXCEPT ![c] = rc1]
            /\ req' = [req EXCEPT ![c] = @ \ {"rev"}]
            /\ sus' = [sus EXCEPT ![c] = call.sus]
            /\ tasks' = ((tasks \ {SP(c)}) \cup wakeTasks)
                         \cup (IF doRev THEN {SR(c)} ELSE {})
                         \cup (IF revEffective THEN {SR(p), SP(c)} ELSE {})
            /\ pst' = [pst EXCEPT ![c].last = "fail"]
            /\ kst' = [kst EXCEPT ![c] = "fail"]
       ELSE
            /\ iss' = [(IF curChanged THEN Shrunk(c, newCur) ELSE iss) EXCEPT ![c] =
                          [iss1 EXCEPT
                             !["cur"] = IF ("cur" \in certReqs \/ pendToCur) THEN E ELSE @,
                             !["new"] = IF ("new" \in certReqs \/ pendToNew) THEN E ELSE @]]
            /\ rcv' = [rcv EXCEPT ![c] = [rcv1 EXCEPT !["cur"] = newCur, !["new"] = newNew]]
            /\ rc' = [rc EXCEPT ![c] = rc2]
            /\ sus' = [(IF curChanged THEN ShrunkSus(c, newCur) ELSE sus) EXCEPT ![c] = call.sus]
            /\ req' = [req EXCEPT ![c] = {}]
            /\ tasks' = ((tasks \ {SP(c)}) \cup wakeTasks)
                         \cup (IF certReqs # {} \/ revEffective THEN {SR(p)} ELSE {})
                         \cup (IF ownChange THEN {SR(c)} ELSE {})
                         \* ChildKeyRevoked: the parent tells the child to sync
                         \cup (IF revEffective THEN {SP(c)} ELSE {})
            /\ pst' = [pst EXCEPT ![c].last = "ok"]
            /\ kst' = [kst EXCEPT ![c] = "ok"]
    /\ cstate' = [cstate EXCEPT ![c] = "active"]
    /\ UNCHANGED <<pubknown, rst, exists, gone, parent, hasp, ent, routes, pub>>

\* ... without open requests: get_updates_from_parent (list entitlements,
\* keys.rs request_certs_new_entitlement)
SyncParentList(c) ==
    /\ SyncParentOK(c) /\ req[c] = {}
    /\ LET p    == parent[c]
           call == CallIn(c, iss[c], sus[c])
           E    == Offer(c)
           wakeTasks == IF call.woke /\ HasSus(c) THEN {SR(p)} ELSE {}
           wanted == (IF rc[c] \in {"pending", "roll_pending"} THEN {"pend"} ELSE {})
                     \cup (IF rc[c] \in {"active", "roll_pending", "roll_new", "roll_old"}
                              /\ rcv[c]["cur"] # E THEN {"cur"} ELSE {})
                     \cup (IF rc[c] = "roll_new" /\ rcv[c]["new"] # E THEN {"new"} ELSE {})
                     \* keys.rs:508-517: in RollOld the old key's wish for an
                     \* update is turned into a request for the current key
                     \cup (IF rc[c] = "roll_old" /\ rcv[c]["old"] # E THEN {"cur"} ELSE {})
           classGone == rc[c] # "none" /\ E = NoRes
       IN
       /\ iss' = [(IF classGone THEN KidsDropped(c, iss) ELSE iss) EXCEPT ![c] = call.iss]
       /\ sus' = [(IF classGone THEN KidsDropped(c, sus) ELSE sus) EXCEPT ![c] = call.sus]
       /\ cstate' = [cstate EXCEPT ![c] = "active"]
       /\ CASE rc[c] = "none" /\ E # NoRes ->
                 \* new resource class with a pending key and a request
                 /\ rc' = [rc EXCEPT ![c] = "pending"]
                 /\ req' = [req EXCEPT ![c] = {"pend"}]
                 /\ rcv' = rcv
                 /\ tasks' = tasks \cup {SP(c)} \cup wakeTasks
            [] rc[c] # "none" /\ E = NoRes ->
                 \* the class is gone: everything is withdrawn, revocations
                 \* are requested by a follow-up task
                 /\ rc' = [rc EXCEPT ![c] = "none"]
                 /\ req' = [req EXCEPT ![c] = {}]
                 /\ rcv' = [rcv EXCEPT ![c] = NoCerts]
                 /\ tasks' = (tasks \ {SP(c)}) \cup {SR(c), RM(c)} \cup wakeTasks
            [] rc[c] # "none" /\ E # NoRes /\ wanted # {} ->
                 /\ rc' = rc
                 /\ req' = [req EXCEPT ![c] = wanted]
                 /\ rcv' = rcv
                 /\ tasks' = tasks \cup {SP(c)} \cup wakeTasks
            [] OTHER ->
                 /\ rc' = rc /\ req' = req /\ rcv' = rcv
                 /\ tasks' = (tasks \ {SP(c)}) \cup wakeTasks
       \* set_parent_entitlements / set_child_success
       /\ pst' = [pst EXCEPT ![c] = [last |-> "ok", ents |-> E]]
       /\ kst' = [kst EXCEPT ![c] = "ok"]
    /\ UNCHANGED <<pubknown, rst, exists, gone, parent, hasp, ent, routes, pub>>

\* The parent does not know the child (any more), or the parent is gone:
\* the exchange fails, nothing changes, the task is tried again later.
SyncParentFails(c) ==
    /\ SP(c) \in tasks /\ Ex(c) /\ hasp[c]
    /\ ~(parent[c] \in AllCA /\ exists[parent[c]] /\ cstate[c] # "none")
    /\ tasks' = tasks \ {SP(c)}
    \* (the parent cannot record anything about a child it does not know)
    /\ pst' = [pst EXCEPT ![c].last = "fail"]
    /\ UNCHANGED <<pubknown, rst, kst, exists, gone, parent, hasp, ent, cstate, iss, sus, rc, rcv, req,
                   routes, pub>>

\* The CA has removed that parent meanwhile: the task is dropped, nothing is
\* recorded (scheduler.rs sync_parent: CaParentUnknown -> Done).
SyncParentNoParent(c) ==
    /\ SP(c) \in tasks /\ Ex(c) /\ ~hasp[c]
    /\ tasks' = tasks \ {SP(c)}
    /\ UNCHANGED <<pubknown, pst, rst, kst, exists, gone, parent, hasp, ent, cstate, iss, sus, rc, rcv,
                   req, routes, pub>>

\* A sync task of a CA that has been deleted meanwhile is dropped.
SyncDropped(c) ==
    /\ ~Ex(c)
    /\ \E t \in {SP(c), SR(c), RM(c)} : t \in tasks /\ tasks' = tasks \ {t}
    /\ UNCHANGED <<pubknown, pst, rst, kst, exists, gone, parent, hasp, ent, cstate, iss, sus, rc, rcv, req,
                   routes, pub>>

\* Task::ResourceClassRemoved: revocation requests for the keys of a
\* removed class are sent to the parent (best effort).
\* (If the CA itself removed the parent the task carries no requests and the
\* parent cannot be contacted any more: nothing happens, nothing is recorded.)
RcRemoved(c) ==
    /\ RM(c) \in tasks /\ Ex(c)
    /\ LET p == parent[c]
           ok == hasp[c] /\ p \in AllCA /\ exists[p] /\ cstate[c] # "none" /\ HasCerts(c)
       IN  /\ iss' = IF ok THEN [iss EXCEPT ![c] = NoCerts] ELSE iss
           /\ tasks' = (tasks \ {RM(c)})
                       \cup (IF ok THEN {SR(p), SP(c)} ELSE {})
           /\ LET reached == p \in AllCA /\ exists[p] /\ cstate[c] # "none"
              IN  /\ pst' = IF hasp[c]
                            THEN [pst EXCEPT ![c].last = IF reached THEN "ok" ELSE "fail"]
                            ELSE pst
                  /\ kst' = IF hasp[c] /\ reached THEN [kst EXCEPT ![c] = "ok"] ELSE kst
    /\ UNCHANGED <<pubknown, rst, exists, gone, parent, hasp, ent, cstate, sus, rc, rcv, req, routes,
                   pub>>

\* Task::SyncRepo: the publication server receives the difference between
\* what it holds for the CA and the CA's object store.
\* The CA applies the difference it sent to the list of published objects
\* it shows (api/ca.rs RepoStatus::update_published); as long as that list
\* is what the server holds this keeps it so.
\* (A CA hosted next to its publication server is answered a list query
\* even when the server has no publisher for it -- pubd/manager.rs
\* rfc8181_message checks the publisher only for a delta --, so with nothing
\* to publish the exchange succeeds.)
NothingToPublish(c) == \A s \in SlotsOf(c) : Obj(s) = EmptyPub
SyncRepo(c) ==
    /\ IsCa(c) /\ SR(c) \in tasks /\ exists[c] /\ (pubknown[c] \/ NothingToPublish(c))
    /\ pub' = [s \in AllCA |-> IF s \in SlotsOf(c) THEN Obj(s) ELSE pub[s]]
    /\ tasks' = tasks \ {SR(c)}
    /\ \E same \in BOOLEAN :
          /\ (rst[c].same \/ ShadowRebuilt) => same
          /\ (~rst[c].same /\ ~rst[c].empty /\ ~ShadowRebuilt) => ~same
          /\ rst' = [rst EXCEPT ![c] = [last |-> "ok", same |-> same,
                                        empty |-> NothingToPublish(c)]]
    /\ UNCHANGED <<pubknown, pst, kst, exists, gone, parent, hasp, ent, cstate, iss, sus, rc, rcv, req,
                   routes>>

\* The server does not know the publisher: the exchange fails, the task is
\* tried again later.
SyncRepoFails(c) ==
    /\ IsCa(c) /\ SR(c) \in tasks /\ exists[c] /\ ~pubknown[c] /\ ~NothingToPublish(c)
    /\ rst' = [rst EXCEPT ![c].last = "fail"]
    /\ tasks' = tasks \ {SR(c)}
    /\ UNCHANGED <<pubknown, pst, kst, exists, gone, parent, hasp, ent, cstate, iss, sus, rc, rcv, req,
                   routes, pub>>

\* the execution of one particular due task
RunTask(t) ==
    /\ t \in tasks
    /\ \/ t[1] = "sync_parent"
          /\ (SyncParentSend(t[2]) \/ SyncParentList(t[2]) \/ SyncParentFails(t[2])
              \/ SyncParentNoParent(t[2]))
       \/ t[1] = "sync_repo" /\ (SyncRepo(t[2]) \/ SyncRepoFails(t[2]))
       \/ t[1] = "rc_removed" /\ RcRemoved(t[2])
       \/ /\ ~Ex(t[2])
          /\ tasks' = tasks \ {t}
          /\ UNCHANGED <<pubknown, pst, rst, kst, exists, gone, parent, hasp, ent, cstate, iss, sus, rc, rcv, req,
                         routes, pub>>

Task(c) ==
    \/ SyncParentSend(c) \/ SyncParentList(c) \/ SyncParentFails(c)
    \/ SyncParentNoParent(c) \/ SyncDropped(c) \/ RcRemoved(c) \/ SyncRepo(c) \/ SyncRepoFails(c)

\* The periodic refresh (ca_refresh / "bulk refresh"): every CA is told to
\* sync with its parent.
RefreshAll ==
    /\ tasks' = tasks \cup {SP(c) : c \in {d \in AllCA : Ex(d) /\ hasp[d] /\ d # Top}}
    /\ UNCHANGED <<pubknown, pst, rst, kst, exists, gone, parent, hasp, ent, cstate, iss, sus, rc, rcv, req,
                   routes, pub>>

\* Task::RepublishIfNeeded: every CA whose manifests and CRLs are due
\* re-issues them for ALL key sets of the class (current, staging, old) and
\* gets a repository sync; a run that finds nothing due changes nothing.
\* Task::RenewObjectsIfNeeded: every CA re-issues the route origin objects
\* that are within the re-issue margin (-> RoasUpdated -> repository sync).
\* Whether something is due is a matter of time; `due` says so.
HasKeys(c) == Ex(c) /\ rcv[c]["cur"] # NoRes
CaHasKeys(c) == \E s \in SlotsOf(c) : HasKeys(s)
Republish(due) ==
    /\ tasks' = IF due THEN tasks \cup {SR(c) : c \in {d \in AllCA : HasKeys(d)}}
                       ELSE tasks
    /\ UNCHANGED <<pubknown, pst, rst, kst, exists, gone, parent, hasp, ent, cstate, iss, sus, rc, rcv, req,
                   routes, pub>>
\* ... for the CAs in S (those with a key set within the margin)
RepublishFor(S) ==
    /\ tasks' = tasks \cup {SR(c) : c \in {d \in S : HasKeys(d)}}
    /\ UNCHANGED <<pubknown, pst, rst, kst, exists, gone, parent, hasp, ent, cstate, iss, sus, rc, rcv, req,
                   routes, pub>>
Renew(due) ==
    /\ tasks' = IF due
                THEN tasks \cup {SR(c) : c \in {d \in AllCA : HasKeys(d) /\ VrpsFor(d, rcv[d]["cur"]) # {}}}
                ELSE tasks
    /\ UNCHANGED <<pubknown, pst, rst, kst, exists, gone, parent, hasp, ent, cstate, iss, sus, rc, rcv, req,
                   routes, pub>>

\* The publication server's operator removes the CA's publisher (its
\* content goes with it) and later adds it again; "bulk sync" tells every CA
\* to synchronise with its repository.
PubRemove(c) ==
    /\ IsCa(c) /\ pubknown[c] /\ c # Top
    \* (also the publisher a deleted CA has left behind)
    /\ (exists[c] \/ ("recreate" \in Ops /\ gone[c]))
    /\ pubknown' = [pubknown EXCEPT ![c] = FALSE]
    /\ pub' = [s \in AllCA |-> IF s \in SlotsOf(c) THEN EmptyPub ELSE pub[s]]
    /\ rst' = [rst EXCEPT ![c].same = rst[c].empty]
    /\ UNCHANGED <<pst, kst, exists, gone, parent, hasp, ent, cstate, iss, sus, rc, rcv, req,
                   routes, tasks>>
PubAdd(c) ==
    /\ exists[c] /\ ~pubknown[c]
    /\ pubknown' = [pubknown EXCEPT ![c] = TRUE]
    /\ UNCHANGED <<pst, rst, kst, exists, gone, parent, hasp, ent, cstate, iss, sus, rc, rcv, req,
                   routes, pub, tasks>>
RepoSyncAll ==
    /\ tasks' = tasks \cup {SR(c) : c \in {d \in AllCA : Ex(d)}}
    /\ UNCHANGED <<pubknown, pst, rst, kst, exists, gone, parent, hasp, ent, cstate, iss, sus, rc, rcv, req,
                   routes, pub>>

---------------------------------------------------------------------------
(* Children that are not hosted by this instance *)

\* ca_add_child for a child that is not hosted here (a CA of another
\* operator): only the parent's record of the child comes into being.
\* (Restriction of this model: the parent has one resource class.)
AddForeign(f, p, R) ==
    /\ f \in Foreign /\ cstate[f] = "none" /\ parent[f] \in {"none", p}
    /\ IsCa(p) /\ exists[p] /\ \A s \in SlotsOf(p) \ {p} : parent[s] = "none"
    /\ R # NoRes /\ R \subseteq Holdings(p)
    /\ parent' = [parent EXCEPT ![f] = p]
    /\ hasp' = [hasp EXCEPT ![f] = TRUE]
    /\ ent' = [ent EXCEPT ![f] = R]
    /\ cstate' = [cstate EXCEPT ![f] = "active"]
    /\ UNCHANGED <<exists, gone, iss, sus, rc, rcv, req, routes, pub, tasks, pubknown,
                   pst, rst, kst>>

\* The provisioning requests of such a child (manager.rs rfc6492 ->
\* rfc6492_process_request): a suspended child that calls in is unsuspended
\* first, whatever becomes of the request; the outcome is what the parent
\* reports about the child.
FCall(f) == /\ f \in Foreign /\ cstate[f] # "none"
            /\ parent[f] \in AllCA /\ exists[parent[f]]
FWake(f) == IF cstate[f] = "suspended" /\ HasSus(f) THEN {SR(parent[f])} ELSE {}

\* resource class list query
FList(f) ==
    /\ FCall(f)
    /\ LET call == CallIn(f, iss[f], sus[f])
       IN  /\ iss' = [iss EXCEPT ![f] = call.iss]
           /\ sus' = [sus EXCEPT ![f] = call.sus]
    /\ cstate' = [cstate EXCEPT ![f] = "active"]
    /\ tasks' = tasks \cup FWake(f)
    /\ kst' = [kst EXCEPT ![f] = "ok"]
    /\ UNCHANGED <<exists, gone, parent, hasp, ent, rc, rcv, req, routes, pub, pubknown, pst, rst>>

\* certificate issuance request for the child's key x with the resource
\* limit L (no limit: L is everything on offer): the certificate carries
\* exactly L; a limit that is not within what the parent offers is refused
\* (misc.rs make_issued_cert, rpki RequestResourceLimit::apply_to), and so is
\* a request when nothing is on offer.  An earlier certificate for the key is
\* replaced.
FIssueOk(f, L) == L # NoRes /\ L \subseteq Offer(f)
FIssue(f, x, L) ==
    /\ FCall(f) /\ x \in {"cur", "new"}
    /\ LET call == CallIn(f, iss[f], sus[f])
           p == parent[f]
       IN  IF FIssueOk(f, L)
           THEN /\ iss' = [iss EXCEPT ![f] = [call.iss EXCEPT ![x] = L]]
                /\ tasks' = tasks \cup FWake(f) \cup {SR(p)}
                /\ kst' = [kst EXCEPT ![f] = "ok"]
                /\ sus' = [sus EXCEPT ![f] = call.sus]
           ELSE /\ iss' = [iss EXCEPT ![f] = call.iss]
                /\ tasks' = tasks \cup FWake(f)
                /\ kst' = [kst EXCEPT ![f] = "fail"]
                /\ sus' = [sus EXCEPT ![f] = call.sus]
    /\ cstate' = [cstate EXCEPT ![f] = "active"]
    /\ UNCHANGED <<exists, gone, parent, hasp, ent, rc, rcv, req, routes, pub, pubknown, pst, rst>>

\* revocation request for the child's key x: always confirmed; the
\* certificate (if there is one) is withdrawn and revoked; the parent tells
\* the child to synchronise (ChildKeyRevoked; dropped for a child that is
\* not hosted here).
\* (inuse: the parent's record of the child still lists the key as in use.
\* That is so while the key has a certificate -- and, not modelled as state,
\* after the certificate went away together with the parent's resource
\* class, certauth.rs ResourceClassRemoved leaves the children's records
\* alone: the request is then processed like an effective one, a
\* publication without content follows.  The trace specification takes the
\* value from the observed record.)
FRevoke(f, x, inuse) ==
    /\ FCall(f) /\ x \in {"cur", "new"}
    /\ LET call == CallIn(f, iss[f], sus[f])
           p == parent[f]
           had == call.iss[x] # NoRes \/ inuse
       IN  /\ iss' = [iss EXCEPT ![f] = [call.iss EXCEPT ![x] = NoRes]]
           /\ sus' = [sus EXCEPT ![f] = call.sus]
           /\ tasks' = tasks \cup FWake(f) \cup (IF had THEN {SR(p), SP(f)} ELSE {})
    /\ cstate' = [cstate EXCEPT ![f] = "active"]
    /\ kst' = [kst EXCEPT ![f] = "ok"]
    /\ UNCHANGED <<exists, gone, parent, hasp, ent, rc, rcv, req, routes, pub, pubknown, pst, rst>>

---------------------------------------------------------------------------
(* The trust anchor as Top's parent.  Top's holdings are fixed, so the only *)
(* exchanges that matter are those of a key roll: the certificate for the   *)
(* new key and the revocation of the old one.  Every request is answered    *)
(* "scheduled for processing" (1104) and queued at the proxy, the signer    *)
(* processes the queue in one cycle, Top gets each answer at its next       *)
(* synchronisation -- exactly once.  The TA's own record of Top is not      *)
(* modelled beyond that: iss[Top] mirrors rcv[Top].                         *)

RotateRoles(S) == {NewRole(x) : x \in S}
PendToNew(S) == IF "pend" \in S THEN (S \ {"pend"}) \cup {"new"} ELSE S

\* Task::SyncParent for Top (not part of the modelled queue: it is also the
\* periodic refresh; without an open request it changes nothing)
TopSync ==
    /\ exists[Top]
    /\ LET answered == req[Top] \cap tar
           fresh == (req[Top] \ tar) \ taq
           doRev == "rev" \in answered /\ rc[Top] = "roll_old"
           pendToNew == "pend" \in answered /\ rc[Top] = "roll_pending"
           rc1 == IF doRev THEN "active"
                  ELSE IF pendToNew THEN "roll_new" ELSE rc[Top]
           rcv1 == [rcv[Top] EXCEPT
                      !["old"] = IF doRev THEN NoRes ELSE @,
                      !["new"] = IF pendToNew THEN TopRes ELSE @]
       IN  /\ rc' = [rc EXCEPT ![Top] = rc1]
           /\ rcv' = [rcv EXCEPT ![Top] = rcv1]
           /\ iss' = [iss EXCEPT ![Top] = rcv1]
           /\ req' = [req EXCEPT ![Top] = @ \ answered]
           /\ tar' = tar \ answered            \* delivered exactly once
           /\ taq' = taq \cup fresh
           /\ tasks' = IF doRev \/ pendToNew THEN tasks \cup {SR(Top)} ELSE tasks
           \* (the pending key becomes the new key)
           /\ taiss' = IF pendToNew THEN PendToNew(taiss) ELSE taiss
           /\ tapub' = IF pendToNew THEN PendToNew(tapub) ELSE tapub
    /\ UNCHANGED <<pubknown, pst, rst, kst, exists, gone, parent, hasp, ent, cstate, sus,
                   routes, pub>>

\* Task::SyncTaProxySignerIfPossible: the signer answers everything queued
TaCycle ==
    /\ tar' = tar \cup taq
    /\ taq' = {}
    /\ taiss' = (taiss \cup (IF "pend" \in taq THEN {"pend"} ELSE {}))
                 \ (IF "rev" \in taq THEN {"old"} ELSE {})
    /\ UNCHANGED <<pubknown, pst, rst, kst, exists, gone, parent, hasp, ent, cstate, iss, sus, rc,
                   rcv, req, routes, pub, tasks, tapub>>

\* Task::SyncRepo for the TA
TaRepo ==
    /\ tapub' = taiss
    /\ UNCHANGED <<pubknown, pst, rst, kst, exists, gone, parent, hasp, ent, cstate, iss, sus, rc,
                   rcv, req, routes, pub, tasks, taq, tar, taiss>>

\* the activation of Top's new key rotates the roles of what the TA has
\* certified and publishes
TopRollActivate ==
    /\ RollActivate(Top)
    /\ taiss' = RotateRoles(taiss) /\ tapub' = RotateRoles(tapub)
    /\ UNCHANGED <<taq, tar>>

\* something is left to do between Top and the trust anchor
TaWork == taq # {} \/ (req[Top] \ taq) # {} \/ tapub # taiss

TaApi == (RollInit(Top) /\ UNCHANGED tavars) \/ TopRollActivate
TaTask == TopSync \/ TaCycle \/ TaRepo

ApiNext ==
    \/ \E c \in Sub, R \in SUBSET Res : AddCa(c, ParentOf[c], R)
    \/ "parents" \in Ops /\ \E s \in Sub :
            \/ RemoveParent(s)
            \/ \E R \in SUBSET Res : AddParent(s, ParentOf[s], R)
    \/ "res" \in Ops /\ \E c \in Sub, R \in SUBSET Res : ChildRes(c, R)
    \/ "suspend" \in Ops /\ \E c \in Sub : ChildSuspend(c) \/ ChildUnsuspend(c)
    \/ "autosuspend" \in Ops /\ \E M \in SUBSET Sub : AutoSuspend(M)
    \/ "map" \in Ops /\ \E c \in Sub : ChildMap(c)
    \/ "remove" \in Ops /\ \E c \in Sub : ChildRemove(c)
    \/ "roa" \in Ops /\ \E c \in AllCA, r \in Roa \ AspaDefs : RoaAdd(c, r) \/ RoaDel(c, r)
    \/ "roadelta" \in Ops /\ \E c \in AllCA, A \in SUBSET (Roa \ AspaDefs), D \in SUBSET (Roa \ AspaDefs) :
            RoaDelta(c, A, D)
    \/ "aspa" \in Ops /\ \E c \in AllCA, x \in AspaDefs : AspaSet(c, x) \/ AspaDel(c, x[1])
    \/ "roll" \in Ops /\ \E c \in Sub : RollInit(c) \/ RollActivate(c)
    \/ "delete" \in Ops /\ \E c \in Sub : DeleteCa(c)
    \/ "refresh" \in Ops /\ RefreshAll
    \/ "maintain" \in Ops /\ \E due \in BOOLEAN : Republish(due) \/ Renew(due)
    \/ "pubops" \in Ops /\ ((\E c \in Sub : PubRemove(c) \/ PubAdd(c)) \/ RepoSyncAll)
    \/ "foreign" \in Ops /\ \E f \in Foreign :
            \/ \E R \in SUBSET Res : AddForeign(f, ParentOf[f], R)
            \/ FList(f)
            \/ \E x \in {"cur", "new"} :
                   \/ \E u \in BOOLEAN : FRevoke(f, x, u)
                   \/ \E L \in SUBSET Res : FIssue(f, x, L)

TaskNext == \E c \in AllCA : Task(c)

\* (the actions above do not mention the trust anchor's variables)
ApiNextF == (ApiNext /\ UNCHANGED tavars) \/ ("taroll" \in Ops /\ TaApi)
TaskNextF == (TaskNext /\ UNCHANGED tavars) \/ ("taroll" \in Ops /\ TaTask)
Next == ApiNextF \/ TaskNextF

Spec == Init /\ [][Next]_vars

---------------------------------------------------------------------------
(* What a relying party derives from the publication server's content *)

\* The certificate of key <<c, x>> as published by c's parent: a record
\* [res, by] where by is the role of the parent's key that signed it, or
\* NoEntry.
NoEntry == [res |-> NoRes, by |-> "none"]
Entry(c, x) ==
    LET p == parent[c]
    IN  IF p \notin AllCA THEN NoEntry
        ELSE LET m == {k \in pub[p].kids : k[1] = c /\ k[2] = x}
                 o == {k \in pub[p].okids : k[1] = c /\ k[2] = x}
             IN  IF m # {} THEN [res |-> (CHOOSE k \in m : TRUE)[3], by |-> "cur"]
                 ELSE IF o # {} THEN [res |-> (CHOOSE k \in o : TRUE)[3], by |-> "old"]
                 ELSE NoEntry

RECURSIVE ValidKey(_, _)
CertRes(c, x) == IF c = Top THEN (IF x \in tapub THEN TopRes ELSE NoRes)
                 ELSE Entry(c, x).res
\* the certificate of key <<c, x>> is accepted by a relying party
ValidKey(c, x) ==
    IF c = Top THEN x \in tapub
    ELSE LET e == Entry(c, x)
             p == parent[c]
         IN  /\ e # NoEntry
             /\ ValidKey(p, e.by) /\ pub[p][e.by]
             /\ e.res \subseteq CertRes(p, e.by)
Valid(c) == ValidKey(c, "cur")

Products(c, x) == IF x = "cur" THEN pub[c].vrps
                  ELSE IF x = "old" THEN pub[c].ovrps ELSE {}
KidsOf(c, x) == IF x = "cur" THEN pub[c].kids
                ELSE IF x = "old" THEN pub[c].okids ELSE {}

\* validated route origins
\* (attributed to the CA, whichever of its resource classes the object is in)
RpVrps ==
    {<<r, c>> \in Roa \X AllCA :
        /\ IsCa(c)
        /\ \E s \in SlotsOf(c), x \in {"cur", "old"} :
            ValidKey(s, x) /\ pub[s][x] /\ r \in Products(s, x)
            /\ Prefix(r) \in CertRes(s, x)}

\* objects a relying party rejects or cannot find
RoaOverclaims == {<<c, r>> \in AllCA \X Roa :
                    \E x \in {"cur", "old"} :
                        ValidKey(c, x) /\ pub[c][x] /\ r \in Products(c, x)
                        /\ Prefix(r) \notin CertRes(c, x)}
CertOverclaims == {<<c, x, k>> \in AllCA \X {"cur", "old"} \X UNION {pub[d].kids \cup pub[d].okids : d \in AllCA} :
                    /\ k \in KidsOf(c, x) /\ ValidKey(c, x) /\ pub[c][x]
                    /\ ~(k[3] \subseteq CertRes(c, x))}
MissingPoints == {<<c, x, k>> \in AllCA \X {"cur", "old"} \X UNION {pub[d].kids \cup pub[d].okids : d \in AllCA} :
                    /\ k \in KidsOf(c, x) /\ ValidKey(c, x) /\ pub[c][x]
                    /\ k[3] \subseteq CertRes(c, x)
                    \* (the publication point of a child that is not hosted
                    \* here is somewhere else)
                    /\ k[1] \notin Foreign
                    /\ ~pub[k[1]][k[2]]}

---------------------------------------------------------------------------
(* Properties *)

Quiescent == tasks = {}

\* Nothing is left to do for any CA: one more round of parent syncs and the
\* tasks they cause changes nothing.  (Settled is established by the
\* harness action Settle, which runs RefreshAll + tasks to a fixed point.)
\* KNOWN FINDING (known-findings.json, C02-open-request-blocks-listing): a CA
\* with an open certificate request always sends it first and lists its
\* entitlements only when nothing is open (manager.rs ca_sync_parent).  If
\* the parent has nothing to offer any more (entitlement and parent's
\* certificate do not intersect) the request is refused every time, so the
\* CA never learns that the class is gone and keeps the request for ever.
StuckRequest(c) ==
    /\ Ex(c) /\ hasp[c] /\ c # Top /\ parent[c] \in AllCA /\ exists[parent[c]]
    /\ cstate[c] # "none"
    /\ (req[c] \ {"rev"}) # {} /\ Offer(c) = NoRes
NoStuckRequest == \A c \in AllCA : ~StuckRequest(c)

\* KNOWN FINDING (known-findings.json, C02-cert-dropped-by-parent-not-re-requested):
\* when a parent withdraws a child's certificate on its own (its resources
\* shrank to nothing in common, or a suspended certificate no longer fitted
\* the entitlement) and the offer is later again what the child believes it
\* holds, the child never asks for a new certificate (keys.rs wants_update
\* compares resources and validity only, not whether the parent still lists
\* a certificate for the key): the key stays without a published
\* certificate until validity times drift far enough apart.
LostCert(c) ==
    /\ Ex(c) /\ hasp[c] /\ c # Top /\ parent[c] \in AllCA /\ exists[parent[c]]
    /\ cstate[c] = "active"
    \* (known-findings.json, C02-cert-shrunk-by-parent-not-re-requested: the
    \* same when the parent did not withdraw but cut down the certificate --
    \* rc.rs shrink_overclaiming after its own certificate shrank -- and
    \* regained the resources before the child's next synchronisation: the
    \* parent publishes less than the child believes it holds, for good.
    \* Found by TLC as a violation of the temporal property
    \* C02_ConvergesForGood of MC_Krill_live.)
    /\ \E x \in {"cur", "new"} :
          rcv[c][x] # NoRes /\ iss[c][x] # rcv[c][x] /\ rcv[c][x] = Offer(c)
NoLostCert == \A c \in AllCA : ~LostCert(c)

NoOpenWork(c) ==
    Ex(c) /\ hasp[c] /\ c # Top /\ ~StuckRequest(c) /\ ~LostCert(c) /\ parent[c] \in AllCA /\ exists[parent[c]]
      /\ cstate[c] = "active"
    => /\ req[c] = {}
       \* (a roll waiting for the operator to activate the new key is at rest)
       /\ rc[c] \in {"active", "none", "roll_new"}
       /\ rcv[c]["cur"] = Offer(c)
       /\ rc[c] = "roll_new" => rcv[c]["new"] = Offer(c)
       /\ iss[c] = rcv[c]
Settled == Quiescent /\ \A c \in AllCA : NoOpenWork(c)

\* KNOWN FINDING (known-findings.json, C03-deleted-ca-cert-not-revoked): a
\* CA that is deleted after its resource class was removed but before the
\* ResourceClassRemoved task has sent the revocation requests never gets
\* its certificate revoked (scheduler.rs resource_class_removed drops the
\* task of a deleted CA): the parent keeps publishing a certificate whose
\* publication point is gone.  The properties below are stated for states
\* without such a dangling certificate; reaching one on the real code is
\* reported as the known finding by the checks.
\* (The same happens when the CA removes the parent in that window: the
\* task then finds no parent to send the requests to.)
Dangling(c) == /\ gone[Prim(c)] \/ ~hasp[c]
               /\ HasCerts(c) /\ parent[c] \in AllCA /\ exists[parent[c]]
NoDangling == \A c \in AllCA : ~Dangling(c)

\* C01: the published tree is relying-party clean and says exactly what
\* was configured, whenever background work has caught up.
RPClean == RoaOverclaims = {} /\ CertOverclaims = {} /\ MissingPoints = {}
ExpectedVrps ==
    {<<r, c>> \in Roa \X AllCA :
        /\ IsCa(c) /\ exists[c] /\ r \in routes[c]
        /\ \E s \in SlotsOf(c) : Valid(s) /\ Prefix(r) \in rcv[s]["cur"]}
C01_Clean == Settled /\ NoDangling /\ NoStuckRequest /\ NoLostCert => RPClean
C01_Vrps == Settled /\ NoStuckRequest /\ NoLostCert => RpVrps = ExpectedVrps

\* C02: in what a CA publishes, no child certificate claims more than the
\* CA's own current certificate (evaluated whenever the CA's publication is
\* up to date with its object store).
Synced(c) == SR(c) \notin tasks
C02_NoOverclaim ==
    \A c \in AllCA : Ex(c) /\ Synced(c)
        => \A k \in pub[c].kids : k[3] \subseteq rcv[c]["cur"]
\* ... and whenever a certificate is issued (or re-issued) to a child it
\* carries no more than the child's entitlement cut to the issuer's current
\* certificate (exactly that when the child requested it; the part of the
\* previous certificate that survives when the issuer shrinks it itself).
C02_IssuedWithinEntitlementStep ==
    \A c \in Sub, x \in Roles :
        (iss'[c][x] \notin {iss[c][y] : y \in Roles} /\ iss'[c][x] # NoRes
            /\ parent'[c] \in AllCA)
        => /\ iss'[c][x] \subseteq rcv'[parent'[c]]["cur"]
           /\ \/ iss'[c][x] \subseteq ent'[c]
              \/ \E y \in Roles : iss'[c][x] \subseteq iss[c][y]
C02_IssuedWithinEntitlement == [][C02_IssuedWithinEntitlementStep]_vars
C02_Converged ==
    Settled => \A c \in Sub :
        Ex(c) /\ hasp[c] /\ parent[c] \in AllCA /\ exists[parent[c]] /\ cstate[c] = "active"
        /\ ~StuckRequest(c) /\ ~LostCert(c)
        => (IF Offer(c) = NoRes THEN rc[c] = "none"
            ELSE rc[c] \in {"active", "roll_new"} /\ rcv[c]["cur"] = Offer(c))

\* C04: exactly one key signs products; staging and old keys carry manifest
\* and CRL only; every key in use has a certificate.
C04_KeysHaveCerts ==
    \A c \in AllCA : Ex(c) =>
        /\ rc[c] \in {"active", "roll_pending", "roll_new", "roll_old"}
              => rcv[c]["cur"] # NoRes
        /\ rc[c] = "roll_new" => rcv[c]["new"] # NoRes
        /\ rc[c] = "roll_old" => rcv[c]["old"] # NoRes
        /\ rc[c] \in {"none", "pending"} => rcv[c] = NoCerts
C04_PubKeysMatch ==
    \A c \in AllCA : Ex(c) /\ Synced(c) =>
        /\ pub[c].new = (rc[c] = "roll_new")
        /\ pub[c].old = (rc[c] = "roll_old")
\* C15 (on the CA's side): a request of Top is at most in one place -- queued
\* at the proxy or answered and waiting --, and only what Top still asks
\* for; so every request gets exactly one response, delivered once.
TaExactlyOnce ==
    /\ taq \cap tar = {}
    /\ (taq \cup tar) \subseteq req[Top]

\* C01 / C04: once nothing is left to do between Top and the trust anchor,
\* Top's current key has a published certificate
C01_TopValid == ~TaWork => "cur" \in tapub

\* C19: what the status reports say.  That the reported outcome is the one
\* of the most recent exchange, and the entitlements those last returned, is
\* what the actions above say (pst, rst, kst are assigned in the step of the
\* exchange itself) and what KrillTrace binds the code to.
\* After a successful repository synchronisation the list of published
\* objects a CA shows is what the server holds for it:
C19_ShadowAfterSyncStep ==
    \A c \in AllCA :
        (exists[c] /\ pubknown[c] /\ SR(c) \in tasks /\ SR(c) \notin tasks')
        => rst'[c].last = "ok" /\ rst'[c].same
C19_ShadowAfterSync == [][C19_ShadowAfterSyncStep]_vars
\* removing a child or a CA removes the entries about it
C19_RemovalRemoves ==
    \A c \in AllCA :
        /\ ~Ex(c) => pst[c] = NoPst
        /\ (IsCa(c) /\ ~exists[c]) => rst[c] = NoRst
        \* removing a parent removes the entry about it
        /\ (c # Top /\ ~hasp[c]) => pst[c] = NoPst
        /\ (c # Top /\ cstate[c] = "none") => kst[c] = "none"
        /\ (c # Top /\ parent[c] \in AllCA /\ ~exists[parent[c]]) => kst[c] = "none"
\* a report never says success with entitlements the parent cannot have
\* given, and "nothing reported yet" only before the first exchange
C19_EntsWithinEntitlement ==
    \A c \in Sub : Ex(c) => pst[c].ents \subseteq Res

=============================================================================
