CONSTANTS
  Top = "A"
  CaOf <- IdCa
  ShadowRebuilt = TRUE
  Sub = {"B", "C", "D"}
  Res = {"p1", "p2", "a1"}
  TopRes = {"p1", "p2", "a1"}
  Roa <- GenRoaAspa
  AspaDefs <- GenAspa
  ParentOf <- GenChain
  Ops = {"res", "roa", "aspa", "roll", "refresh", "maintain"}
  Depth = 30
  MaxApiStreak = 2
  MaxDestr = 1
  MftDue = FALSE
  ObjDue = FALSE
INIT GenInit
NEXT GenNext
INVARIANT PrintBehaviour
CHECK_DEADLOCK FALSE
