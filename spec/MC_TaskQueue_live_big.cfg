CONSTANTS
  Names = {"start", "rep", "ren", "sa"}
  Recurring = {"rep", "ren"}
  StartTask = "start"
  MaxTs = 2
  MaxRun = 2
  MaxDup = 2
  RequeueMin = 1
  ModesUsed = {"IfMissing", "ReplaceExistingSoonest"}
  EnvBudget = 4
SPECIFICATION LSpec
PROPERTY EveryQueuedEventuallyRuns
PROPERTY RecurringRunsAgain
CHECK_DEADLOCK FALSE
