CONSTANTS
  Names = {"start", "rep", "sa"}
  Recurring = {"rep"}
  StartTask = "start"
  MaxTs = 2
  MaxRun = 2
  MaxDup = 2
  RequeueMin = 1
  ModesUsed = {"IfMissing", "ReplaceExistingSoonest"}
  EnvBudget = 3
SPECIFICATION LSpec
PROPERTY EveryQueuedEventuallyRuns
PROPERTY RecurringRunsAgain
CHECK_DEADLOCK FALSE
