--------------------------- MODULE RepoFilesTrace ---------------------------
(* Trace specification for C11: a trace recorded by harness-pub (run-pub)  *)
(* from the real publication server, with its repository directory         *)
(* projected after every write, must be a behaviour of RepoFiles and       *)
(* satisfy the properties of C11 in every state.                           *)
(*                                                                         *)
(* Events: the logical requests (as in PubServerTrace, following the real  *)
(* replies), "fs" = one executed file system mutation, "fserr" = an        *)
(* injected error the code swallowed, "wend" = the end of a write with its *)
(* outcome and the complete projection of repo_dir.  The states between    *)
(* two projections are computed by the specification from the mutations    *)
(* the real code performed; at every "wend" the computed disk must equal   *)
(* the real one (the *Agree invariants).                                   *)
EXTENDS RepoFiles, PubServerNames, Json, IOUtils

Rec == ndJsonDeserialize(IOEnv.TRACE)

VARIABLE l

Line == Rec[l]

ToSet(s) == {s[i] : i \in 1..Len(s)}
ObjSet(arr) == {<<o[1], o[2]>> : o \in ToSet(arr)}
ElemSet(arr) == {[k |-> e.k, u |-> e.u, c |-> e.c, h |-> e.h] : e \in ToSet(arr)}

HasList(r, p) == \E i \in 1..Len(r.lists) : r.lists[i].p = p
ListOf(r, p) == r.lists[CHOOSE i \in 1..Len(r.lists) : r.lists[i].p = p]
ViewOf(r) == [p \in Pubs |-> IF HasList(r, p) THEN ObjSet(ListOf(r, p).objs) ELSE {}]

IsEvent(e) == l <= Len(Rec) /\ Line.ev = e /\ l' = l + 1

TraceInit == l = 1 /\ RInit

\* separator between behaviours: everything back to the initial state
Reset ==
    /\ IsEvent("reset")
    /\ pubs' = {} /\ cur' = [p \in Pubs |-> {}] /\ staged' = [p \in Pubs |-> {}]
    /\ session' = 1 /\ serial' = 1 /\ deltas' = <<>>
    /\ view' = [p \in Pubs |-> {}] /\ last' = NoRequest
    /\ notif' = NoNotif
    /\ newnotif' = [exists |-> FALSE, nd |-> 0, text |-> NoNotif]
    /\ files' = {} /\ rsCur' = NoDir /\ rsOld' = NoDir /\ rsTmp' = {}
    /\ w' = [phase |-> "rrdp", step |-> "deltas", dq |-> <<>>, refs |-> <<>>, keep |-> <<>>]
    /\ wres' = "none" /\ seen' = {}
    /\ pubAt' = {[s |-> 1, n |-> 1, body |-> {}, dup |-> FALSE]}
    /\ faults' = 0

\* RepositoryManager::init: its write is the one planned in the initial state
TInit == IsEvent("Init") /\ UNCHANGED allvars
TRestart == IsEvent("Restart") /\ Idle /\ UNCHANGED allvars

TAdd == IsEvent("Add") /\ Idle /\ AddPublisherO(Line.p, Line.ok) /\ view' = ViewOf(Line) /\ Quiet
TRemove == IsEvent("Remove") /\ Idle /\ RemovePublisherO(Line.p, Line.ok) /\ view' = ViewOf(Line) /\ Quiet
TDelta == IsEvent("Delta") /\ Idle /\ DeltaO(Line.p, ElemSet(Line.elems), Line.ok) /\ view' = ViewOf(Line) /\ Quiet
TList == IsEvent("List") /\ Idle /\ ListO(Line.p, Line.ok, ObjSet(Line.listed)) /\ view' = ViewOf(Line) /\ Quiet

TUpdate ==
    /\ IsEvent("Update") /\ Idle
    /\ \E y \in YoungChoices : \E o \in OldChoices(y) : RrdpUpdateAged(y, o)
    /\ view' = ViewOf(Line)
    /\ IF AnyStaged THEN StartWrite ELSE Quiet
TReset == IsEvent("Reset") /\ Idle /\ SessionResetO /\ view' = ViewOf(Line) /\ StartWrite
TRewrite == IsEvent("Rewrite") /\ Idle /\ UNCHANGED vars /\ StartWrite

TFs == IsEvent("fs") /\ FsStep(Line.op)
TFsErr == IsEvent("fserr") /\ IoError(Line.op)
\* the mutation that failed although no fault was injected: the
\* specification must expect a failure there (RealFail at the "wend")
TFsFail == IsEvent("fsfail") /\ RealFailEnabled /\ Line.op \in NextOps /\ UNCHANGED allvars

TWend ==
    /\ IsEvent("wend")
    /\ CASE Idle -> UNCHANGED allvars       \* an update with nothing staged
         [] ~Idle /\ Line.wres \in {"ok", "ioerr-ignored"} -> EndWrite
         [] ~Idle /\ Line.wres = "crash" -> Crash
         [] ~Idle /\ Line.wres = "ioerr" -> IoError(Line.cut_at)
         [] ~Idle /\ Line.wres = "fail" -> RealFail
         [] OTHER -> FALSE

TraceNext ==
    \/ Reset \/ TInit \/ TRestart \/ TAdd \/ TRemove \/ TDelta \/ TList
    \/ TUpdate \/ TReset \/ TRewrite \/ TFs \/ TFsErr \/ TFsFail \/ TWend

TraceSpec == TraceInit /\ [][TraceNext]_<<allvars, l>>

(***************************************************************************)
(* Agreement of the computed disk with the projected real one.             *)
(***************************************************************************)
Prev == Rec[l - 1]
AtWend == l > 1 /\ Prev.ev = "wend"
D == Prev.disk

RealFile(f) == [s |-> f.s, n |-> f.n, k |-> f.k,
                body |-> IF f.k = "snap" THEN ObjSet(f.body) ELSE ElemSet(f.body),
                dup |-> f.dup]
RealFiles == {RealFile(f) : f \in ToSet(D.files)}

FilesAgree == AtWend => RealFiles = files
\* every file says in its own header which session and serial it belongs to
XmlHeadersAgree == AtWend => \A f \in ToSet(D.files) : f.xs = f.s /\ f.xn = f.n

RefKey(r) == <<r.s, r.n, r.k>>
NotifAgree ==
    AtWend =>
        /\ D.notif.state = notif.state
        /\ notif.state = "ok" =>
              /\ D.notif.s = notif.s /\ D.notif.n = notif.n
              /\ RefKey(D.notif.snap) = RefKey(notif.snap)
              /\ Len(D.notif.deltas) = Len(notif.deltas)
              /\ \A i \in 1..Len(notif.deltas) :
                    /\ RefKey(D.notif.deltas[i]) = RefKey(notif.deltas[i])
                    /\ D.notif.deltas[i].dn = notif.deltas[i].dn
        /\ D.newnotif = newnotif.exists

\* the hashes stated in the real notification are the hashes of the real files
RealFileHash(r) == {f.h : f \in {g \in ToSet(D.files) : RefKey(g) = RefKey(r)}}
RealRefsExist ==
    AtWend /\ D.notif.state = "ok" =>
        /\ RealFileHash(D.notif.snap) = {D.notif.snap.h}
        /\ \A i \in 1..Len(D.notif.deltas) :
              RealFileHash(D.notif.deltas[i]) = {D.notif.deltas[i].h}

RealDir(d) == [exists |-> d.exists, objs |-> ObjSet(d.objs)]
RsyncAgree ==
    AtWend =>
        /\ RealDir(D.rs.cur) = rsCur
        /\ RealDir(D.rs.old) = rsOld
        /\ {[n |-> t.n, objs |-> ObjSet(t.objs)] : t \in ToSet(D.rs.tmp)} = rsTmp

NothingElseOnDisk == AtWend => D.extra = <<>>

WresAgree == AtWend /\ Prev.wres \notin {"ioerr-ignored"} /\ Prev.of # "Update" => Prev.wres = wres

StatsAgree11 ==
    AtWend /\ Prev.stats.known =>
        Prev.stats.serial = serial /\ Prev.stats.session = session

Agree ==
    /\ FilesAgree
    /\ XmlHeadersAgree
    /\ NotifAgree
    /\ RealRefsExist
    /\ RsyncAgree
    /\ NothingElseOnDisk
    /\ StatsAgree11

\* The state invariants of C11 are evaluated where the real disk was
\* projected (every "wend"; crash cuts make every intermediate instant of a
\* write such a point) and has just been shown equal to the computed one.
ONotificationParsable == AtWend => NotificationParsable
ONotificationRefsExist == AtWend => NotificationRefsExist
OSnapshotIsStateAtSerial == AtWend => SnapshotIsStateAtSerial
OClientCatchesUp == AtWend => ClientCatchesUp
ODeltasContiguousOnDisk == AtWend => DeltasContiguousOnDisk
ODeltasBoundedOnDisk == AtWend => DeltasBoundedOnDisk
OInterruptedWriteNeverBlocks == AtWend => InterruptedWriteNeverBlocks
ODeltasNeverExceedMaxNr == AtWend => DeltasNeverExceedMaxNrOnDisk

NoPanic11 == l > 1 /\ Prev.ev \notin {"reset", "fs", "fserr", "fsfail", "wend"} => ~Prev.panic

\* the action properties of C11, on every step but the separator
NotReset == l <= Len(Rec) /\ Line.ev # "reset"
TraceDiskFollowsLogical == [][ NotReset => DiskFollowsLogicalStep ]_<<allvars, l>>
TraceWriteOk == [][ NotReset => WriteOkStep ]_<<allvars, l>>
TraceSerialPlusOne == [][ NotReset => SerialPlusOneStep ]_<<allvars, l>>
TraceSessionOnlyOnReset == [][ NotReset => SessionOnlyOnResetStep ]_<<allvars, l>>
TraceRsyncEq ==
    [][ NotReset => RsyncEqualsSnapshotAfterWriteStep ]_<<allvars, l>>

TraceAccepted ==
    LET d == TLCGet("stats").diameter IN
    IF d - 1 = Len(Rec) THEN TRUE
    ELSE /\ PrintT(<<"TRACE_REJECTED", "matched", d - 1, "of", Len(Rec)>>)
         /\ PrintT(<<"TRACE_NEXT", ToJson(Rec[d])>>)
         /\ FALSE
=============================================================================
