------------------------------ MODULE PubServer ------------------------------
(***************************************************************************)
(* The publication server of Krill: publishers, their jails, current and   *)
(* staged objects, and the logical RRDP state (session, serial, snapshot,  *)
(* deltas).                                                                *)
(*                                                                         *)
(* Anchors (pinned tree in /repo):                                         *)
(*   src/server/pubd/manager.rs   publish :199-214, update_rrdp_if_needed  *)
(*                                :221-238, create/remove_publisher        *)
(*                                :311-333, rrdp_session_reset :194        *)
(*   src/server/pubd/content.rs   objects_for_publisher :419-440,          *)
(*                                process_remove_publisher :479-496,       *)
(*                                process_publish :542-561,                *)
(*                                process_create_rrdp_delta :564-576       *)
(*   src/server/pubd/rrdp.rs      verify_delta_applies :1345-1378,         *)
(*                                apply_delta :1392-1408, merge table      *)
(*                                :1890-2012, apply_rrdp_updated :310-338, *)
(*                                find_deltas_truncate_age :422-455,       *)
(*                                deltas_truncate_size :396-412,           *)
(*                                apply_session_reset :275-281             *)
(*   src/server/pubd/access.rs    publisher_rsync_base :413-431            *)
(*                                                                         *)
(* Grain: one action per command of the content aggregate (each is one     *)
(* WAL command under the store lock, hence atomic).                        *)
(*                                                                         *)
(* URIs and handles are tuples of path segments relative to the rsync base *)
(* URI of the server: handle "a/b" = <<"a","b">>, object                   *)
(* rsync://host/repo/a/b/x = <<"a","b","x">>.  This *is* the identity of a *)
(* URI that the property talks about: scheme and host are case-insensitive *)
(* (RFC 3986), so two spellings that differ only there are the same URI.   *)
(* The hash of a content is identified with the content.                   *)
(*                                                                         *)
(* Observation variables (view, last) hold what a client of the server     *)
(* sees: the list reply of every publisher, and the last request with its  *)
(* reply.  The properties of C10 are stated on them alone; in the model    *)
(* they are computed from the hidden state, in a trace they are what the   *)
(* real server answered.                                                   *)
(*                                                                         *)
(* Deliberate deviations of the code from the ideal, modelled as coded:    *)
(*  - the jail of <<"a">> contains the jail of <<"a","b">> (S6);           *)
(*  - removing a publisher only stages withdraws; its (emptied) entry      *)
(*    and its staged elements survive, a re-added publisher continues      *)
(*    from them;                                                           *)
(*  - find_deltas_truncate_age used to test "keep == max_nr - 1": once     *)
(*    min_nr or the age rule had pushed keep past it, the number limit was *)
(*    never applied (MaxNrEquality = TRUE; repaired by 3d66903f into       *)
(*    "keep + 1 >= max_nr", MaxNrEquality = FALSE);                        *)
(*  - the "always keep" rules (min_nr, min_seconds) have precedence over   *)
(*    max_nr (see DeltasBounded / DeltasNeverExceedMaxNr);                 *)
(*  - the min_nr rule keeps min_nr old deltas plus the new one.            *)
(***************************************************************************)
EXTENDS Naturals, Sequences, FiniteSets, TLC

CONSTANTS
    Pubs,       \* publisher handles (tuples of segments)
    Uris,       \* object URIs (tuples of segments below the base URI)
    Contents,   \* object contents (= their hashes)
    Size,       \* [Contents -> Nat]: Base64::size_approx of the content
    MinNr,      \* rrdp_delta_files_min_nr
    MaxNr,      \* rrdp_delta_files_max_nr  (>= 1)
    MinAge,     \* "zero": rrdp_delta_files_min_seconds = 0 (nothing is young)
                \* "inf" : so large that every delta is young
                \* "any" : some newest deltas are young (environment's choice)
    MaxAge,     \* "inf" : rrdp_delta_files_max_seconds so large nothing is old
                \* "zero": every existing delta is old
                \* "any" : some oldest deltas are old (environment's choice)
    MaxNrEquality, \* TRUE: the number limit is tested as "keep == max_nr - 1"
                \*   (pinned tree, rrdp.rs:440); FALSE: "keep + 1 >= max_nr" (3d66903f)
    MaxSerial,  \* model bound on serial
    MaxSession, \* model bound on session resets
    DeltaChoices \* the deltas the environment sends (subset of Deltas)

VARIABLES
    pubs,       \* registered publishers (RepositoryAccess.publishers)
    cur,        \* [Pubs -> SUBSET (Uris \X Contents)]: snapshot objects
    staged,     \* [Pubs -> set of elements]: StagedElements per publisher
    session,    \* abstract session id (1, 2, ...; fresh value on reset)
    serial,
    deltas,     \* sequence, newest first, of [n, body, size, dup]
    view,       \* observation: [Pubs -> SUBSET (Uris \X Contents)] list replies
    last        \* observation: the last request and its reply

pvars == <<pubs, cur, staged, session, serial, deltas>>
ovars == <<view, last>>
vars == <<pubs, cur, staged, session, serial, deltas, view, last>>

None == "-"
NoPub == <<>>

(***************************************************************************)
(* Elements of a publication delta / RRDP delta.                           *)
(*   k = "P": publish content c at new URI u          (h = None)           *)
(*   k = "U": replace the object with hash h at u by c                     *)
(*   k = "W": withdraw the object with hash h at u    (c = None)           *)
(***************************************************************************)
P(u, c)    == [k |-> "P", u |-> u, c |-> c, h |-> None]
U(u, h, c) == [k |-> "U", u |-> u, c |-> c, h |-> h]
W(u, h)    == [k |-> "W", u |-> u, c |-> None, h |-> h]

Elements == {P(u, c) : u \in Uris, c \in Contents}
       \cup {U(u, h, c) : u \in Uris, h \in Contents, c \in Contents}
       \cup {W(u, h) : u \in Uris, h \in Contents}

UrisOf(O) == {o[1] : o \in O}
ElemUris(E) == {e.u : e \in E}
\* each URI at most once (the quantifier of C10)
WellFormed(E) == \A e1, e2 \in E : e1.u = e2.u => e1 = e2
\* all well-formed deltas, built constructively (one option per chosen URI)
ElemOpts == {<<"P", c, None>> : c \in Contents}
       \cup {<<"U", c, h>> : c \in Contents, h \in Contents}
       \cup {<<"W", None, h>> : h \in Contents}
MkElem(u, o) == [k |-> o[1], u |-> u, c |-> o[2], h |-> o[3]]
DeltasOver(S) == {{MkElem(u, f[u]) : u \in S} : f \in [S -> ElemOpts]}
DeltasOf(US) == UNION {DeltasOver(S) : S \in SUBSET US}

(***************************************************************************)
(* The jail: a URI lies under the base URI of p (= base ++ handle ++ "/")  *)
(* iff the handle's segments are a proper prefix of the URI's segments     *)
(* (uri::Rsync::is_parent_of on path segments).                            *)
(***************************************************************************)
Under(u, p) == /\ Len(u) > Len(p)
               /\ \A i \in 1..Len(p) : u[i] = p[i]

(***************************************************************************)
(* CurrentObjects::apply_delta: publishes and updates insert (overwrite),  *)
(* withdraws remove.                                                       *)
(***************************************************************************)
Apply(O, E) ==
    LET put == {e \in E : e.k \in {"P", "U"}}
        wd  == {e.u : e \in {x \in E : x.k = "W"}}
    IN  {o \in O : o[1] \notin ElemUris(put) /\ o[1] \notin wd}
        \cup {<<e.u, e.c>> : e \in {x \in put : x.u \notin wd}}

(***************************************************************************)
(* The acceptance rule of C10, judged against an object set O:             *)
(* every published URI is new, every updated or withdrawn URI holds        *)
(* content with the stated hash, every URI lies under p's base URI.        *)
(***************************************************************************)
AcceptableOn(O, p, E) ==
    \A e \in E :
        /\ Under(e.u, p)
        /\ e.k = "P" => e.u \notin UrisOf(O)
        /\ e.k \in {"U", "W"} => <<e.u, e.h>> \in O

Objs(p) == Apply(cur[p], staged[p])

(***************************************************************************)
(* StagedElements::merge_new_elements (rrdp.rs:1890-2012), per URI.        *)
(* S is the staged set (at most one element per URI), e the new element.   *)
(***************************************************************************)
StagedAt(S, u) == {s \in S : s.u = u}

MergeOne(S, e) ==
    LET old == StagedAt(S, e.u)
        s   == CHOOSE x \in old : TRUE
        rest == S \ old
    IN  IF old = {} THEN S \cup {e}
        ELSE CASE e.k = "P" /\ s.k = "P" -> rest \cup {e}
               [] e.k = "P" /\ s.k = "U" -> rest \cup {U(e.u, s.h, e.c)}
               [] e.k = "P" /\ s.k = "W" -> rest \cup {U(e.u, s.h, e.c)}
               [] e.k = "U" /\ s.k = "P" -> rest \cup {P(e.u, e.c)}
               [] e.k = "U" /\ s.k = "U" -> rest \cup {U(e.u, s.h, e.c)}
               [] e.k = "U" /\ s.k = "W" -> rest \cup {U(e.u, s.h, e.c)}
               [] e.k = "W" /\ s.k = "P" -> rest
               [] e.k = "W" /\ s.k = "U" -> rest \cup {W(e.u, s.h)}
               [] e.k = "W" /\ s.k = "W" -> S

\* publishes, then updates, then withdraws; URIs are distinct within E, so
\* the order among the elements does not matter.
RECURSIVE Merge(_, _)
Merge(S, E) == IF E = {} THEN S
               ELSE LET e == CHOOSE x \in E : TRUE
                    IN  Merge(MergeOne(S, e), E \ {e})

RECURSIVE SumSize(_)
SumSize(E) == IF E = {} THEN 0
              ELSE LET e == CHOOSE x \in E : TRUE
                   IN  (IF e.k \in {"P", "U"} THEN Size[e.c] ELSE 0)
                       + SumSize(E \ {e})

RECURSIVE ObjSize(_)
ObjSize(O) == IF O = {} THEN 0
              ELSE LET o == CHOOSE x \in O : TRUE
                   IN  Size[o[2]] + ObjSize(O \ {o})

RECURSIVE SumOver(_, _)
SumOver(f, S) == IF S = {} THEN 0
                 ELSE LET x == CHOOSE y \in S : TRUE
                      IN  f[x] + SumOver(f, S \ {x})

(***************************************************************************)
(* Initial state: RepositoryManager::init.                                 *)
(***************************************************************************)
\* seq numbers the requests, so that a step that is a request can be told
\* from a step that leaves the last request as it was
NoRequest == [a |-> "Init", p |-> NoPub, elems |-> {}, ok |-> TRUE,
              listed |-> {}, seq |-> 0]

Init ==
    /\ pubs = {}
    /\ cur = [p \in Pubs |-> {}]
    /\ staged = [p \in Pubs |-> {}]
    /\ session = 1
    /\ serial = 1
    /\ deltas = <<>>
    /\ view = [p \in Pubs |-> {}]
    /\ last = NoRequest

NewView == view' = [q \in Pubs |-> Apply(cur'[q], staged'[q])]

(***************************************************************************)
(* Requests.  Each comes as  XxxO(args, ok)  - the change of the hidden    *)
(* state given the outcome the server reported - and  Xxx(args)  - the     *)
(* specified behaviour, i.e. XxxO with the specified outcome and the       *)
(* specified observations.                                                 *)
(***************************************************************************)
AddOK(p) == p \notin pubs

AddPublisherO(p, ok) ==
    /\ pubs' = IF ok THEN pubs \cup {p} ELSE pubs
    /\ UNCHANGED <<cur, staged, session, serial, deltas>>
    /\ last' = [a |-> "Add", p |-> p, elems |-> {}, ok |-> ok, listed |-> {}, seq |-> last.seq + 1]

AddPublisher(p) == AddPublisherO(p, AddOK(p)) /\ NewView

\* content.remove_publisher runs first and cannot fail; access refuses an
\* unknown handle afterwards (manager.rs:323-333).
RemoveOK(p) == p \in pubs
RemoveElems(p) == {W(o[1], o[2]) : o \in Objs(p)}

RemovePublisherO(p, ok) ==
    /\ pubs' = IF ok THEN pubs \ {p} ELSE pubs
    /\ staged' = [staged EXCEPT ![p] = Merge(@, RemoveElems(p))]
    /\ UNCHANGED <<cur, session, serial, deltas>>
    /\ last' = [a |-> "Remove", p |-> p, elems |-> {}, ok |-> ok,
                listed |-> {}, seq |-> last.seq + 1]

RemovePublisher(p) == RemovePublisherO(p, RemoveOK(p)) /\ NewView

DeltaOK(p, E) == p \in pubs /\ AcceptableOn(Objs(p), p, E)

DeltaO(p, E, ok) ==
    /\ staged' = IF ok THEN [staged EXCEPT ![p] = Merge(@, E)] ELSE staged
    /\ UNCHANGED <<pubs, cur, session, serial, deltas>>
    /\ last' = [a |-> "Delta", p |-> p, elems |-> E, ok |-> ok,
                listed |-> {}, seq |-> last.seq + 1]

Delta(p, E) == DeltaO(p, E, DeltaOK(p, E)) /\ NewView

ListOK(p) == p \in pubs

ListO(p, ok, listed) ==
    /\ UNCHANGED pvars
    /\ last' = [a |-> "List", p |-> p, elems |-> {}, ok |-> ok,
                listed |-> listed, seq |-> last.seq + 1]

List(p) == ListO(p, ListOK(p), IF ListOK(p) THEN Objs(p) ELSE {}) /\ NewView

(***************************************************************************)
(* RRDP update (Task::RrdpUpdateIfNeeded -> CreateRrdpDelta command).      *)
(***************************************************************************)
AnyStaged == \E p \in Pubs : staged[p] # {}

\* Age is the environment's: the deltas are ordered newest first, so
\* "young" is a prefix and "old" a suffix of the sequence.
YoungChoices == CASE MinAge = "zero" -> {0}
                  [] MinAge = "inf"  -> {Len(deltas)}
                  [] OTHER           -> 0..Len(deltas)
OldChoices(y) == CASE MaxAge = "inf"  -> {Len(deltas) + 1}
                   [] MaxAge = "zero" -> {y + 1}
                   [] OTHER           -> (y + 1)..(Len(deltas) + 1)

\* find_deltas_truncate_age: young = deltas[1..y], old = deltas[o..Len]
RECURSIVE AgeKeep(_, _, _, _)
AgeKeep(i, keep, y, o) ==
    IF i > Len(deltas) THEN keep
    ELSE IF keep < MinNr \/ i <= y THEN AgeKeep(i + 1, keep + 1, y, o)
    ELSE IF (IF MaxNrEquality THEN keep = MaxNr - 1 ELSE keep + 1 >= MaxNr)
            \/ i >= o THEN keep
    ELSE AgeKeep(i + 1, keep + 1, y, o)

\* deltas_truncate_size on a sequence D against snapshot size sz
RECURSIVE SizeKeep(_, _, _, _)
SizeKeep(D, i, total, sz) ==
    IF i > Len(D) THEN Len(D)
    ELSE IF total + D[i].size > sz THEN i - 1
    ELSE SizeKeep(D, i + 1, total + D[i].size, sz)

StagedAll == UNION {staged[p] : p \in Pubs}
\* some URI is staged by two publishers (only possible with nested jails)
StagedDup == \E p, q \in Pubs : p # q /\ ElemUris(staged[p]) \cap ElemUris(staged[q]) # {}
CurAll(c) == UNION {c[p] : p \in Pubs}
CurDup(c) == \E p, q \in Pubs : p # q /\ UrisOf(c[p]) \cap UrisOf(c[q]) # {}
CurSize(c) == SumOver([p \in Pubs |-> ObjSize(c[p])], Pubs)

RrdpUpdateAged(y, o) ==
    IF ~AnyStaged THEN
        /\ UNCHANGED pvars
        /\ last' = [a |-> "Update", p |-> NoPub, elems |-> {}, ok |-> TRUE,
                    listed |-> {}, seq |-> last.seq + 1]
    ELSE
        LET newcur == [p \in Pubs |-> Apply(cur[p], staged[p])]
            d == [n |-> serial + 1, body |-> StagedAll,
                  size |-> SumOver([p \in Pubs |-> SumSize(staged[p])], Pubs),
                  dup |-> StagedDup]
            aged == <<d>> \o SubSeq(deltas, 1, AgeKeep(1, 0, y, o))
        IN  /\ serial' = serial + 1
            /\ cur' = newcur
            /\ staged' = [p \in Pubs |-> {}]
            /\ deltas' = SubSeq(aged, 1, SizeKeep(aged, 1, 0, CurSize(newcur)))
            /\ UNCHANGED <<pubs, session>>
            /\ last' = [a |-> "Update", p |-> NoPub, elems |-> {},
                        ok |-> TRUE, listed |-> {}, seq |-> last.seq + 1]

RrdpUpdate == \E y \in YoungChoices : \E o \in OldChoices(y) :
                  RrdpUpdateAged(y, o) /\ NewView

SessionResetO ==
    /\ session' = session + 1
    /\ serial' = 1
    /\ deltas' = <<>>
    /\ UNCHANGED <<pubs, cur, staged>>
    /\ last' = [a |-> "Reset", p |-> NoPub, elems |-> {}, ok |-> TRUE,
                listed |-> {}, seq |-> last.seq + 1]

SessionReset == SessionResetO /\ NewView

\* the deltas the environment sends: every well-formed delta of at most
\* MaxElems elements (a model bound; MaxElems = Cardinality(Uris) is all)
SmallDeltas(k) == UNION {DeltasOver(S) : S \in {T \in SUBSET Uris : Cardinality(T) <= k}}

Next ==
    \/ \E p \in Pubs : AddPublisher(p) \/ RemovePublisher(p) \/ List(p)
    \/ \E p \in Pubs, E \in DeltaChoices : Delta(p, E)
    \/ RrdpUpdate
    \/ SessionReset

Spec == Init /\ [][Next]_vars

(***************************************************************************)
(* Type invariant and structural facts.                                    *)
(***************************************************************************)
IsFunctional(O) == \A o1, o2 \in O : o1[1] = o2[1] => o1 = o2

TypeOK ==
    /\ pubs \subseteq Pubs
    /\ \A p \in Pubs : cur[p] \subseteq Uris \X Contents /\ IsFunctional(cur[p])
    /\ \A p \in Pubs : staged[p] \subseteq Elements /\ WellFormed(staged[p])
    /\ session \in Nat /\ serial \in Nat /\ serial >= 1
    /\ \A i \in 1..Len(deltas) : deltas[i].n = serial - i + 1

\* a staged element always refers to the snapshot: publishes are new there,
\* updates and withdraws name the hash the snapshot holds
StagedAppliesToSnapshot ==
    \A p \in Pubs : \A e \in staged[p] :
        /\ e.k = "P" => e.u \notin UrisOf(cur[p])
        /\ e.k \in {"U", "W"} => <<e.u, e.h>> \in cur[p]

UnregisteredHasNothing == \A p \in Pubs \ pubs : Objs(p) = {}

(***************************************************************************)
(* The properties of C10, on the observation variables.                    *)
(***************************************************************************)

\* the request of this step ("none" for a step that is not a request)
LA == IF last'.seq # last.seq THEN last'.a ELSE "none"

\* "the list reply is exactly the publisher's current content including
\* changes not yet visible in RRDP"
ListIsCurrentPlusStaged ==
    /\ \A p \in Pubs : view[p] = Objs(p)
    /\ last.a = "List" /\ last.ok => last.listed = Objs(last.p)

\* "applied exactly when every published URI is new, every updated or
\* withdrawn URI currently holds content with the stated hash, and every
\* URI lies under that publisher's own base URI" - judged on what the
\* publisher could see (its list) before the request
AppliedIffStep ==
    LA = "Delta" /\ last'.p \in pubs =>
        (last'.ok <=> AcceptableOn(view[last'.p], last'.p, last'.elems))
AppliedIff == [][AppliedIffStep]_vars

\* "applied completely or not at all"
DeltaAtomicStep ==
    LA = "Delta" =>
        view'[last'.p] = IF last'.ok THEN Apply(view[last'.p], last'.elems)
                         ELSE view[last'.p]
DeltaAtomic == [][DeltaAtomicStep]_vars

\* requests of an unregistered handle are refused
UnknownRefusedStep ==
    LA \in {"Delta", "List", "Remove"} /\ last'.p \notin pubs => ~last'.ok
UnknownRefused == [][UnknownRefusedStep]_vars

\* "No request of one publisher can reveal, alter or remove another
\* publisher's objects": the other publishers' lists are untouched, a list
\* reply holds own objects only ...
IsolationStep ==
    /\ LA \in {"Delta", "List", "Remove", "Add"} =>
           \A q \in Pubs \ {last'.p} : view'[q] = view[q]
    /\ LA = "List" => last'.listed = (IF last'.ok THEN view[last'.p] ELSE {})
    /\ LA \in {"List", "Add", "Update", "Reset"} => view' = view
Isolation == [][IsolationStep]_vars

\* ... and no two publishers ever hold the same URI (otherwise the
\* published object at that URI is altered - and with a withdraw removed -
\* by the other publisher's requests)
IsolationPublished ==
    \A p, q \in Pubs : p # q => UrisOf(view[p]) \cap UrisOf(view[q]) = {}

\* "removing a publisher withdraws all of its objects and nothing else"
RemoveWithdrawsExactlyOwnStep ==
    LA = "Remove" /\ last'.ok =>
        /\ view'[last'.p] = {}
        /\ \A q \in Pubs \ {last'.p} : view'[q] = view[q]
RemoveWithdrawsExactlyOwn == [][RemoveWithdrawsExactlyOwnStep]_vars

\* an RRDP update publishes exactly what the lists showed
UpdatePublishesViewsStep ==
    LA = "Update" => \A p \in Pubs : cur'[p] = view[p] /\ staged'[p] = {}
UpdatePublishesViews == [][UpdatePublishesViewsStep]_vars

(***************************************************************************)
(* Properties of the logical RRDP state (C11, logical part).               *)
(***************************************************************************)
SerialPlusOneStep ==
    /\ LA = "Update" => serial' \in {serial, serial + 1}
    /\ LA = "Update" /\ (\E p \in Pubs : view[p] # cur[p])
           => serial' = serial + 1
    /\ LA \notin {"Update", "Reset"} => serial' = serial
SerialPlusOne == [][SerialPlusOneStep]_vars

SessionOnlyOnResetStep ==
    /\ LA # "Reset" => session' = session
    /\ LA = "Reset" => session' # session /\ serial' = 1 /\ deltas' = <<>>
SessionOnlyOnReset == [][SessionOnlyOnResetStep]_vars

DeltasContiguousToCurrent ==
    \A i \in 1..Len(deltas) : deltas[i].n = serial - i + 1

\* "the retained deltas never exceed the configured maximum number":
\* the configuration gives the min rules precedence (DESIGN 8), so the
\* bound is the maximum of max_nr and what the min rules protect: the new
\* delta plus min_nr older ones (as coded), and every young delta.  With
\* MinAge = "zero" and MinNr < MaxNr this is exactly MaxNr.  Young deltas
\* are counted only when MinAge # "zero" (then all may be young: no bound).
DeltasBounded ==
    MinAge = "zero" => Len(deltas) <= (IF MaxNr > MinNr + 1 THEN MaxNr ELSE MinNr + 1)

\* The literal reading of the statement, without that precedence: it holds
\* iff the configuration lets max_nr win (min_nr < max_nr, nothing young).
DeltasNeverExceedMaxNr == Len(deltas) <= MaxNr

\* every invariant of C10 except IsolationPublished
Inv10 ==
    /\ TypeOK
    /\ StagedAppliesToSnapshot
    /\ UnregisteredHasNothing
    /\ ListIsCurrentPlusStaged
    /\ DeltasContiguousToCurrent

=============================================================================
