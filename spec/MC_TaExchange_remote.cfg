CONSTANTS
  Children = {"ca1", "rc"}
  ReqNames = {"i:ka", "i:kb"}
  MaxNonce = 2
  MaxMsgs = 4
  MaxReassoc = 0
  Mutant = "none"
INIT MCInit
NEXT MCNext
VIEW View
INVARIANT Disjoint
PROPERTY RefusedUnchanged
PROPERTY OneResponsePerRequest
PROPERTY DeliveredExactlyOnce
PROPERTY TaNumbersIncrease
CHECK_DEADLOCK FALSE
