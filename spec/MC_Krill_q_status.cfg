CONSTANTS
  Top = "A"
  CaOf <- IdCa
  ShadowRebuilt = TRUE
  Sub = {"B", "C"}
SPECIFICATION MCSpec
INVARIANT TypeOK
INVARIANT C19_RemovalRemoves
INVARIANT C19_EntsWithinEntitlement
PROPERTY MC_ShadowAfterSync
CHECK_DEADLOCK FALSE
CONSTANTS
  Res = {"p1", "p2"}
  TopRes = {"p1", "p2"}
  Roa <- MCRoa1
  AspaDefs <- NoAspa
  ParentOf <- Chain
  Ops = {"res", "remove", "delete", "roa", "pubops"}
CONSTANTS
  MaxApi = 5
