CONSTANTS
  Top = "A"
  CaOf <- SecondSlots
  ShadowRebuilt = TRUE
  Sub = {"B", "C", "C2"}
SPECIFICATION LiveSpec
PROPERTY C04_OldKeyGoes
PROPERTY C04_NewKeyCertified
PROPERTY C04_OldPointGoes
PROPERTY C02_ConvergesForGood
PROPERTY C09_PublishedInfinitelyOften
CHECK_DEADLOCK FALSE
CONSTANTS
  Res = {"p1", "p2"}
  TopRes = {"p1", "p2"}
  Roa <- MCRoa1
  AspaDefs <- NoAspa
  ParentOf <- Multi
  Ops = {"parents", "res", "roll"}
CONSTANTS
  MaxApi = 4
