------------------------------ MODULE RovTrace ------------------------------
(* Judges what the real BgpAnalyser reported (harness `kv-vec rov`) against *)
(* Rov.  Every line of the trace is one case (ROAs, announcements), one     *)
(* restriction and the observed report, mapped back onto the abstract tree. *)
(* TLC evaluates the definitions of Rov on the case and compares; a line is *)
(* accepted iff Failures(line) = {}.  Every rejected line is printed as     *)
(* MISMATCH with the failed clauses, so that one run judges all lines.      *)
EXTENDS Rov, Json, IOUtils, TLC

Rec == ndJsonDeserialize(IOEnv.TRACE)

VARIABLES l, bad

ToSet(s) == { s[i] : i \in 1..Len(s) }

RoaOf(e) == [p |-> e.p, ml |-> e.ml, asn |-> e.asn]
AnnOf(e) == [p |-> e.p, o |-> e.o]
Roas(s) == { RoaOf(e) : e \in ToSet(s) }
Anns(s) == { AnnOf(e) : e \in ToSet(s) }

Coarse(st) == IF st \in {"invalid_length", "invalid_asn", "disallowed"}
              THEN "invalid" ELSE st

Diff(obs, exp) == IF obs = exp THEN "equal"
                  ELSE IF exp \subseteq obs THEN "extra"
                  ELSE IF obs \subseteq exp THEN "missing"
                  ELSE "both"

(* The clauses of C17 that the observation `o` of case <<R, A>> under       *)
(* restriction x fails, as a set of tuples (the first element names the     *)
(* clause, the others make the signature precise).                          *)
Failures(R, A, x, o) ==
  LET V   == Vrps(R, x.held)
      \* what krill validates against when the scope is limited
      VS  == IF x.lim THEN { r \in V : Within(r.p, x.scope) } ELSE V
      J   == Judged(A, x)
      OA  == ToSet(o.anns)
      ORo == ToSet(o.roas)
      S   == o.sugg
      Class(isAlt) == IF x.lim /\ isAlt THEN "as-if-only-roas-in-scope"
                      ELSE "plain"
      \* --- every announcement within the resources has the RFC 6811 state
      AnnFail(a) ==
        LET es == { e \in OA : AnnOf(e) = a } IN
        IF es = {} THEN { <<"ann-missing", Detailed(a, V)>> }
        ELSE UNION {
          IF Coarse(e.st) # Rfc(a, V)
          THEN { <<"ann-state", Rfc(a, V), Coarse(e.st),
                   Class(Coarse(e.st) = Rfc(a, VS))>> }
          ELSE IF e.st # Detailed(a, V)
          THEN { <<"ann-reason", Detailed(a, V), e.st,
                   Class(e.st = Detailed(a, VS))>> }
          ELSE IF e.st = "valid" /\
                  ~ ( Roas(e.ab) # {} /\
                      Roas(e.ab) \subseteq { r \in V : Matches(r, a) } )
          THEN { <<"ann-allowed-by">> }
          ELSE IF Coarse(e.st) = "invalid" /\
                  Roas(e.db) # { r \in V : CoversAnn(r, a) }
          THEN { <<"ann-disallowed-by",
                   Diff(Roas(e.db), { r \in V : CoversAnn(r, a) }),
                   Class(Roas(e.db) = { r \in VS : CoversAnn(r, a) })>> }
          ELSE {} : e \in es }
      \* --- every reported ROA has exactly the sets validation gives it
      RoaFail(r) ==
        LET es == { e \in ORo : RoaOf(e) = r } IN
        IF es = {}
        THEN IF Authorizes(r, A, V) = {} /\ Disallows(r, A, V) = {} THEN {}
             ELSE { <<"roa-missing">> }
        ELSE UNION {
          IF ~ e.sets THEN {}
          ELSE LET au == Anns(e.auth)
                   di == Anns(e.dis)
                   xd == di \ Disallows(r, A, V)  IN
            (IF au # Authorizes(r, A, V)
             THEN { <<"roa-authorizes", e.st, Diff(au, Authorizes(r, A, V))>> }
             ELSE {})
            \cup
            (IF di # Disallows(r, A, V)
             THEN { <<"roa-disallows", e.st, Diff(di, Disallows(r, A, V)),
                      IF x.lim /\ di = Disallows(r, A, VS)
                        THEN "as-if-only-roas-in-scope"
                      ELSE IF xd # {} /\ \A a \in xd : a \in A /\ Rfc(a, V) = "valid"
                        THEN "extra-are-valid"
                      ELSE "plain">> }
             ELSE {}) : e \in es }
      \* --- suggestions
      Removed == Roas(S.removed)
      Added   == Roas(S.added)
      Pure    == Roas(S.stale) \cup Roas(S.as0_redundant)
                 \cup Roas(S.disallowing)
      After   == (V \ Removed) \cup { r \in Added : Within(r.p, x.held) }
      \* is announcement a validated by a ROA of the suggestion list n?
      InList(a, n) ==
        \E r \in V : Matches(r, a) /\
          \/ n = "stale" /\ r \in Roas(S.stale)
          \/ n = "redundant" /\ r \in Roas(S.redundant)
          \/ n = "as0_redundant" /\ r \in Roas(S.as0_redundant)
          \/ n = "too_permissive" /\
               r \in { t.cur : t \in ToSet(S.too_permissive) }
      SuggFail ==
        (IF \E r \in Pure \cap V : \E a \in A : Matches(r, a)
         THEN { <<"sugg-remove-validating">> } ELSE {})
        \cup
        UNION { IF Rfc(a, V) = "valid" /\ Rfc(a, After) # "valid"
                THEN { <<"sugg-unvalidates", Rfc(a, After),
                         InList(a, "stale"), InList(a, "too_permissive"),
                         InList(a, "redundant"), InList(a, "as0_redundant")>> }
                ELSE {} : a \in J }
  IN IF o.panic # "" THEN { <<"panic">> }
     ELSE UNION { AnnFail(a) : a \in J }
          \cup UNION { RoaFail(r) : r \in Reported(R, x) }
          \cup SuggFail

(* A line carries the observations for every restriction; each failure is  *)
(* prefixed with the restriction it was seen under.                         *)
LineFailures(ln) ==
    UNION { { <<x>> \o f :
              f \in Failures(Roas(ln.roas), Anns(ln.anns), Restrictions[x],
                             ln.obs[x]) } : x \in RestrictionIds }

(* What the line exercises (anti-vacuity counters, by the specification's   *)
(* own verdicts): judged announcements per expected state, ROAs with a      *)
(* non-empty expected authorises / disallows set, suggestions that remove.  *)
Kinds == {"valid", "invalid_length", "invalid_asn", "disallowed",
          "not_found", "roa_authorizes", "roa_disallows", "sugg_removes"}

Exercised(ln) ==
    LET R == Roas(ln.roas)
        A == Anns(ln.anns) IN
    [ k \in Kinds |->
        Cardinality({ x \in RestrictionIds :
            LET X == Restrictions[x]
                V == Vrps(R, X.held) IN
            CASE k = "roa_authorizes" ->
                    \E r \in Reported(R, X) : Authorizes(r, A, V) # {}
              [] k = "roa_disallows" ->
                    \E r \in Reported(R, X) : Disallows(r, A, V) # {}
              [] k = "sugg_removes" ->
                    ln.obs[x].panic = "" /\ Len(ln.obs[x].sugg.removed) > 0
              [] OTHER ->
                    \E a \in Judged(A, X) : Detailed(a, V) = k }) ]

VARIABLES cnt

TraceInit == l = 1 /\ bad = 0 /\ cnt = [k \in Kinds |-> 0]

TraceNext ==
    /\ l <= Len(Rec)
    /\ LET f == LineFailures(Rec[l])
           e == Exercised(Rec[l]) IN
       /\ f # {} => PrintT(<<"MISMATCH", l, ToJson(f)>>)
       /\ bad' = bad + (IF f = {} THEN 0 ELSE 1)
       /\ cnt' = [k \in Kinds |-> cnt[k] + e[k]]
       /\ l = Len(Rec) => PrintT(<<"SUMMARY", Len(Rec), bad', ToJson(cnt')>>)
    /\ l' = l + 1

TraceSpec == TraceInit /\ [][TraceNext]_<<l, bad, cnt>>

AllLinesJudged ==
    LET d == TLCGet("stats").diameter IN
    IF d - 1 = Len(Rec) THEN TRUE
    ELSE PrintT(<<"TRACE_INCOMPLETE", d - 1, Len(Rec)>>) /\ FALSE
=============================================================================
