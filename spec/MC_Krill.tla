------------------------------ MODULE MC_Krill ------------------------------
(* Model-checking wrapper for Krill.tla: constants that need operators, and *)
(* a counter of API operations so that configurations can bound the number  *)
(* of operations per behaviour (background tasks are never bounded).        *)
EXTENDS Krill

CONSTANT MaxApi

VARIABLE napi

MCRoa1 == {<<"p1", "a1">>}
MCRoa2 == {<<"p1", "a1">>, <<"p2", "a1">>}
NoAspa == {}
MCAspa == {<<"a1", "prov:a2">>, <<"a1", "prov:a2+a3">>}
MCRoaAspa == MCRoa1 \cup MCAspa
Chain == [c \in Sub |-> IF c = "B" THEN "A" ELSE "B"]
Flat == [c \in Sub |-> "A"]
\* B under A; F (a child that is not hosted here) and C under B
ForeignUnderB == [c \in Sub |-> IF c = "B" THEN "A" ELSE "B"]
\* B under A, C under B, and C's second parent (slot C2) is A itself
Multi == [c \in Sub |-> IF c = "B" THEN "A" ELSE IF c = "C" THEN "B" ELSE "A"]

\* The status reports are written by the actions and never read by them (but
\* for rst itself): configurations whose properties do not mention them
\* identify states that differ in the reports only.
CoreView == <<exists, gone, parent, hasp, ent, cstate, iss, sus, rc, rcv, req, routes,
              pub, tasks, pubknown, napi, taq, tar, taiss, tapub>>

MCInit == Init /\ napi = 0
MCNext == \/ napi < MaxApi /\ ApiNextF /\ napi' = napi + 1
          \/ TaskNextF /\ napi' = napi
MCSpec == MCInit /\ [][MCNext]_<<vars, napi>>

\* the step property again, for the wrapped specification
MC_IssuedWithinEntitlement == [][C02_IssuedWithinEntitlementStep]_<<vars, napi>>
MC_ShadowAfterSync == [][C19_ShadowAfterSyncStep]_<<vars, napi>>
=============================================================================
