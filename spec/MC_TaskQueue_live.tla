------------------------- MODULE MC_TaskQueue_live -------------------------
(* Liveness configuration of TaskQueue (C09): the environment (API threads  *)
(* scheduling tasks, crashes) acts a bounded number of times; the scheduler *)
(* thread, start-up and the clock are weakly fair.  Recurring tasks behave  *)
(* as in scheduler.rs: their result is always a follow-up of themselves at  *)
(* a later time; other tasks finish, reschedule or follow up.               *)
EXTENDS TaskQueue

CONSTANT EnvBudget

VARIABLE env    \* number of environment steps taken so far

LInit == Init /\ env = 0

EnvStep ==
    /\ env < EnvBudget
    /\ env' = env + 1
    /\ \/ \E n \in Names \ {StartTask}, ts \in Ts, m \in ModesUsed : Schedule(n, ts, m)
       \/ Crash

SchedStep ==
    /\ env' = env
    /\ \/ Claim
       \/ Finish
       \/ \E ts \in Ts : ts >= now /\ Reschedule(ts)   \* the code always re-schedules into the future
       \/ \E ts \in Ts : ts >= now /\ FollowUp(ts)
       \/ ProcessStart
       \/ Tick
       \/ Startup

LNext == EnvStep \/ SchedStep

lvars == <<vars, env>>

LFairness ==
    /\ \A n \in Names : SF_lvars(env' = env /\ ClaimN(n))
    /\ WF_lvars(env' = env /\ (Finish
                               \/ (\E ts \in Ts : ts >= now /\ FollowUp(ts))
                               \/ ProcessStart))
    /\ WF_lvars(env' = env /\ Tick)
    /\ WF_lvars(env' = env /\ Startup)

LSpec == LInit /\ [][LNext]_lvars /\ LFairness

\* Every queued task is eventually executed by the scheduler thread.
EveryQueuedEventuallyRuns ==
    \A n \in Names : (n \in Known) ~> (cur = n)

\* Recurring maintenance never stops.
RecurringRunsAgain ==
    \A n \in Recurring : []<>(cur = n)
=============================================================================
