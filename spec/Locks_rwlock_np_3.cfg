CONSTANTS
  Threads = {t1, t2, t3}
  Semantics = "rwlock_np"
SPECIFICATION Spec
INVARIANT TypeOK
INVARIANT DeadlockFree
SYMMETRY Symm
CHECK_DEADLOCK FALSE
