CONSTANTS
  MaxGen = 2
  CheckRecipient = FALSE
  Mutant = "none"
  CaKeys <- SmallCaKeys
  Lims <- BigLims
  Uris <- SmallUris
  Vals <- SmallVals
  Suspendable <- OneSuspendable
  Updatable <- AllUpdatable
INIT MCInit
NEXT MCNext
VIEW View
INVARIANT TypeOK
INVARIANT WithinScope
INVARIANT KeysExclusive
PROPERTY RefusedUnchanged
PROPERTY EffectsWithinSender
PROPERTY ReplySignedByCurrentServerKey
PROPERTY ReplacedIdentityRefused
CHECK_DEADLOCK FALSE
