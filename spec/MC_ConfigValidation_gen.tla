----------------------- MODULE MC_ConfigValidation_gen -----------------------
(* Case enumerator for ConfigValidation: CA states x requests over small    *)
(* pools of entries that contain every class the property names (held /     *)
(* not held, implicit / explicit / too small / too large maximum length,    *)
(* v4 / v6, AS 0, comments, duplicates inside one request, ...).  The       *)
(* initial states choose the kind of request and the CA state, the single   *)
(* step chooses the request.  Every case is printed as one JSON line and    *)
(* the sanity theorems of ConfigValidation are checked on it.               *)
EXTENDS ConfigValidation, FiniteSetsExt, Json, TLC

CONSTANTS Kinds,        \* which kinds of request to enumerate
          MaxEntries,   \* at most this many entries in one request
          SampleMod,    \* 1: every case; n > 1: a seeded sample (1 in n)
          SampleSeed

VARIABLES case, phase
vars == <<case, phase>>

E(p, ml, asn, c) == [p |-> p, ml |-> ml, asn |-> asn, c |-> c]
P(p, ml, asn) == [p |-> p, ml |-> ml, asn |-> asn]

----------------------------------------------------------------------------
(* ROA pools *)
RoaAddPool == <<
    E("h4", NoMl, 1, ""),  E("h4", NoMl, 1, "x"),
    E("h4", 24, 1, ""),    E("h4", 24, 1, "x"),
    E("h4", 25, 1, ""),    E("h4", 25, 1, "x"),
    E("h4", 32, 1, ""),    E("h4", 33, 1, ""),    E("h4", 23, 1, "x"),
    E("h4", NoMl, 0, ""),  E("h4", 24, 2, ""),
    E("b4", NoMl, 1, ""),  E("b4", 16, 1, "x"),   E("b4", 15, 1, ""),
    E("u4", NoMl, 1, ""),  E("u4", 33, 1, ""),
    E("o4", NoMl, 1, ""),
    E("h6", NoMl, 1, ""),  E("h6", 48, 1, "x"),   E("h6", 128, 1, "x"),
    E("h6", 129, 1, ""),   E("h6", 47, 1, ""),
    E("u6", NoMl, 2, "") >>

RoaRemPool == <<
    P("h4", NoMl, 1), P("h4", 24, 1), P("h4", 25, 1), P("h4", NoMl, 0),
    P("h4", 33, 1),   P("u4", NoMl, 1),
    P("h6", NoMl, 1), P("h6", 128, 1), P("b4", 16, 1) >>

\* what can be configured before the request
RoaStatePool == <<
    [pl |-> P("h4", 24, 1), c |-> ""],  [pl |-> P("h4", 24, 1), c |-> "x"],
    [pl |-> P("h4", 25, 1), c |-> ""],  [pl |-> P("h4", 24, 0), c |-> ""],
    [pl |-> P("h6", 48, 1), c |-> ""],  [pl |-> P("h6", 128, 1), c |-> "x"],
    [pl |-> P("b4", 16, 1), c |-> ""],
    [pl |-> P("u4", 24, 1), c |-> ""] >>     \* configured while held, lost

(* ASPA pools: customers 1, 2 (held), 3 (not held); providers 11, 12 *)
D(c, ps) == [cust |-> c, provs |-> ps]
AspaAddPool == <<
    D(1, <<11>>), D(1, <<12>>), D(1, <<11, 12>>), D(1, <<12, 11>>),
    D(1, <<>>),   D(1, <<11, 11>>), D(1, <<1>>),  D(1, <<11, 1>>),
    D(1, <<2>>),
    D(2, <<11>>), D(2, <<>>),   D(2, <<2, 12>>),
    D(3, <<11>>), D(3, <<>>),   D(3, <<3>>) >>
AspaRemPool == <<1, 2, 3>>
AspaStatePool == << [cust |-> 1, provs |-> {11}], [cust |-> 1, provs |-> {11, 12}],
                    [cust |-> 2, provs |-> {11}], [cust |-> 2, provs |-> {1}],
                    [cust |-> 3, provs |-> {11}] >>   \* AS 3 lost since
AspaCustomers == <<1, 2, 3>>
ProvLists == << <<>>, <<11>>, <<12>>, <<11, 12>>, <<11, 11>>, <<1>>, <<11, 1>>,
                <<13>> >>

(* Router key pools: AS 1, 2 held, 3 not; keys k1, k2 *)
K(a, k) == [asn |-> a, key |-> k]
Rd(a, k, s) == [asn |-> a, key |-> k, sig |-> s]
RtrAddPool == << Rd(1, "k1", TRUE), Rd(1, "k1", FALSE), Rd(1, "k2", TRUE),
                 Rd(2, "k1", TRUE), Rd(2, "k2", FALSE),
                 Rd(3, "k1", TRUE), Rd(3, "k2", FALSE) >>
RtrRemPool == << K(1, "k1"), K(1, "k2"), K(2, "k1"), K(3, "k1") >>
RtrStatePool == << K(1, "k1"), K(1, "k2"), K(2, "k1"),
                   K(3, "k1") >>                       \* AS 3 lost since

(* Children *)
Handles == <<"ch1", "ch2">>
ResSeq == <<"none", "sub4", "asn", "mix", "all", "unh4", "part", "big4",
            "unhas", "partas">>
ChildStatePool == << [h |-> "ch1", res |-> "sub4"], [h |-> "ch1", res |-> "all"],
                     [h |-> "ch2", res |-> "mix"],
                     [h |-> "ch2", res |-> "part"] >>  \* partly lost since

----------------------------------------------------------------------------
IdxSeqs(n, k) == UNION { [1..m -> 1..n] : m \in 0..k }
Pick(pool, idx) == [i \in 1..Len(idx) |-> pool[idx[i]]]

\* sets of at most two pool elements, as sets of indices
StateIdx(n) == { S \in SUBSET (1..n) : Cardinality(S) <= 2 }

HSeq(s) == IF Len(s) = 0 THEN 7
           ELSE IF Len(s) = 1 THEN s[1] * 31 + 1
           ELSE s[1] * 31 + s[2] * 1009 + 2
HSet(S) == MapThenSumSet(LAMBDA i : (i * i * 13 + i) % 10007, S) + 3
Sampled(h) == SampleMod = 1 \/ (h + SampleSeed * 7919) % SampleMod = 0

StatesOf(kind) ==
    CASE kind = "roa" ->
            { S \in StateIdx(Len(RoaStatePool)) :
                \A i, j \in S : i # j => RoaStatePool[i].pl # RoaStatePool[j].pl }
      [] kind \in {"aspa", "aspap"} ->
            { S \in StateIdx(Len(AspaStatePool)) :
                \A i, j \in S : i # j =>
                    AspaStatePool[i].cust # AspaStatePool[j].cust }
      [] kind = "rtr" -> StateIdx(Len(RtrStatePool))
      [] OTHER ->
            { S \in StateIdx(Len(ChildStatePool)) :
                \A i, j \in S : i # j =>
                    ChildStatePool[i].h # ChildStatePool[j].h }

StateOf(kind, S) ==
    CASE kind = "roa" -> { RoaStatePool[i] : i \in S }
      [] kind \in {"aspa", "aspap"} -> { AspaStatePool[i] : i \in S }
      [] kind = "rtr" -> { RtrStatePool[i] : i \in S }
      [] OTHER -> { ChildStatePool[i] : i \in S }

GenInit ==
    /\ phase = 0
    /\ \E k \in Kinds : \E S \in StatesOf(k) :
          case = [kind |-> k, sidx |-> S, state |-> StateOf(k, S), req |-> <<>>]

\* add/remove requests over two pools
TwoPools(addPool, remPool) ==
    \E ai \in IdxSeqs(Len(addPool), 2), ri \in IdxSeqs(Len(remPool), 2) :
        /\ Len(ai) + Len(ri) <= MaxEntries
        /\ Sampled(HSet(case.sidx) * 17 + HSeq(ai) * 3 + HSeq(ri) * 5003)
        /\ case' = [case EXCEPT !.req = [add |-> Pick(addPool, ai),
                                         rem |-> Pick(remPool, ri)]]

GenNext ==
    /\ phase = 0
    /\ phase' = 1
    /\ CASE case.kind = "roa"  -> TwoPools(RoaAddPool, RoaRemPool)
         [] case.kind = "aspa" -> TwoPools(AspaAddPool, AspaRemPool)
         [] case.kind = "rtr"  -> TwoPools(RtrAddPool, RtrRemPool)
         [] case.kind = "aspap" ->
              \E c \in 1..Len(AspaCustomers),
                 a \in 1..Len(ProvLists), r \in 1..Len(ProvLists) :
                /\ Sampled(HSet(case.sidx) * 17 + c * 101 + a * 7 + r * 1013)
                /\ case' = [case EXCEPT !.req = [cust |-> AspaCustomers[c],
                                                 add |-> ProvLists[a],
                                                 rem |-> ProvLists[r]]]
         [] OTHER ->
              \E h \in 1..Len(Handles), r \in 1..Len(ResSeq) :
                /\ Sampled(HSet(case.sidx) * 17 + h * 101 + r * 7)
                /\ case' = [case EXCEPT !.req = [h |-> Handles[h],
                                                 res |-> ResSeq[r]]]

TheCase == [kind |-> case.kind, state |-> case.state, req |-> case.req]

Sane == phase = 1 => SanityTheorems(TheCase)

PrintCase == phase = 1 => PrintT(<<"REPLAY", ToJson(TheCase)>>)

ASSUME NormTheorem
=============================================================================
