CONSTANTS
  Children = {"ca1", "rc"}
  ReqNames = {"i:ka", "i:kb", "r:ka"}
  MaxNonce = 6
  MaxMsgs = 18
  MaxReassoc = 1
  Mutant = "none"
  Depth = 36
  ReassocAfter = 14
  MaxAdv = 2
  GenVariants = {"orig", "tnonce", "tcontent", "swap", "rsrand", "rsproxy"}
  GenSigners = {"S1", "S2"}
INIT GenInit
NEXT GenNext
INVARIANT PrintBehaviour
CHECK_DEADLOCK FALSE
