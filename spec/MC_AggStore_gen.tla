-------------------------- MODULE MC_AggStore_gen --------------------------
(* Behaviour generator for AggStore: the base specification plus a history *)
(* variable that records the program of every thread (the operations it    *)
(* begins, in order).  A behaviour is printed as one JSON line when every  *)
(* thread has finished.  The harness cannot force the schedule of the      *)
(* model run onto OS threads; it runs the programs under seeded schedule   *)
(* perturbation and TLC validates whichever interleaving happened.         *)
EXTENDS AggStore, Json

VARIABLE prog

GenInit == Init /\ prog = [t \in Threads |-> <<>>]

Began(t) == pc[t] = "idle" /\ pc'[t] # "idle"

GenNext ==
    /\ Next
    /\ prog' = [t \in Threads |->
                  IF Began(t)
                  THEN Append(prog[t], [e |-> ent'[t], op |-> op'[t]])
                  ELSE prog[t]]

GenSpec == GenInit /\ [][GenNext]_<<vars, prog>>

AllDone == \A t \in Threads : pc[t] = "idle" /\ nops[t] = MaxOps

PrintBehaviour ==
    AllDone => PrintT(<<"REPLAY", ToJson([threads |-> prog])>>)
=============================================================================
