CONSTANT Part = "c13"
INIT Init
NEXT Next
INVARIANT PrintCase
CHECK_DEADLOCK FALSE
