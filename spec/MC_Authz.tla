------------------------------ MODULE MC_Authz ------------------------------
(* Exhaustive check of the decision functions of Authz over a universe of  *)
(* roles: every route x method, every role whose three permission sets     *)
(* (general, blanket, entry for the addressed CA / for another CA) are     *)
(* drawn from sets built around the route's own permission, every          *)
(* credential class, both transports, mapped and unmapped socket peers.    *)
(* Each initial state is one decision; there are no transitions.           *)
EXTENDS Authz

CONSTANT Full    \* TRUE: the large role universe (thorough tier)

VARIABLES stage, rid, role, bearer, transport, peer, testbed

vars == <<stage, rid, role, bearer, transport, peer, testbed>>

\* Permission sets relative to a route: what it needs, that minus its own
\* permission, that minus login, everything, everything but its permission,
\* only login, nothing.
NeedPerms(r) == { n[1] : n \in Need(r) }
SetsFor(r) ==
    LET np == NeedPerms(r) IN
    IF Full
    THEN { np, np \ {r.perm}, np \ {"login"}, Perms, Perms \ {r.perm},
           {"login"}, {} }
    ELSE { np, np \ {r.perm}, Perms \ {r.perm}, Perms \ {"login"} }

SpecificsFor(r) ==
    LET S == SetsFor(r) IN
    {NoSpecific}
      \cup { [c \in {"ca1"} |-> s] : s \in S }
      \cup { [c \in {"ca2"} |-> s] : s \in S }

RolesFor(r) ==
    { Complex(n, a, s) : n \in SetsFor(r), a \in SetsFor(r),
                         s \in SpecificsFor(r) }

Bearers ==
    { [kind |-> "none"], [kind |-> "admin"], [kind |-> "junk"],
      [kind |-> "session", user |-> "u", role |-> "r", issuer |-> "this"],
      [kind |-> "session", user |-> "u", role |-> "r", issuer |-> "other"],
      [kind |-> "session", user |-> "u", role |-> "gone", issuer |-> "this"] }

\* The initial states only choose the route, so that the enumeration of
\* everything else is spread over TLC's workers.
Init ==
    /\ stage = 0
    /\ rid \in RouteIds
    /\ role = NobodyRole
    /\ bearer = [kind |-> "none"]
    /\ transport = "tcp"
    /\ peer = ""
    /\ testbed = FALSE

Next ==
    /\ stage = 0
    /\ stage' = 1
    /\ rid' = rid
    /\ role' \in RolesFor(RouteOf(rid))
    /\ bearer' \in Bearers
    /\ transport' \in {"tcp", "unix"}
    /\ peer' \in {"", "me", "stranger"}
    /\ testbed' \in BOOLEAN
    /\ (transport' = "tcp" => peer' = "")
    /\ (transport' = "unix" => peer' # "")

\* "u" has the role under test; the socket peer "me" is mapped to it too.
Cfg == [users |-> [u \in {"u"} |-> [pw |-> "pw", role |-> "r"]],
        roles |-> [n \in {"r"} |-> role],
        unixUsers |-> [p \in {"me"} |-> "r"]]

Req == [bearer |-> bearer, transport |-> transport, peer |-> peer]
Actor == ActsAs(Cfg, Req)
Route == RouteOf(rid)
V == Verdict(Route, Actor, "ca1", testbed)

\* the permission set that decides about a resource
Effective(ro, res) ==
    IF res = NoCA THEN ro.none
    ELSE IF res \in DOMAIN ro.specific THEN ro.specific[res] ELSE ro.any

------------------------------------------------------------------------------
\* C13
ServedNeedsEverything ==
    (V = "served" /\ Route.kind \notin {"public", "testbed"}) =>
        /\ "login" \in Actor.role.none
        /\ Route.kind = "perm" =>
             Route.perm \in Effective(Actor.role,
                                      IF Route.res = "ca" THEN "ca1" ELSE NoCA)

RefusedLacksSomething ==
    V = "refused" =>
        \E n \in Need(Route) :
            n[1] \notin Effective(Actor.role,
                                  IF n[2] = "ca" THEN "ca1" ELSE NoCA)

OtherCaIrrelevant ==
    \* an entry for a CA that is not addressed never matters
    ("ca2" \in DOMAIN Actor.role.specific) =>
        V = Verdict(Route,
                    [id |-> Actor.id,
                     role |-> Complex(Actor.role.none, Actor.role.any,
                                      NoSpecific)],
                    "ca1", testbed)

NobodyGetsOnlyPublic ==
    Actor = Nobody =>
        ((V = "served") <=> (rid \in PublicIds \/ (testbed /\ rid \in TestbedIds)))

TestbedOnlyInTestbedMode ==
    (rid \in TestbedIds /\ ~testbed) => V = "absent"

------------------------------------------------------------------------------
\* C20
OnlyGenuineCredentials ==
    Actor # Nobody =>
        \/ bearer.kind = "admin"
        \/ /\ bearer.kind = "session" /\ bearer.issuer = "this"
           /\ bearer.role \in DOMAIN Cfg.roles
        \/ transport = "unix" /\ peer \in DOMAIN Cfg.unixUsers

AdminOnlyByAdminToken ==
    Actor.id = "admin-token" <=> bearer.kind = "admin"

NoPeerOverTcp ==
    (transport = "tcp" /\ bearer.kind \in {"none", "junk"}) => Actor = Nobody

ForeignOrStaleSessionIsNobodyOverTcp ==
    (transport = "tcp" /\ bearer.kind = "session"
        /\ (bearer.issuer # "this" \/ bearer.role \notin DOMAIN Cfg.roles))
      => Actor = Nobody

LoginRule ==
    LoginSucceeds(Cfg, "u", "pw") <=> "login" \in role.none

LoginNeedsEverything ==
    /\ ~LoginSucceeds(Cfg, "v", "pw")
    /\ ~LoginSucceeds(Cfg, "u", "other")
    /\ ~LoginSucceeds(Cfg, "U", "pw")

ASSUME TableSane
ASSUME PublicExactly([users |-> [u \in {} |-> 0], roles |-> [n \in {} |-> 0],
                      unixUsers |-> [p \in {} |-> ""]])
ASSUME LoginEverywhere
ASSUME SpecificWins
ASSUME Len(Routes) = Cardinality(RouteIds)
=============================================================================
