CONSTANTS
  MaxGen = 2
  CheckRecipient = FALSE
  Mutant = "none"
  CaKeys <- AllCaKeys
  Lims <- AllLims
  Uris <- AllUris
  Vals <- AllVals
  Updatable <- AllUpdatable
  Suspendable <- GenSuspendable
  Depth = 3
INIT GenInit
NEXT GenNext
VIEW View
CONSTRAINT DepthBound
INVARIANT PrintBehaviour
CHECK_DEADLOCK FALSE
