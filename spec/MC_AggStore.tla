---------------------------- MODULE MC_AggStore ----------------------------
(* Model-checking wrapper for AggStore: symmetry sets.                     *)
EXTENDS AggStore

\* Threads and plain aggregate entities are interchangeable.
SymTE == Permutations(Threads)
            \cup Permutations(Entities \ (WalEntities \cup NewEntities))
SymE == Permutations(Entities \ (WalEntities \cup NewEntities))

=============================================================================
