---------------------------- MODULE MC_AggStore ----------------------------
(* Model-checking wrapper for AggStore: symmetry sets and an optional      *)
(* partial-order reduction.                                                *)
EXTENDS AggStore

\* Threads and plain aggregate entities are interchangeable.
SymTE == Permutations(Threads)
            \cup Permutations(Entities \ (WalEntities \cup NewEntities))
SymE == Permutations(Entities \ (WalEntities \cup NewEntities))

(***************************************************************************)
(* CsPriority (ACTION_CONSTRAINT, used only by the *_por configs, with     *)
(* LockMode = "write" and threads numbered by naturals): while some thread *)
(* is inside a critical section, the least such thread moves.  With an     *)
(* exclusive scope lock, the steps inside a critical section on entity e   *)
(* touch only cmds[e], snap[e], cache[e], order[e] and thread-local        *)
(* variables, threads waiting for e are blocked, and every invariant is a  *)
(* conjunction of per-entity / per-thread predicates, so running critical  *)
(* sections on different entities one after the other loses no projection  *)
(* of the reachable states onto an entity.  All orders of lock             *)
(* acquisitions and all programs are still explored.  The configurations   *)
(* without the reduction cross-check it at smaller bounds.                 *)
(***************************************************************************)
InCs(t) == pc[t] \notin {"idle", "root", "scope", "hist", "rootw",
                         "relrootw", "dead"}
Least(S) == CHOOSE x \in S : \A y \in S : x <= y
CsPriority ==
    LET cs == {t \in Threads : InCs(t)} IN
    cs # {} => pc'[Least(cs)] # pc[Least(cs)]
=============================================================================
