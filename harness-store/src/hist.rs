//! `run-hist`: differential conformance of `apply` (C06).
//!
//! A seeded generator drives a KrillRuntime through its public operations
//! (trust anchor, CAs at two levels with ROAs / ASPAs / children / key
//! rolls / identity changes, publication server with extra publishers,
//! background tasks, snapshots, restarts). At every k-th step every
//! event-sourced entity is rebuilt
//!   (a) by a fresh store instance on the same storage
//!       (snapshot + later commands),
//!   (b) by a fresh store instance on a copy of the storage from which every
//!       snapshot.json has been removed (init + every command),
//! and both are compared with the state the running manager holds: serde
//! views where the live aggregate is reachable, API views always.

use std::collections::BTreeMap;
use std::fs;
use std::path::{Path, PathBuf};
use std::str::FromStr;
use rpki::ca::idexchange::{
    ChildHandle, MyHandle, PublisherHandle,
};
use rpki::ca::idexchange;
use serde_json::{json, Value};
use krill::api;
use krill::api::aspa::{AspaDefinition, AspaDefinitionUpdates, CustomerAsn};
use krill::api::roa::{RoaConfiguration, RoaConfigurationUpdates, RoaPayload};
use krill::commons::eventsourcing::{
    Aggregate, AggregateStore, WalStore, WalSupport,
};
use krill::commons::storage::{Ident, StorageSystem};
use krill::constants::{
    CASERVER_NS, PUBSERVER_CONTENT_NS, PUBSERVER_NS, TA_PROXY_SERVER_NS,
    TA_SIGNER_SERVER_NS,
};
use krill::server::ca::CertAuth;
use krill::server::mq::Task;
use krill::server::pubd::{
    RepositoryAccess, RepositoryContent, RepositoryContentProxy,
};
use krill::server::taproxy::TrustAnchorProxy;
use krill::tasigner::TrustAnchorSigner;
use crate::common::{
    self, int_arg, Env, EnvOpts, Outcome, TraceOut,
};
use crate::conc::list_command_keys;
use crate::setup;


//------------ helpers -------------------------------------------------------

pub struct Rng(u64);

impl Rng {
    pub fn new(seed: u64) -> Self {
        Rng(seed.wrapping_mul(0x9E3779B97F4A7C15) | 1)
    }

    pub fn next(&mut self) -> u64 {
        let mut x = self.0;
        x ^= x << 13;
        x ^= x >> 7;
        x ^= x << 17;
        self.0 = x;
        x
    }

    pub fn below(&mut self, n: u64) -> u64 {
        if n == 0 { 0 } else { (self.next() >> 11) % n }
    }

    pub fn pick<'a, T>(&mut self, items: &'a [T]) -> Option<&'a T> {
        if items.is_empty() { None }
        else { Some(&items[self.below(items.len() as u64) as usize]) }
    }
}

/// Path and values of the first difference between two JSON values.
pub fn first_diff(a: &Value, b: &Value) -> String {
    fn walk(a: &Value, b: &Value, path: &mut String) -> Option<String> {
        match (a, b) {
            (Value::Object(x), Value::Object(y)) => {
                for (k, v) in x {
                    match y.get(k) {
                        None => {
                            return Some(format!("{path}/{k}: only left"))
                        }
                        Some(w) => {
                            let len = path.len();
                            path.push('/');
                            path.push_str(k);
                            if let Some(d) = walk(v, w, path) {
                                return Some(d)
                            }
                            path.truncate(len);
                        }
                    }
                }
                for k in y.keys() {
                    if !x.contains_key(k) {
                        return Some(format!("{path}/{k}: only right"))
                    }
                }
                None
            }
            (Value::Array(x), Value::Array(y)) => {
                if x.len() != y.len() {
                    return Some(format!(
                        "{path}: array length {} vs {}", x.len(), y.len()
                    ))
                }
                for (i, (v, w)) in x.iter().zip(y).enumerate() {
                    let len = path.len();
                    path.push_str(&format!("/{i}"));
                    if let Some(d) = walk(v, w, path) {
                        return Some(d)
                    }
                    path.truncate(len);
                }
                None
            }
            _ => {
                if a == b { None }
                else {
                    let short = |v: &Value| {
                        let s = v.to_string();
                        if s.len() > 80 { format!("{}...", &s[..80]) }
                        else { s }
                    };
                    Some(format!("{path}: {} vs {}", short(a), short(b)))
                }
            }
        }
    }
    walk(a, b, &mut String::new()).unwrap_or_else(|| "equal".into())
}

/// Sorts every array (recursively): list order that stems from hash-map
/// iteration is not part of the state.
pub fn canonical(v: &Value) -> Value {
    match v {
        Value::Array(items) => {
            let mut items: Vec<Value> = items.iter().map(canonical).collect();
            items.sort_by_key(|x| x.to_string());
            Value::Array(items)
        }
        Value::Object(map) => {
            Value::Object(map.iter().map(|(k, v)| {
                (k.clone(), canonical(v))
            }).collect())
        }
        other => other.clone(),
    }
}

fn copy_dir(src: &Path, dst: &Path, skip_snapshots: bool) -> std::io::Result<()> {
    fs::create_dir_all(dst)?;
    for entry in fs::read_dir(src)? {
        let entry = entry?;
        let name = entry.file_name();
        let from = entry.path();
        let to = dst.join(&name);
        if entry.file_type()?.is_dir() {
            copy_dir(&from, &to, skip_snapshots)?;
        }
        else if skip_snapshots && name == "snapshot.json" {
            continue
        }
        else {
            fs::copy(&from, &to)?;
        }
    }
    Ok(())
}


//------------ World ---------------------------------------------------------

struct CaInfo {
    name: String,
    parent: String,
    /// first octets of the /8 (level 1) or /16 (level 2)
    block: String,
    level: u8,
    shrunk: bool,
}

/// What the accepted commands should have left behind (an oracle that is
/// independent of `apply`): updated only when the public operation
/// reported success.
#[derive(Clone, Debug, Default)]
pub struct CaExpect {
    /// configured ROAs as "prefix => asn"
    roas: std::collections::BTreeSet<String>,
    /// customer -> providers
    aspas: BTreeMap<u64, std::collections::BTreeSet<u64>>,
    /// child -> (IPv4 entitlement, suspended)
    kids: BTreeMap<String, (String, bool)>,
}

struct World {
    /// CAs that were registered as publishers (delete_ca empties but does
    /// not remove the publisher)
    ca_publishers: Vec<String>,
    expect: BTreeMap<String, CaExpect>,
    dir: PathBuf,
    env: Option<Env>,
    opts: EnvOpts,
    rng: Rng,
    cas: Vec<CaInfo>,
    next_ca: u32,
    publishers: Vec<String>,
    next_pub: u32,
    log: Vec<Value>,
    memory: bool,
    /// per CA: the identity key and the certificate key of a child of it
    /// that is not hosted here ("remote"), whose provisioning requests come
    /// in as signed messages
    remote: BTreeMap<String, (rpki::crypto::KeyIdentifier,
                              rpki::crypto::KeyIdentifier)>,
}

impl World {
    fn env(&self) -> &Env {
        self.env.as_ref().unwrap()
    }

    fn v4_of(ca: &CaInfo, shrunk: bool) -> String {
        if ca.level == 1 {
            format!("{}.0.0.0/8", ca.block)
        }
        else if shrunk {
            format!("{}.0.0/17", ca.block)
        }
        else {
            format!("{}.0.0/16", ca.block)
        }
    }

    fn res_of(ca: &CaInfo, shrunk: bool) -> rpki::repository::resources::ResourceSet {
        let v4 = if ca.level == 1 {
            format!("{}.0.0.0/8", ca.block)
        }
        else if shrunk {
            format!("{}.0.0/17", ca.block)
        }
        else {
            format!("{}.0.0/16", ca.block)
        };
        setup::resources("AS65000-AS65300", &v4, "")
    }

    fn prefix_in(&mut self, ca_idx: usize) -> String {
        let ca = &self.cas[ca_idx];
        let x = self.rng.below(4);
        if ca.level == 1 {
            // stay clear of the blocks handed to children (x.<1..>.0.0/16)
            format!("{}.0.{}.0/24", ca.block, x)
        }
        else {
            // the upper half disappears when the parent shrinks the child
            let hi = if self.rng.below(2) == 0 { 0 } else { 128 };
            format!("{}.{}.0/24", ca.block, hi + x)
        }
    }

    fn do_step(&mut self, n: usize) -> Value {
        let pick = self.rng.below(100);
        let actor = self.env().krill.system_actor().clone();
        let res: Result<String, String>;
        let what: String;
        macro_rules! krill { () => { &self.env().krill } }
        // now and then the object store of the CAs refuses its next write:
        // a command that changes objects is then rejected by the pre-save
        // listener after it has been applied to a copy of the aggregate --
        // nothing of it may stay behind, in memory or in the audit log
        // (only steps that are commands on a CA: a failing write during a
        // restart, a snapshot job or a task pump is a matter for C08)
        let faulty = !self.cas.is_empty() && (8..71).contains(&pick)
            && self.rng.below(100) < 9;
        if faulty {
            krill::verif::set_fault_mode(
                krill::verif::FaultMode::ErrorAt(1),
                Some("kv:store:/".to_string()),
            );
        }
        if self.cas.is_empty() || pick < 8 {
            // new CA under the TA or under a level-1 CA
            let name = format!("c{}", self.next_ca);
            self.next_ca += 1;
            let parents: Vec<usize> = self.cas.iter().enumerate().filter(|c| {
                c.1.level == 1
            }).map(|c| c.0).collect();
            let under_ta = parents.is_empty() || self.rng.below(3) == 0;
            let info = if under_ta {
                CaInfo {
                    name: name.clone(), parent: "ta".into(),
                    block: format!("{}", 10 + self.next_ca), level: 1,
                    shrunk: false,
                }
            }
            else {
                let p = *self.rng.pick(&parents).unwrap();
                CaInfo {
                    name: name.clone(), parent: self.cas[p].name.clone(),
                    block: format!(
                        "{}.{}", self.cas[p].block, 1 + self.next_ca
                    ),
                    level: 2, shrunk: false,
                }
            };
            what = format!("add_ca {} under {}", name, info.parent);
            let mut registered = false;
            res = (|| {
                setup::init_ca_with_repo(self.env(), &name)?;
                self.ca_publishers.push(name.clone());
                setup::add_parent(
                    self.env(), &name, &info.parent,
                    Self::res_of(&info, false)
                )?;
                registered = true;
                setup::sync_parent(self.env(), &name, &info.parent)?;
                Ok("ok".to_string())
            })();
            if registered {
                self.expect.insert(name.clone(), CaExpect::default());
                if info.parent != "ta" {
                    self.expect.entry(info.parent.clone()).or_default().kids
                        .insert(
                            name.clone(),
                            (Self::v4_of(&info, false), false)
                        );
                }
                self.cas.push(info);
            }
        }
        else if pick < 30 {
            let i = self.rng.below(self.cas.len() as u64) as usize;
            let prefix = self.prefix_in(i);
            let asn = 65000 + self.rng.below(3);
            let ca = setup::ca_handle(&self.cas[i].name);
            what = format!("roa_add {} {prefix} => {asn}", self.cas[i].name);
            let cfg = RoaConfiguration::from_str(
                &format!("{prefix} => {asn}")
            ).unwrap();
            res = krill!().ca_manager().ca_routes_update(
                ca,
                RoaConfigurationUpdates { added: vec![cfg], removed: vec![] },
                &actor, krill!(),
            ).map(|_| "ok".into()).map_err(|e| e.to_string());
            if res.is_ok() {
                let name = self.cas[i].name.clone();
                self.expect.entry(name).or_default().roas.insert(
                    format!("{prefix} => {asn}")
                );
            }
        }
        else if pick < 42 {
            let i = self.rng.below(self.cas.len() as u64) as usize;
            let prefix = self.prefix_in(i);
            let asn = 65000 + self.rng.below(3);
            let ca = setup::ca_handle(&self.cas[i].name);
            what = format!("roa_del {} {prefix} => {asn}", self.cas[i].name);
            let payload = RoaPayload::from_str(
                &format!("{prefix} => {asn}")
            ).unwrap();
            res = krill!().ca_manager().ca_routes_update(
                ca,
                RoaConfigurationUpdates {
                    added: vec![], removed: vec![payload]
                },
                &actor, krill!(),
            ).map(|_| "ok".into()).map_err(|e| e.to_string());
            if res.is_ok() {
                let name = self.cas[i].name.clone();
                self.expect.entry(name).or_default().roas.remove(
                    &format!("{prefix} => {asn}")
                );
            }
        }
        else if pick < 50 {
            let i = self.rng.below(self.cas.len() as u64) as usize;
            let ca = setup::ca_handle(&self.cas[i].name);
            let customer = 65010 + self.rng.below(3);
            let mut new_providers = None;
            let updates = if self.rng.below(3) == 0 {
                AspaDefinitionUpdates {
                    add_or_replace: vec![],
                    remove: vec![CustomerAsn::from_str(
                        &format!("AS{customer}")
                    ).unwrap()],
                }
            }
            else {
                let p1 = 65100 + self.rng.below(3);
                let p2 = 65110 + self.rng.below(3);
                new_providers = Some([p1, p2]);
                AspaDefinitionUpdates {
                    add_or_replace: vec![AspaDefinition::from_str(
                        &format!("AS{customer} => AS{p1}, AS{p2}")
                    ).unwrap()],
                    remove: vec![],
                }
            };
            what = format!("aspa {} {customer}", self.cas[i].name);
            res = krill!().ca_manager().ca_aspas_definitions_update(
                ca, updates, &actor, krill!(),
            ).map(|_| "ok".into()).map_err(|e| e.to_string());
            if res.is_ok() {
                let name = self.cas[i].name.clone();
                let exp = self.expect.entry(name).or_default();
                match new_providers {
                    Some(p) => {
                        exp.aspas.insert(customer, p.into_iter().collect());
                    }
                    None => {
                        exp.aspas.remove(&customer);
                    }
                }
            }
        }
        else if pick < 58 {
            // parent changes the entitlement of a level-2 child
            let kids: Vec<usize> = self.cas.iter().enumerate().filter(|c| {
                c.1.level == 2
            }).map(|c| c.0).collect();
            if let Some(&i) = self.rng.pick(&kids) {
                let shrunk = !self.cas[i].shrunk;
                let parent = setup::ca_handle(&self.cas[i].parent);
                let child = ChildHandle::from_str(&self.cas[i].name).unwrap();
                what = format!(
                    "child_resources {} shrunk={shrunk}", self.cas[i].name
                );
                res = krill!().ca_manager().ca_child_update(
                    &parent, child,
                    api::admin::UpdateChildRequest::resources(
                        Self::res_of(&self.cas[i], shrunk)
                    ),
                    &actor, krill!(),
                ).map(|_| "ok".into()).map_err(|e| e.to_string());
                if res.is_ok() {
                    self.cas[i].shrunk = shrunk;
                    let v4 = Self::v4_of(&self.cas[i], shrunk);
                    let (p, c) = (
                        self.cas[i].parent.clone(), self.cas[i].name.clone()
                    );
                    if let Some(kid)
                        = self.expect.entry(p).or_default().kids.get_mut(&c)
                    {
                        kid.0 = v4;
                    }
                }
            }
            else {
                what = "child_resources (no child)".into();
                res = Ok("skipped".into());
            }
        }
        else if pick < 62 {
            let kids: Vec<usize> = self.cas.iter().enumerate().filter(|c| {
                c.1.level == 2
            }).map(|c| c.0).collect();
            if let Some(&i) = self.rng.pick(&kids) {
                let parent = setup::ca_handle(&self.cas[i].parent);
                let child = ChildHandle::from_str(&self.cas[i].name).unwrap();
                let suspend = self.rng.below(2) == 0;
                what = format!("child_suspend {} {suspend}", self.cas[i].name);
                let req = if suspend {
                    api::admin::UpdateChildRequest::suspend()
                }
                else {
                    api::admin::UpdateChildRequest::unsuspend()
                };
                res = krill!().ca_manager().ca_child_update(
                    &parent, child, req, &actor, krill!(),
                ).map(|_| "ok".into()).map_err(|e| e.to_string());
                if res.is_ok() {
                    let (p, c) = (
                        self.cas[i].parent.clone(), self.cas[i].name.clone()
                    );
                    if let Some(kid)
                        = self.expect.entry(p).or_default().kids.get_mut(&c)
                    {
                        kid.1 = suspend;
                    }
                }
            }
            else {
                what = "child_suspend (no child)".into();
                res = Ok("skipped".into());
            }
        }
        else if pick < 68 {
            let i = self.rng.below(self.cas.len() as u64) as usize;
            let ca = setup::ca_handle(&self.cas[i].name);
            let init = self.rng.below(2) == 0;
            what = format!(
                "keyroll_{} {}", if init { "init" } else { "activate" },
                self.cas[i].name
            );
            res = if init {
                krill!().ca_manager().ca_keyroll_init(
                    ca, chrono::Duration::seconds(0), &actor, krill!()
                )
            }
            else {
                krill!().ca_manager().ca_keyroll_activate(
                    ca, chrono::Duration::seconds(0), &actor, krill!()
                )
            }.map(|_| "ok".into()).map_err(|e| e.to_string());
        }
        else if pick < 71 {
            let i = self.rng.below(self.cas.len() as u64) as usize;
            let ca = setup::ca_handle(&self.cas[i].name);
            what = format!("update_id {}", self.cas[i].name);
            res = krill!().ca_manager().ca_update_id(
                ca, &actor, krill!()
            ).map(|_| "ok".into()).map_err(|e| e.to_string());
        }
        else if pick < 75 {
            what = "republish/renew".into();
            let k = self.rng.below(3);
            res = match k {
                0 => krill!().ca_manager().republish_all(
                    true, krill!()
                ).map(|_| ()),
                1 => krill!().ca_manager().renew_objects_all(
                    &actor, krill!()
                ),
                _ => krill!().ca_manager().force_renew_roas_all(
                    &actor, krill!()
                ),
            }.map(|_| "ok".into()).map_err(|e| e.to_string());
        }
        else if pick < 79 {
            // an extra publisher at the publication server
            if self.publishers.is_empty() || self.rng.below(2) == 0 {
                let name = format!("pub{}", self.next_pub);
                self.next_pub += 1;
                what = format!("publisher_add {name}");
                let donor = setup::ca_handle(
                    &self.cas[self.rng.below(self.cas.len() as u64) as usize]
                        .name
                );
                res = (|| {
                    let ca = krill!().ca_manager().get_ca(&donor).map_err(
                        |e| e.to_string()
                    )?;
                    let req = idexchange::PublisherRequest::new(
                        ca.id_cert().base64.clone(),
                        PublisherHandle::from_str(&name).unwrap(), None,
                    );
                    krill!().repo_manager().create_publisher(
                        req, &actor
                    ).map_err(|e| e.to_string())?;
                    Ok("ok".to_string())
                })();
                if res.is_ok() {
                    self.publishers.push(name);
                }
            }
            else {
                let idx = self.rng.below(self.publishers.len() as u64);
                let name = self.publishers.remove(idx as usize);
                what = format!("publisher_remove {name}");
                res = krill!().repo_manager().remove_publisher(
                    PublisherHandle::from_str(&name).unwrap(),
                    &actor, krill!(),
                ).map(|_| "ok".into()).map_err(|e| e.to_string());
            }
        }
        else if pick < 82 {
            // remove a leaf CA completely
            let leaves: Vec<usize> = self.cas.iter().enumerate().filter(|c| {
                !self.cas.iter().any(|d| d.parent == c.1.name)
            }).map(|c| c.0).collect();
            if self.cas.len() > 2 && !leaves.is_empty() {
                let i = *self.rng.pick(&leaves).unwrap();
                let info = self.cas.remove(i);
                what = format!("delete_ca {}", info.name);
                let handle = setup::ca_handle(&info.name);
                res = krill!().ca_manager().delete_ca(
                    &handle, &actor, &self.env().slow
                ).map(|_| "ok".into()).map_err(|e| e.to_string());
                if res.is_ok() {
                    self.expect.remove(&info.name);
                    self.remote.remove(&info.name);
                }
                if info.parent != "ta" {
                    let removed = krill!().ca_manager().ca_child_remove(
                        &setup::ca_handle(&info.parent),
                        ChildHandle::from_str(&info.name).unwrap(),
                        &actor, krill!(),
                    );
                    if removed.is_ok() {
                        self.expect.entry(
                            info.parent.clone()
                        ).or_default().kids.remove(&info.name);
                    }
                }
            }
            else {
                what = "delete_ca (none)".into();
                res = Ok("skipped".into());
            }
        }
        else if pick < 86 {
            what = "update_snapshots".into();
            let ta_too = self.rng.below(2) == 0;
            res = match common::guarded(|| {
                krill::server::scheduler::verif_process_task(
                    &self.env().slow, Task::UpdateSnapshots, self.env().started
                )
            }) {
                Outcome::Ok(Ok(_)) => {
                    // proxy and signer are not covered by the task
                    let st = self.env().krill.storage();
                    let ta = MyHandle::from_str("ta").unwrap();
                    if ta_too {
                        let _ = AggregateStore::<TrustAnchorProxy>::create(
                            st, TA_PROXY_SERVER_NS, false
                        ).map(|s| s.save_snapshot(&ta).map(|_| ()));
                        let _ = AggregateStore::<TrustAnchorSigner>::create(
                            st, TA_SIGNER_SERVER_NS, false
                        ).map(|s| s.save_snapshot(&ta).map(|_| ()));
                    }
                    Ok("ok".into())
                }
                Outcome::Ok(Err(e)) => Err(format!("fatal: {e}")),
                Outcome::Panic(m) | Outcome::Crash(m) => {
                    Err(format!("PANIC {m}"))
                }
            };
        }
        else if pick < 89 && !self.memory {
            what = "restart".into();
            let seed = self.env().mem_seed;
            self.env = None;
            res = match Env::open(&self.dir, self.opts.clone(), seed) {
                Ok(env) => {
                    self.env = Some(env);
                    Ok("ok".into())
                }
                Err(e) => Err(format!("RESTART FAILED {e}")),
            };
        }
        else if pick < 94 {
            // a child that is not hosted here: added, then its requests
            // (list, issue without / with a resource limit, revoke) as
            // signed RFC 6492 messages
            use rpki::ca::provisioning::{
                self, IssuanceRequest, RequestResourceLimit,
                RevocationRequest,
            };
            let i = self.rng.below(self.cas.len() as u64) as usize;
            let parent = self.cas[i].name.clone();
            let (v4, lim4) = if self.cas[i].level == 1 {
                (format!("{}.250.0.0/16", self.cas[i].block),
                 format!("{}.250.0.0/17", self.cas[i].block))
            } else {
                (format!("{}.64.0/18", self.cas[i].block),
                 format!("{}.64.0/19", self.cas[i].block))
            };
            let handle = setup::ca_handle(&parent);
            let child = ChildHandle::from_str("remote").unwrap();
            let choice = self.rng.below(5);
            let krill = self.env().krill.clone();
            if !self.remote.contains_key(&parent) {
                what = format!("remote_add under {parent} {v4}");
                res = (|| {
                    let id_cert = krill.signer()
                        .create_self_signed_id_cert()
                        .map_err(|e| e.to_string())?;
                    let id_key = id_cert.public_key().key_identifier();
                    let ca_key = krill.signer().create_key()
                        .map_err(|e| e.to_string())?;
                    krill.ca_manager().ca_add_child(
                        &handle,
                        api::admin::AddChildRequest {
                            handle: child.clone(),
                            resources: setup::resources("", &v4, ""),
                            id_cert,
                        },
                        &actor, &krill,
                    ).map_err(|e| e.to_string())?;
                    self.remote.insert(parent.clone(), (id_key, ca_key));
                    Ok("ok".to_string())
                })();
            }
            else {
                let (id_key, ca_key) = self.remote[&parent];
                let kind = ["list", "issue", "issue-limit", "revoke",
                            "issue"][choice as usize];
                what = format!("remote_{kind} under {parent}");
                res = (|| {
                    let ca = krill.ca_manager().get_ca(&handle)
                        .map_err(|e| e.to_string())?;
                    let class = match ca.list(
                        &child, &krill.config().issuance_timing
                    ) {
                        Ok(list) => match list.classes().first() {
                            Some(c) => c.class_name().clone(),
                            None => return Ok("skipped: no class".into()),
                        },
                        Err(e) => return Ok(format!("skipped: {e}")),
                    };
                    let sender = idexchange::SenderHandle::from_str("remote")
                        .unwrap();
                    let recipient: idexchange::RecipientHandle
                        = handle.convert();
                    let msg = match kind {
                        "list" => provisioning::Message::list(
                            sender, recipient
                        ),
                        "revoke" => provisioning::Message::revoke(
                            sender, recipient,
                            RevocationRequest::new(class, ca_key),
                        ),
                        _ => {
                            let repo = idexchange::RepoInfo::new(
                                rpki::uri::Rsync::from_str(
                                    "rsync://elsewhere.example.org/repo/r/"
                                ).unwrap(),
                                Some(rpki::uri::Https::from_str(
                                    "https://elsewhere.example.org/rrdp/\
                                     notification.xml"
                                ).unwrap()),
                            );
                            let csr = krill.signer().sign_csr(
                                &repo, "0", &ca_key
                            ).map_err(|e| e.to_string())?;
                            let mut limit = RequestResourceLimit::new();
                            if kind == "issue-limit" {
                                limit.with_ipv4(
                                    setup::resources("", &lim4, "").ipv4()
                                        .clone()
                                );
                            }
                            provisioning::Message::issue(
                                sender, recipient,
                                IssuanceRequest::new(class, limit, csr),
                            )
                        }
                    };
                    let cms = krill.signer().create_rfc6492_cms(msg, &id_key)
                        .map_err(|e| e.to_string())?;
                    // (a refusal is an outcome, not a failure of the run)
                    match krill.ca_manager().rfc6492(
                        &handle, cms.to_bytes(), None, &actor, &krill
                    ) {
                        Ok(_) => Ok("ok".to_string()),
                        Err(e) => Ok(format!("refused: {e}")),
                    }
                })();
            }
        }
        else {
            what = "pump".into();
            res = setup::pump(self.env(), 40).map(|done| {
                format!("{} tasks", done.len())
            });
        }
        let fired = faulty && krill::verif::fault_fired();
        if faulty {
            krill::verif::set_fault_mode(krill::verif::FaultMode::Off, None);
        }
        let line = json!({
            "n": n, "what": what, "fault": fired,
            "res": match &res { Ok(s) => s.clone(), Err(e) => format!("err: {e}") },
        });
        self.log.push(line.clone());
        line
    }
}


//------------ Checks --------------------------------------------------------

/// One comparison that failed.
#[derive(Clone, Debug)]
pub struct Mismatch {
    pub entity: String,
    pub what: String,
    pub detail: String,
}

/// Per-entity observation for the trace.
fn obs_line(
    ent: &str, kind: &str, keys: &[u64], snapver: u64, live_ver: u64,
    fresh_ver: u64, replay_ver: u64, flags: &BTreeMap<String, bool>,
    step: usize,
) -> Value {
    json!({
        "ev": "obs", "thr": 0, "e": ent, "kind": kind, "keys": keys,
        "snapver": snapver, "live_ver": live_ver, "fresh_ver": fresh_ver,
        "replay_ver": replay_ver,
        "ok": flags.values().all(|b| *b),
        "flags": flags, "step": step,
    })
}

fn snapshot_version(
    storage: &StorageSystem, ns: &Ident, handle: &MyHandle, field: &str,
) -> u64 {
    let Ok(kv) = storage.open(ns) else { return 0 };
    let scope = Ident::from_handle(handle).into_owned();
    let key = Ident::make("snapshot.json");
    match kv.get::<Value>(Some(&scope), key) {
        Ok(Some(v)) => v.get(field).and_then(|x| x.as_u64()).unwrap_or(0),
        _ => 0,
    }
}

/// Loads an aggregate through a fresh store; panics are data.
fn load_agg<A: Aggregate>(
    storage: &StorageSystem, ns: &Ident, handle: &MyHandle,
) -> Result<std::sync::Arc<A>, String> {
    match common::guarded(|| {
        AggregateStore::<A>::create(storage, ns, false).map_err(|e| {
            e.to_string()
        }).and_then(|s| s.get_latest(handle).map_err(|e| e.to_string()))
    }) {
        Outcome::Ok(res) => res,
        Outcome::Panic(m) | Outcome::Crash(m) => Err(format!("PANIC {m}")),
    }
}

fn load_wal<W: WalSupport>(
    storage: &StorageSystem, ns: &Ident, handle: &MyHandle,
) -> Result<std::sync::Arc<W>, String> {
    match common::guarded(|| {
        WalStore::<W>::create(storage, ns).map_err(|e| {
            e.to_string()
        }).and_then(|s| s.get_latest(handle).map_err(|e| e.to_string()))
    }) {
        Outcome::Ok(res) => res,
        Outcome::Panic(m) | Outcome::Crash(m) => Err(format!("PANIC {m}")),
    }
}

/// Masks the two kinds of wall-clock readings that `apply` / `init` take
/// themselves instead of taking them from the stored event:
///  * `ResourceClass.last_key_change` (rc.rs:111, `Time::now()` when the
///    class is created by `apply`); it only gates key-roll commands with a
///    non-zero duration, which the API never sends (manager.rs passes 0);
///  * `RouteInfo.since` / `StoredBgpSecCsr.since` (roa.rs:262,
///    bgpsec.rs:198), never shown by any API structure.
/// Both are invisible through the API (the API views are compared
/// unmasked), as the property statement says. Nothing else is masked.
pub fn mask(v: &Value) -> Value {
    match v {
        Value::Object(map) => {
            Value::Object(map.iter().map(|(k, v)| {
                if k == "last_key_change" || k == "since" {
                    (k.clone(), Value::Null)
                }
                else {
                    (k.clone(), mask(v))
                }
            }).collect())
        }
        Value::Array(items) => Value::Array(items.iter().map(mask).collect()),
        other => other.clone(),
    }
}

struct Checker<'a> {
    /// (keys, snapshot version) last reported per entity: an observation
    /// line is written when they changed (or a comparison failed); the
    /// comparisons themselves are made at every check point
    last: BTreeMap<String, (Vec<u64>, u64)>,
    expect: &'a BTreeMap<String, CaExpect>,
    publishers: Vec<String>,
    env: &'a Env,
    replay: Option<StorageSystem>,
    step: usize,
    lines: Vec<Value>,
    mismatches: Vec<Mismatch>,
    order_only: usize,
    compared: usize,
    /// compare every entity (true) or only those whose stored commands or
    /// snapshot changed since they were last compared (false)
    full: bool,
}

impl<'a> Checker<'a> {
    fn cmp(
        &mut self, flags: &mut BTreeMap<String, bool>, ent: &str, what: &str,
        a: &Value, b: &Value, api: bool,
    ) {
        let (a, b) = (mask(a), mask(b));
        let mut equal = a == b;
        if !equal && api && canonical(&a) == canonical(&b) {
            // same content, different order of a list built from a hash map
            self.order_only += 1;
            equal = true;
        }
        flags.insert(what.to_string(), equal);
        if !equal {
            self.mismatches.push(Mismatch {
                entity: ent.into(), what: what.into(),
                detail: first_diff(&a, &b),
            });
        }
    }

    fn emit(
        &mut self, line: Value, ent: &str, keys: Vec<u64>, snapver: u64,
        flags: &BTreeMap<String, bool>,
    ) {
        self.compared += 1;
        let ok = flags.values().all(|b| *b);
        let now = (keys, snapver);
        if !ok || self.last.get(ent) != Some(&now) {
            self.last.insert(ent.to_string(), now);
            self.lines.push(line);
        }
    }

    fn fail(
        &mut self, flags: &mut BTreeMap<String, bool>, ent: &str, what: &str,
        detail: String,
    ) {
        flags.insert(what.to_string(), false);
        self.mismatches.push(Mismatch {
            entity: ent.into(), what: what.into(), detail,
        });
    }

    fn ca_api_view(ca: &CertAuth) -> Value {
        let mut children = BTreeMap::new();
        for child in ca.children() {
            if let Ok(details) = ca.get_child(child) {
                children.insert(
                    child.to_string(),
                    serde_json::to_value(details.to_info()).unwrap(),
                );
            }
        }
        json!({
            "info": serde_json::to_value(ca.as_ca_info()).unwrap(),
            "roas": serde_json::to_value(ca.configured_roas()).unwrap(),
            "aspas": serde_json::to_value(
                ca.aspas_definitions_show()
            ).unwrap(),
            "bgpsec": serde_json::to_value(
                ca.bgpsec_definitions_show()
            ).unwrap(),
            "children": children,
            "child_request": ca.child_request().to_string(),
            "publisher_request": ca.publisher_request().to_string(),
            "resources": ca.all_resources().to_string(),
        })
    }

    fn check_aggregate<A: Aggregate>(
        &mut self, ns: &Ident, handle: &MyHandle, live: Option<&A>,
        api: Option<&dyn Fn(&A) -> Value>,
    ) {
        let ent = format!("{ns}/{handle}");
        let storage = self.env.krill.storage();
        let kv = storage.open(ns).unwrap();
        let scope = Ident::from_handle(handle).into_owned();
        let (keys, _, _) = list_command_keys(&kv, &scope, "command-");
        let snapver = snapshot_version(storage, ns, handle, "version");
        if !self.full
            && self.last.get(&ent) == Some(&(keys.clone(), snapver))
        {
            // nothing stored since the last comparison: both rebuilds
            // would be what they were (every entity is compared again at
            // every `full_every`-th check point and at the end)
            return
        }
        let mut flags = BTreeMap::new();
        let live_json = live.map(|l| serde_json::to_value(l).unwrap());
        let live_ver = live.map(|l| l.version()).unwrap_or(0);
        let mut fresh_ver = 0;
        let mut replay_ver = 0;
        let mut fresh_json = None;
        match load_agg::<A>(storage, ns, handle) {
            Ok(fresh) => {
                fresh_ver = fresh.version();
                let json = serde_json::to_value(fresh.as_ref()).unwrap();
                if let Some(live_json) = &live_json {
                    self.cmp(
                        &mut flags, &ent, "fresh=live", &json, live_json, false
                    );
                }
                if let (Some(api), Some(live)) = (api, live) {
                    self.cmp(
                        &mut flags, &ent, "api(fresh)=api(live)",
                        &api(fresh.as_ref()), &api(live), true
                    );
                }
                fresh_json = Some(json);
            }
            Err(e) => self.fail(&mut flags, &ent, "fresh load", e),
        }
        if let Some(replay) = self.replay.as_ref() {
            match load_agg::<A>(replay, ns, handle) {
                Ok(full) => {
                    replay_ver = full.version();
                    let json = serde_json::to_value(full.as_ref()).unwrap();
                    if let Some(live_json) = &live_json {
                        self.cmp(
                            &mut flags, &ent, "replay=live", &json,
                            live_json, false
                        );
                    }
                    if let Some(fresh_json) = &fresh_json {
                        self.cmp(
                            &mut flags, &ent, "replay=fresh", &json,
                            fresh_json, false
                        );
                    }
                    if let (Some(api), Some(live)) = (api, live) {
                        self.cmp(
                            &mut flags, &ent, "api(replay)=api(live)",
                            &api(full.as_ref()), &api(live), true
                        );
                    }
                }
                Err(e) => self.fail(&mut flags, &ent, "replay load", e),
            }
        }
        else {
            // memory back-end: fold the stored commands by hand
            match common::guarded(|| {
                crate::conc::manual_replay::<A>(&kv, handle)
            }) {
                Outcome::Ok(Ok(full)) => {
                    replay_ver = full.version();
                    let json = serde_json::to_value(&full).unwrap();
                    if let Some(live_json) = &live_json {
                        self.cmp(
                            &mut flags, &ent, "replay=live", &json,
                            live_json, false
                        );
                    }
                    if let Some(fresh_json) = &fresh_json {
                        self.cmp(
                            &mut flags, &ent, "replay=fresh", &json,
                            fresh_json, false
                        );
                    }
                }
                Outcome::Ok(Err(e)) => {
                    self.fail(&mut flags, &ent, "replay load", e)
                }
                Outcome::Panic(m) | Outcome::Crash(m) => {
                    self.fail(
                        &mut flags, &ent, "replay load", format!("PANIC {m}")
                    )
                }
            }
        }
        let live_ver = if live.is_some() { live_ver } else { fresh_ver };
        self.emit(obs_line(
            &ent, "agg", &keys, snapver, live_ver, fresh_ver, replay_ver,
            &flags, self.step,
        ), &ent, keys, snapver, &flags);
    }

    /// The live state shows what the accepted commands asked for.
    fn check_expectations(&mut self) {
        let krill = &self.env.krill;
        let mut flags = BTreeMap::new();
        let ent = "cas#model".to_string();
        let expect = self.expect;
        for (name, exp) in expect {
            let handle = setup::ca_handle(name);
            let Ok(ca) = krill.ca_manager().get_ca(&handle) else {
                self.fail(
                    &mut flags, &ent, &format!("model:{name}"),
                    "CA is gone".into()
                );
                continue
            };
            let roas: std::collections::BTreeSet<String>
                = ca.configured_roas().iter().map(|r| {
                    let p = &r.roa_configuration.payload;
                    format!("{} => {}", p.prefix, p.asn)
                }).collect();
            let aspas: BTreeMap<u64, std::collections::BTreeSet<u64>>
                = serde_json::to_value(
                    ca.aspas_definitions_show()
                ).unwrap().as_array().map(|defs| defs.iter().map(|d| {
                    let digits = |v: &Value| -> u64 {
                        v.to_string().chars().filter(|c| {
                            c.is_ascii_digit()
                        }).collect::<String>().parse().unwrap_or(0)
                    };
                    (
                        digits(&d["customer"]),
                        d["providers"].as_array().map(|ps| {
                            ps.iter().map(digits).collect()
                        }).unwrap_or_default()
                    )
                }).collect()).unwrap_or_default();
            // (suspension is not compared: a suspended child that calls in
            // is unsuspended implicitly)
            let kids: BTreeMap<String, String>
                = ca.children().filter(|c| {
                    c.as_str() != crate::ca::CHILD && c.as_str() != "remote"
                })
                    .map(|c| {
                let d = ca.get_child(c).unwrap();
                (c.to_string(), d.resources.to_string())
            }).collect();
            let want_kids: BTreeMap<String, String>
                = exp.kids.iter().map(|(c, (v4, _))| {
                    (c.clone(),
                     setup::resources("AS65000-AS65300", v4, "").to_string())
                }).collect();
            self.cmp(
                &mut flags, &ent, &format!("model:{name}:roas"),
                &json!(roas), &json!(exp.roas), false
            );
            self.cmp(
                &mut flags, &ent, &format!("model:{name}:aspas"),
                &json!(aspas), &json!(exp.aspas), false
            );
            self.cmp(
                &mut flags, &ent, &format!("model:{name}:children"),
                &json!(kids), &json!(want_kids), false
            );
        }
        let mut live: Vec<String> = krill.repo_manager().publishers().map(
            |l| l.iter().map(|p| p.to_string()).collect()
        ).unwrap_or_default();
        live.sort();
        let mut want = self.publishers.clone();
        want.sort();
        self.cmp(
            &mut flags, &ent, "model:publishers", &json!(live), &json!(want),
            false
        );
        self.lines.push(json!({
            "ev": "obs_api", "thr": 0, "e": ent,
            "ok": flags.values().all(|b| *b), "flags": flags,
            "step": self.step,
        }));
    }

    fn check_all(&mut self) {
        self.check_expectations();
        let krill = &self.env.krill;
        // CAs
        let handles = krill.ca_manager().ca_handles().unwrap_or_default();
        for handle in handles {
            let live = krill.ca_manager().get_ca(&handle).ok();
            self.check_aggregate::<CertAuth>(
                CASERVER_NS, &handle, live.as_deref(),
                Some(&Self::ca_api_view),
            );
        }
        // trust anchor proxy and signer
        let ta = MyHandle::from_str("ta").unwrap();
        if let Ok(proxy) = krill.ca_manager().get_trust_anchor_proxy() {
            self.check_aggregate::<TrustAnchorProxy>(
                TA_PROXY_SERVER_NS, &ta, Some(proxy.as_ref()), None,
            );
        }
        if let Ok(signer) = krill.ca_manager().get_trust_anchor_signer() {
            self.check_aggregate::<TrustAnchorSigner>(
                TA_SIGNER_SERVER_NS, &ta, Some(signer.as_ref()), None,
            );
        }
        // publication server access: the live aggregate is private to the
        // repository manager; it is observed through the API
        let zero = MyHandle::from_str(
            krill::constants::PUBSERVER_DFLT
        ).unwrap();
        self.check_aggregate::<RepositoryAccess>(
            PUBSERVER_NS, &zero, None, None,
        );
        self.check_repo_api(&zero);
        self.check_content(&zero);
    }

    /// Publisher list and details: API of the live manager vs the state a
    /// fresh store rebuilds.
    fn check_repo_api(&mut self, zero: &MyHandle) {
        let ent = format!("{PUBSERVER_NS}/{zero}#api");
        let krill = &self.env.krill;
        let mut flags = BTreeMap::new();
        let live_pubs = match krill.repo_manager().publishers() {
            Ok(mut list) => {
                list.sort_by_key(|h| h.to_string());
                list
            }
            Err(e) => {
                self.fail(&mut flags, &ent, "publishers()", e.to_string());
                return
            }
        };
        let live_view: BTreeMap<String, Value> = live_pubs.iter().map(|p| {
            let details = krill.repo_manager().get_publisher_details(
                p.clone()
            ).map(|d| serde_json::to_value(d).unwrap()).unwrap_or(
                Value::Null
            );
            (p.to_string(), json!({
                "id_cert": details.get("id_cert").cloned(),
                "base_uri": details.get("base_uri").cloned(),
            }))
        }).collect();
        let mut loads = vec![(
            "fresh",
            load_agg::<RepositoryAccess>(krill.storage(), PUBSERVER_NS, zero)
        )];
        if let Some(replay) = self.replay.as_ref() {
            loads.push((
                "replay",
                load_agg::<RepositoryAccess>(replay, PUBSERVER_NS, zero)
            ));
        }
        for (name, loaded) in loads {
            match loaded {
                Ok(acc) => {
                    let json = serde_json::to_value(acc.as_ref()).unwrap();
                    let view: BTreeMap<String, Value> = json.get(
                        "publishers"
                    ).and_then(|p| p.as_object()).map(|m| {
                        m.iter().map(|(k, v)| (k.clone(), json!({
                            "id_cert": v.get("id_cert").cloned(),
                            "base_uri": v.get("base_uri").cloned(),
                        }))).collect()
                    }).unwrap_or_default();
                    self.cmp(
                        &mut flags, &ent, &format!("publishers({name})=live"),
                        &serde_json::to_value(&view).unwrap(),
                        &serde_json::to_value(&live_view).unwrap(), true,
                    );
                }
                Err(e) => {
                    self.fail(&mut flags, &ent, &format!("{name} load"), e)
                }
            }
        }
        self.lines.push(json!({
            "ev": "obs_api", "thr": 0, "e": ent,
            "ok": flags.values().all(|b| *b), "flags": flags,
            "step": self.step,
        }));
    }

    /// Repository content (WAL store): snapshot + log vs the live manager.
    fn check_content(&mut self, zero: &MyHandle) {
        let ent = format!("{PUBSERVER_CONTENT_NS}/{zero}");
        let krill = &self.env.krill;
        let storage = krill.storage();
        let mut flags = BTreeMap::new();
        let kv = storage.open(PUBSERVER_CONTENT_NS).unwrap();
        let scope = Ident::from_handle(zero).into_owned();
        let (keys, _, has_snap) = list_command_keys(&kv, &scope, "wal-");
        let snapver = snapshot_version(
            storage, PUBSERVER_CONTENT_NS, zero, "revision"
        );
        if !self.full
            && self.last.get(&ent) == Some(&(keys.clone(), snapver))
        {
            return
        }
        let publishers = krill.repo_manager().publishers().unwrap_or_default();
        let live_view = |what: &str| -> Value {
            let mut lists = BTreeMap::new();
            for p in &publishers {
                lists.insert(p.to_string(), krill.repo_manager().list(p).map(
                    |l| canonical(&serde_json::to_value(
                        l.elements().iter().map(|e| {
                            format!("{} {}", e.uri(), e.hash())
                        }).collect::<Vec<_>>()
                    ).unwrap())
                ).unwrap_or(Value::Null));
            }
            let _ = what;
            json!({
                "stats": krill.repo_manager().repo_stats().map(|s| {
                    serde_json::to_value(s).unwrap()
                }).unwrap_or(Value::Null),
                "lists": lists,
            })
        };
        let live = live_view("live");
        let mut fresh_ver = 0;
        match common::guarded(|| {
            let proxy = RepositoryContentProxy::create(storage).map_err(|e| {
                e.to_string()
            })?;
            let mut lists = BTreeMap::new();
            for p in &publishers {
                lists.insert(p.to_string(), proxy.list_reply(p).map(|l| {
                    canonical(&serde_json::to_value(
                        l.elements().iter().map(|e| {
                            format!("{} {}", e.uri(), e.hash())
                        }).collect::<Vec<_>>()
                    ).unwrap())
                }).unwrap_or(Value::Null));
            }
            Ok::<_, String>(json!({
                "stats": proxy.stats().map(|s| {
                    serde_json::to_value(s).unwrap()
                }).unwrap_or(Value::Null),
                "lists": lists,
            }))
        }) {
            Outcome::Ok(Ok(view)) => {
                self.cmp(
                    &mut flags, &ent, "api(fresh)=api(live)", &view, &live,
                    true,
                );
            }
            Outcome::Ok(Err(e)) => {
                self.fail(&mut flags, &ent, "fresh content", e)
            }
            Outcome::Panic(m) | Outcome::Crash(m) => {
                self.fail(
                    &mut flags, &ent, "fresh content", format!("PANIC {m}")
                )
            }
        }
        // the serde view of two independent fresh loads must agree, and its
        // revision is the snapshot's revision plus the number of log entries
        match (
            load_wal::<RepositoryContent>(storage, PUBSERVER_CONTENT_NS, zero),
            load_wal::<RepositoryContent>(storage, PUBSERVER_CONTENT_NS, zero),
        ) {
            (Ok(a), Ok(b)) => {
                let ja = serde_json::to_value(a.as_ref()).unwrap();
                let jb = serde_json::to_value(b.as_ref()).unwrap();
                fresh_ver = ja.get("revision").and_then(|v| {
                    v.as_u64()
                }).unwrap_or(0);
                // The order of the elements inside an RRDP delta (and of
                // other lists built from hash maps in apply_rrdp_updated,
                // rrdp.rs:310-340) differs from load to load. Written delta
                // files are never regenerated (rrdp.rs:571-590) and the
                // elements of a delta have distinct URIs, so the order is
                // not observable: compared as sets (counted in order_only).
                self.cmp(
                    &mut flags, &ent, "fresh=fresh (deterministic apply)",
                    &ja, &jb, true,
                );
            }
            (Err(e), _) | (_, Err(e)) => {
                self.fail(&mut flags, &ent, "wal load", e)
            }
        }
        let _ = has_snap;
        self.emit(obs_line(
            &ent, "wal", &keys, snapver, fresh_ver, fresh_ver, fresh_ver,
            &flags, self.step,
        ), &ent, keys, snapver, &flags);
    }
}


//------------ run -----------------------------------------------------------

fn run_one(beh: &Value, work: &Path, out: &mut TraceOut) {
    let seed = int_arg(beh, "seed") as u64;
    let steps = int_arg(beh, "steps") as usize;
    let every = (int_arg(beh, "check_every") as usize).max(1);
    let memory = beh.get("memory").and_then(|v| v.as_bool()).unwrap_or(false);
    let dir = work.join(format!("h{}", int_arg(beh, "id")));
    let opts = EnvOpts { memory, ..Default::default() };
    common::refill_keys((seed as usize * 53) % 1200);
    let mut reset = common::reset_event(beh.get("id").unwrap_or(&Value::Null));
    reset["thr"] = json!(0);
    reset["ents"] = json!([]);
    reset["mode"] = json!("hist");
    reset["seed"] = json!(seed);
    reset["memory"] = json!(memory);
    out.push(&reset);
    let env = match Env::create(&dir, opts.clone()) {
        Ok(env) => env,
        Err(e) => {
            eprintln!("env: {e}");
            std::process::exit(2);
        }
    };
    if let Err(e) = setup::init_ta(&env) {
        eprintln!("ta: {e}");
        std::process::exit(2);
    }
    let mut world = World {
        dir: dir.clone(), env: Some(env), opts, rng: Rng::new(seed),
        cas: Vec::new(), next_ca: 1, publishers: Vec::new(), next_pub: 1,
        log: Vec::new(), memory, expect: BTreeMap::new(),
        ca_publishers: Vec::new(), remote: BTreeMap::new(),
    };
    let mut last_seen = BTreeMap::new();
    let mut checks = 0usize;
    let mut nchecks = 0usize;
    let full_every = (int_arg(beh, "full_every") as usize).max(1);
    for n in 1..=steps {
        let line = match common::guarded(|| world.do_step(n)) {
            Outcome::Ok(line) => line,
            Outcome::Panic(m) | Outcome::Crash(m) => {
                json!({"n": n, "what": "?", "res": format!("PANIC {m}")})
            }
        };
        let res = line.get("res").and_then(|v| v.as_str()).unwrap_or("");
        let panicked = res.contains("PANIC") || res.contains("RESTART FAILED");
        out.push(&json!({
            "ev": "step", "thr": 0, "n": n,
            "what": line.get("what").cloned().unwrap_or(Value::Null),
            "res": res, "panic": panicked,
        }));
        if world.env.is_none() {
            break
        }
        if n % every != 0 && n != steps && !panicked {
            continue
        }
        // (b): copy of the storage without any snapshot
        let replay = if memory { None } else {
            let copy = dir.join("replay-copy");
            let _ = fs::remove_dir_all(&copy);
            let mut res = Ok(());
            for ns in [
                CASERVER_NS, TA_PROXY_SERVER_NS, TA_SIGNER_SERVER_NS,
                PUBSERVER_NS,
            ] {
                let from = dir.join("data").join(ns.as_str());
                if from.exists() {
                    res = res.and(copy_dir(
                        &from, &copy.join(ns.as_str()), true
                    ));
                }
            }
            match res {
                Ok(()) => Some(StorageSystem::new_disk(copy)),
                Err(e) => {
                    eprintln!("copy failed: {e}");
                    std::process::exit(2);
                }
            }
        };
        let mut checker = Checker {
            last: std::mem::take(&mut last_seen),
            expect: &world.expect,
            publishers: world.ca_publishers.iter().cloned().chain(
                world.publishers.iter().cloned()
            ).chain(std::iter::once("ta".to_string())).collect(),
            env: world.env(), replay, step: n, lines: Vec::new(),
            mismatches: Vec::new(), order_only: 0, compared: 0,
            full: nchecks % full_every == 0 || n == steps,
        };
        nchecks += 1;
        checker.check_all();
        for line in &checker.lines {
            out.push(line);
        }
        for m in &checker.mismatches {
            out.push(&json!({
                "ev": "mismatch", "thr": 0, "e": m.entity, "what": m.what,
                "detail": m.detail, "step": n,
            }));
        }
        checks += checker.compared;
        last_seen = std::mem::take(&mut checker.last);
        if checker.order_only > 0 {
            out.push(&json!({
                "ev": "note", "thr": 0, "order_only": checker.order_only,
                "step": n,
            }));
        }
    }
    out.push(&json!({
        "ev": "note", "thr": 0, "order_only": 0, "entity_checks": checks,
        "step": steps,
    }));
    drop(world);
    let _ = fs::remove_dir_all(&dir);
}

pub fn run(input: &Path, output: &Path, work: &Path) {
    let behaviours = common::read_ndjson(input);
    let mut out = TraceOut::create(output);
    for beh in &behaviours {
        run_one(beh, work, &mut out);
    }
    out.finish();
}
