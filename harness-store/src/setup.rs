//! Set-up of a TA -> CA hierarchy in an in-process runtime, following
//! `cas_import` / `import_ca` of /repo/src/server/manager.rs, plus a task
//! pump that stands in for the scheduler thread.

use std::str::FromStr;
use rpki::ca::idexchange::{self, CaHandle, ParentHandle};
use rpki::repository::resources::ResourceSet;
use rpki::uri;
use krill::api;
use krill::server::mq::{Task, TaskResult};
use crate::common::{self, Env, Outcome};

pub fn ca_handle(name: &str) -> CaHandle {
    CaHandle::from_str(name).unwrap()
}

pub fn resources(asn: &str, v4: &str, v6: &str) -> ResourceSet {
    ResourceSet::from_strs(asn, v4, v6).unwrap()
}

/// Publication server + fully embedded trust anchor.
pub fn init_ta(env: &Env) -> Result<(), String> {
    let uris = api::admin::PublicationServerUris {
        rrdp_base_uri: uri::Https::from_str(
            "https://rpki.example.net/rrdp/"
        ).unwrap(),
        rsync_jail: uri::Rsync::from_str("rsync://rpki.example.net/repo/").unwrap(),
    };
    env.krill.repo_manager().init(uris, &env.krill).map_err(|e| {
        format!("repo init: {e}")
    })?;
    let actor = env.krill.system_actor().clone();
    env.krill.ca_manager().ta_init_fully_embedded(
        uri::Rsync::from_str("rsync://rpki.example.net/ta/ta.cer").unwrap(),
        vec![uri::Https::from_str("https://rpki.example.net/ta/ta.cer").unwrap()],
        None, &actor, &env.slow,
    ).map_err(|e| format!("ta init: {e}"))
}

/// Creates a CA with a repository (steps 1-4 of import_ca).
pub fn init_ca_with_repo(env: &Env, name: &str) -> Result<(), String> {
    let krill = &env.krill;
    let actor = krill.system_actor().clone();
    let handle = ca_handle(name);
    krill.ca_manager().init_ca(handle.clone(), krill).map_err(|e| {
        format!("init_ca {name}: {e}")
    })?;
    let pub_req = {
        let ca = krill.ca_manager().get_ca(&handle).map_err(|e| {
            e.to_string()
        })?;
        idexchange::PublisherRequest::new(
            ca.id_cert().base64.clone(), handle.convert(), None,
        )
    };
    krill.repo_manager().create_publisher(pub_req, &actor).map_err(|e| {
        format!("create_publisher {name}: {e}")
    })?;
    let response = krill.repo_manager().repository_response(
        &handle.convert(), krill
    ).map_err(|e| format!("repository_response {name}: {e}"))?;
    let contact = api::admin::RepositoryContact::try_from_response(
        response
    ).map_err(|e| format!("contact {name}: {e}"))?;
    krill.ca_manager().update_repo(
        handle, contact, false, &actor, &env.slow
    ).map_err(|e| format!("update_repo {name}: {e}"))
}

/// Registers `child` under `parent` with the given resources and lets the
/// child learn about the parent (no synchronisation yet).
pub fn add_parent(
    env: &Env, child: &str, parent: &str, res: ResourceSet,
) -> Result<(), String> {
    let krill = &env.krill;
    let actor = krill.system_actor().clone();
    let handle = ca_handle(child);
    let parent_handle = ParentHandle::from_str(parent).unwrap();
    let response = {
        let ca = krill.ca_manager().get_ca(&handle).map_err(|e| {
            e.to_string()
        })?;
        let id_cert = ca.child_request().validate().map_err(|e| {
            format!("child request {child}: {e}")
        })?;
        let req = api::admin::AddChildRequest {
            handle: handle.convert(), resources: res, id_cert,
        };
        krill.ca_manager().ca_add_child(
            &parent_handle.convert(), req, &actor, krill
        ).map_err(|e| format!("ca_add_child {parent}<-{child}: {e}"))?
    };
    let req = api::admin::ParentCaReq { handle: parent_handle, response };
    krill.ca_manager().ca_parent_add_or_update(
        handle, req, &actor, krill
    ).map_err(|e| format!("ca_parent_add {child}: {e}"))
}

/// The forced synchronisation of import_ca.
pub fn sync_parent(env: &Env, child: &str, parent: &str) -> Result<(), String> {
    let krill = &env.krill;
    let actor = krill.system_actor().clone();
    let handle = ca_handle(child);
    let parent_handle = ParentHandle::from_str(parent).unwrap();
    for _ in 0..2 {
        krill.ca_manager().ca_sync_parent(
            &handle, 0, &parent_handle, &actor, &env.slow
        ).map_err(|e| format!("ca_sync_parent {child}: {e}"))?;
    }
    if parent == "ta" {
        krill.ca_manager().sync_ta_proxy_signer_if_possible(krill).map_err(
            |e| format!("ta sync: {e}")
        )?;
        krill.ca_manager().ca_sync_parent(
            &handle, 0, &parent_handle, &actor, &env.slow
        ).map_err(|e| format!("ca_sync_parent {child}: {e}"))?;
    }
    Ok(())
}

/// init + repo + parent + sync.
pub fn add_ca(
    env: &Env, name: &str, parent: &str, res: ResourceSet,
) -> Result<(), String> {
    init_ca_with_repo(env, name)?;
    add_parent(env, name, parent, res)?;
    sync_parent(env, name, parent)
}

/// Executes the due tasks the way scheduler::run does (at most `max`).
/// Returns the names of the executed tasks; a panic or fatal error of a
/// task is returned as an error.
pub fn pump(env: &Env, max: usize) -> Result<Vec<String>, String> {
    let mut done = Vec::new();
    for _ in 0..max {
        let Some((key, value)) = env.krill.tasks().pop() else { break };
        let task: Task = serde_json::from_value(value).map_err(|e| {
            format!("task {key}: {e}")
        })?;
        let name = task.to_string();
        let res = match common::guarded(|| {
            krill::server::scheduler::verif_process_task(
                &env.slow, task, env.started
            )
        }) {
            Outcome::Ok(res) => res.map_err(|e| {
                format!("task {name}: fatal: {e}")
            })?,
            Outcome::Panic(m) | Outcome::Crash(m) => {
                return Err(format!("task {name}: panic: {m}"))
            }
        };
        let tasks = env.krill.tasks();
        match res {
            TaskResult::Done => tasks.finish(&key),
            TaskResult::FollowUp(task, prio) => {
                tasks.schedule_and_finish_existing(task, prio)
            }
            TaskResult::Reschedule(prio) => tasks.reschedule(&key, prio),
        }.map_err(|e| format!("task {name}: queue: {e}"))?;
        done.push(name);
    }
    Ok(done)
}
