//! `run-conc`: several OS threads issue commands and reads against real
//! aggregates concurrently; the hook events recorded under the storage
//! locks are normalised into the vocabulary of spec/AggStoreTrace.tla.
//!
//! Two targets:
//!  * `ctr`: the harness' own counter aggregate on the real
//!    `AggregateStore` (fast, exercises exactly store.rs + back-ends),
//!  * `ca`: real `CertAuth` aggregates through `CaManager`.

use std::collections::HashMap;
use std::path::Path;
use std::str::FromStr;
use std::sync::Arc;
use rpki::ca::idexchange::MyHandle;
use serde_json::{json, Value};
use krill::api::history::{CommandHistoryCriteria, CommandHistoryResult};
use krill::commons::actor::Actor;
use krill::commons::eventsourcing::{Aggregate, AggregateStore, StoredCommand};
use krill::commons::storage::{Ident, KeyValueStore, StorageSystem};
use crate::common::{self, int_arg, str_arg, Outcome, TraceOut};
use crate::ctr::{self, Ctr, CtrCtx, CtrDetails};
use crate::norm;


//------------ Op results ----------------------------------------------------

#[derive(Clone, Debug, Default)]
pub struct OpResult {
    /// "ok", "err", "panic"
    pub res: String,
    /// Version of the aggregate handed back (0 if none).
    pub ver: u64,
    /// For `hist`: [version, actor, kind] rows.
    pub hist: Option<Vec<Value>>,
    /// Free text (error message), not used by the specification.
    pub msg: String,
    /// The call hands back the aggregate (so `ver` is meaningful).
    pub hasver: bool,
}

impl OpResult {
    pub fn ok(ver: u64) -> Self {
        OpResult {
            res: "ok".into(), ver, hasver: true, ..Default::default()
        }
    }

    pub fn err(msg: impl ToString) -> Self {
        OpResult {
            res: "err".into(), msg: msg.to_string(), ..Default::default()
        }
    }

    pub fn to_json(&self) -> Value {
        json!({
            "res": self.res, "ver": self.ver, "hist": self.hist,
            "msg": self.msg, "hasver": self.hasver,
        })
    }
}

/// What is known about an entity after quiescence.
#[derive(Clone, Debug, Default)]
pub struct FinalObs {
    pub keys: Vec<u64>,
    pub other_keys: Vec<String>,
    pub has_snapshot: bool,
    pub hist: Vec<Value>,
    pub live_ver: u64,
    /// The applied command identifiers as [thread, index] (ctr only).
    pub eff: Option<Vec<Value>>,
    /// live state == full replay of command-0.. (serde views)
    pub eq_replay: bool,
    /// live state == what a fresh store loads (snapshot + later commands)
    pub eq_fresh: bool,
    pub replay_ver: u64,
    pub fresh_ver: u64,
    pub detail: String,
}

/// The interface between the generic driver and a concrete aggregate type.
pub trait Target: Sync {
    /// Executes the `idx`-th operation (1-based) of thread `thr`.
    fn exec(&self, thr: u32, idx: u32, ent: &str, op: &str) -> OpResult;

    /// The handle (= storage scope) behind an abstract entity name.
    fn handle_of(&self, ent: &str) -> String;

    /// Name of the key-value namespace of the aggregate store.
    fn namespace(&self) -> String;

    /// A read that warms the live cache (and reveals the lock names).
    fn warm(&self, ent: &str);

    /// Command keys and history rows before the concurrent phase, found
    /// without touching the live store (its cache state is part of the
    /// initial condition).
    fn pre_state(&self, ent: &str) -> (Vec<u64>, Vec<Value>);

    fn observe(&self, ent: &str) -> FinalObs;

    /// The entities live in a WalStore (revisions, no audit log).
    fn is_wal(&self) -> bool {
        false
    }
}

pub fn actor_of(thr: u32) -> Actor {
    Actor::user(format!("t{thr}"))
}

/// Maps an audit name to the thread number (0 = anything else).
pub fn actor_thread(name: &str) -> i64 {
    name.strip_prefix("user:t").and_then(|s| s.parse().ok()).unwrap_or(0)
}

pub fn hist_kind(res: &CommandHistoryResult) -> &'static str {
    match res {
        CommandHistoryResult::Init() => "init",
        CommandHistoryResult::Ok() => "ok",
        CommandHistoryResult::Error(_) => "err",
    }
}

/// Lists the versions of the command keys in a scope.
pub fn list_command_keys(
    kv: &KeyValueStore, scope: &Ident, prefix: &str,
) -> (Vec<u64>, Vec<String>, bool) {
    let mut versions = Vec::new();
    let mut other = Vec::new();
    let mut snap = false;
    for key in kv.keys(Some(scope), "").unwrap_or_default() {
        let name = key.as_str();
        if name == "snapshot.json" {
            snap = true;
        }
        else if let Some(v) = name.strip_prefix(prefix).and_then(|s| {
            s.strip_suffix(".json")
        }).and_then(|s| s.parse::<u64>().ok()) {
            versions.push(v);
        }
        else {
            other.push(name.to_string());
        }
    }
    versions.sort();
    other.sort();
    (versions, other, snap)
}

/// Rebuilds an aggregate from command-0, command-1, ... read directly from
/// the key-value store, without the aggregate store.
pub fn manual_replay<A: Aggregate>(
    kv: &KeyValueStore, handle: &MyHandle,
) -> Result<A, String> {
    let scope = Ident::from_handle(handle).into_owned();
    let key = |v: u64| {
        Ident::boxed_from_string(format!("command-{v}.json")).unwrap()
    };
    let init: StoredCommand<A> = kv.get(Some(&scope), &key(0)).map_err(|e| {
        format!("command-0: {e}")
    })?.ok_or("no command-0")?;
    let init = init.into_init().ok_or("command-0 is not an init command")?;
    let mut agg = A::init(handle, init);
    loop {
        let v = agg.version();
        match kv.get::<StoredCommand<A>>(Some(&scope), &key(v)) {
            Ok(Some(cmd)) => {
                if cmd.version() != v {
                    return Err(format!(
                        "command-{v} carries version {}", cmd.version()
                    ))
                }
                agg.apply_command(cmd);
                if agg.version() != v + 1 {
                    return Err(format!(
                        "apply_command left version {}", agg.version()
                    ))
                }
            }
            Ok(None) => break,
            Err(e) => return Err(format!("command-{v}: {e}")),
        }
    }
    Ok(agg)
}


//------------ CtrTarget -----------------------------------------------------

pub struct CtrTarget {
    storage: StorageSystem,
    ns: Box<Ident>,
    live: AggregateStore<Ctr>,
    ctx: CtrCtx,
    ents: HashMap<String, MyHandle>,
}

impl CtrTarget {
    fn handle(&self, ent: &str) -> &MyHandle {
        self.ents.get(ent).expect("unknown entity")
    }

    fn fresh(&self) -> AggregateStore<Ctr> {
        AggregateStore::create(&self.storage, &self.ns, false).unwrap()
    }

    fn details(thr: u32, idx: u32, op: &str) -> Option<CtrDetails> {
        let id = (thr as u64) * 1000 + idx as u64;
        let (name, arg) = match op.split_once(':') {
            Some((n, a)) => (n, a.parse::<u32>().unwrap_or(0)),
            None => (op, 0),
        };
        Some(match name {
            "ok" | "okc" => {
                CtrDetails::Add { id, n: (thr * 10 + idx) as i64 }
            }
            "noop" => CtrDetails::Noop { id },
            "reject" => CtrDetails::Reject { id },
            "presave_fail" => CtrDetails::PreFail { id },
            "kadd" => CtrDetails::KeyAdd { id, key: arg },
            "kdel" => CtrDetails::KeyDel { id, key: arg },
            "kset" => CtrDetails::KeySet { id, key: arg },
            _ => return None,
        })
    }
}

impl Target for CtrTarget {
    fn exec(&self, thr: u32, idx: u32, ent: &str, op: &str) -> OpResult {
        let handle = self.handle(ent);
        let actor = actor_of(thr);
        if let Some(details) = Self::details(thr, idx, op) {
            return match self.live.command_with_context(
                ctr::command(handle, details, &actor), &self.ctx
            ) {
                Ok(agg) => OpResult::ok(agg.version()),
                Err(e) => OpResult::err(e),
            }
        }
        match op {
            "read" => match self.live.get_latest(handle) {
                Ok(agg) => OpResult::ok(agg.version()),
                Err(e) => OpResult::err(e),
            },
            "fread" => match self.fresh().get_latest(handle) {
                Ok(agg) => OpResult::ok(agg.version()),
                Err(e) => OpResult::err(e),
            },
            "snap" => match self.fresh().save_snapshot(handle) {
                Ok(agg) => OpResult::ok(agg.version()),
                Err(e) => OpResult::err(e),
            },
            "lsnap" => match self.live.save_snapshot(handle) {
                Ok(agg) => OpResult::ok(agg.version()),
                Err(e) => OpResult::err(e),
            },
            "add" => match self.live.add_with_context(
                ctr::init_command(handle, &actor), &self.ctx
            ) {
                Ok(agg) => OpResult::ok(agg.version()),
                Err(e) => OpResult::err(e),
            },
            "list" => match self.live.list() {
                Ok(list) => {
                    let mut r = OpResult::ok(list.len() as u64);
                    r.hasver = false;
                    r
                }
                Err(e) => OpResult::err(e),
            },
            "hist" => match self.live.command_history(
                handle, CommandHistoryCriteria::default()
            ) {
                Ok(hist) => {
                    let mut res = OpResult::ok(0);
                    res.hist = Some(hist.commands.iter().map(|r| {
                        json!([r.version, actor_thread(&r.actor),
                               hist_kind(&r.effect)])
                    }).collect());
                    res
                }
                Err(e) => OpResult::err(e),
            },
            _ => OpResult::err(format!("unknown op {op}")),
        }
    }

    fn handle_of(&self, ent: &str) -> String {
        self.handle(ent).to_string()
    }

    fn namespace(&self) -> String {
        self.ns.to_string()
    }

    fn warm(&self, ent: &str) {
        let _ = self.live.get_latest(self.handle(ent));
    }

    fn pre_state(&self, ent: &str) -> (Vec<u64>, Vec<Value>) {
        let handle = self.handle(ent);
        let kv = self.storage.open(&self.ns).unwrap();
        let scope = Ident::from_handle(handle).into_owned();
        let (keys, _, _) = list_command_keys(&kv, &scope, "command-");
        let hist = self.fresh().command_history(
            handle, CommandHistoryCriteria::default()
        ).map(|hist| hist.commands.iter().map(|r| {
            json!([r.version, actor_thread(&r.actor), hist_kind(&r.effect)])
        }).collect()).unwrap_or_default();
        (keys, hist)
    }

    fn observe(&self, ent: &str) -> FinalObs {
        let handle = self.handle(ent);
        let kv = self.storage.open(&self.ns).unwrap();
        let scope = Ident::from_handle(handle).into_owned();
        let (keys, other_keys, has_snapshot)
            = list_command_keys(&kv, &scope, "command-");
        let mut obs = FinalObs {
            keys, other_keys, has_snapshot, ..Default::default()
        };
        if let Ok(hist) = self.live.command_history(
            handle, CommandHistoryCriteria::default()
        ) {
            obs.hist = hist.commands.iter().map(|r| {
                json!([r.version, actor_thread(&r.actor),
                       hist_kind(&r.effect)])
            }).collect();
        }
        let live = match self.live.get_latest(handle) {
            Ok(live) => live,
            Err(e) => {
                obs.detail = format!("live: {e}");
                return obs
            }
        };
        obs.live_ver = live.version();
        obs.eff = Some(live.applied.iter().filter(|id| {
            **id < 900_000
        }).map(|id| {
            json!([id / 1000, id % 1000])
        }).collect());
        let live_json = serde_json::to_value(live.as_ref()).unwrap();
        match common::guarded(|| manual_replay::<Ctr>(&kv, handle)) {
            Outcome::Ok(Ok(replayed)) => {
                obs.replay_ver = replayed.version();
                obs.eq_replay
                    = serde_json::to_value(&replayed).unwrap() == live_json;
                if !obs.eq_replay {
                    obs.detail = format!(
                        "replay {:?} != live {:?}", replayed, live
                    );
                }
            }
            Outcome::Ok(Err(e)) => obs.detail = format!("replay: {e}"),
            Outcome::Panic(m) | Outcome::Crash(m) => {
                obs.detail = format!("replay panicked: {m}")
            }
        }
        match common::guarded(|| self.fresh().get_latest(handle)) {
            Outcome::Ok(Ok(fresh)) => {
                obs.fresh_ver = fresh.version();
                obs.eq_fresh
                    = serde_json::to_value(fresh.as_ref()).unwrap()
                        == live_json;
                if !obs.eq_fresh {
                    obs.detail = format!(
                        "fresh {:?} != live {:?}", fresh, live
                    );
                }
            }
            Outcome::Ok(Err(e)) => obs.detail = format!("fresh: {e}"),
            Outcome::Panic(m) | Outcome::Crash(m) => {
                obs.detail = format!("fresh load panicked: {m}")
            }
        }
        obs
    }
}


//------------ Behaviour -----------------------------------------------------

/// Initial condition of one entity as requested by the behaviour.
#[derive(Clone, Debug)]
pub struct EntSpec {
    pub name: String,
    /// number of set-up commands issued before the concurrent phase
    pub setup: u32,
    /// take a snapshot after this many set-up commands (0 = none)
    pub snap_after: u32,
    /// live cache warm (true) or a cold store instance (false)
    pub cached: bool,
    /// the entity does not exist initially
    pub new: bool,
}

pub fn parse_ents(beh: &Value) -> Vec<EntSpec> {
    beh.get("ents").and_then(|v| v.as_array()).map(|arr| {
        arr.iter().map(|e| EntSpec {
            name: str_arg(e, "e").to_string(),
            setup: int_arg(e, "setup") as u32,
            snap_after: int_arg(e, "snap") as u32,
            cached: e.get("cached").and_then(|v| v.as_bool()).unwrap_or(true),
            new: e.get("new").and_then(|v| v.as_bool()).unwrap_or(false),
        }).collect()
    }).unwrap_or_default()
}

pub fn parse_threads(beh: &Value) -> Vec<Vec<(String, String)>> {
    beh.get("threads").and_then(|v| v.as_array()).map(|thrs| {
        thrs.iter().map(|ops| {
            ops.as_array().map(|ops| ops.iter().map(|op| {
                (str_arg(op, "e").to_string(), str_arg(op, "op").to_string())
            }).collect()).unwrap_or_default()
        }).collect()
    }).unwrap_or_default()
}

/// What the reset line says about an entity: the projected initial state.
fn reset_ent(
    target: &dyn Target, spec: &EntSpec, snapver: u64, cache_ver: u64,
) -> Value {
    let (keys, hist) = target.pre_state(&spec.name);
    if target.is_wal() {
        // snapshot at revision `snapver`, then one wal-N key per revision
        return json!({
            "e": spec.name, "exists": true, "wal": true, "keys": keys,
            "next": snapver + keys.len() as u64,
            "pre": hist, "snapver": snapver, "cachever": cache_ver,
            "cached": cache_ver > 0,
        })
    }
    json!({
        "e": spec.name,
        "exists": !keys.is_empty(),
        "wal": false,
        "keys": keys,
        "next": keys.len(),
        "pre": hist,
        "snapver": snapver,
        "cachever": cache_ver,
        "cached": cache_ver > 0,
    })
}

fn ctr_target(
    dir: &Path, beh: &Value, ents: &[EntSpec],
) -> Result<(CtrTarget, Vec<(u64, u64)>), String> {
    let memory = beh.get("memory").and_then(|v| v.as_bool()).unwrap_or(false);
    let _ = std::fs::remove_dir_all(dir);
    std::fs::create_dir_all(dir).map_err(|e| e.to_string())?;
    let storage = if memory {
        use std::hash::{Hash, Hasher};
        let mut h = std::collections::hash_map::DefaultHasher::new();
        dir.hash(&mut h);
        std::time::SystemTime::now().hash(&mut h);
        StorageSystem::new_memory(Some(h.finish()))
    }
    else {
        StorageSystem::new_disk(dir.join("data"))
    };
    let ns: Box<Ident> = Ident::boxed_from_string("ctr".into()).unwrap();
    let hist_cache = beh.get("hist_cache").and_then(|v| {
        v.as_bool()
    }).unwrap_or(true);
    let ctx = CtrCtx::default();
    let setup_store = AggregateStore::<Ctr>::create(
        &storage, &ns, hist_cache
    ).map_err(|e| e.to_string())?;
    let setup_actor = Actor::system("setup");
    let mut handles = HashMap::new();
    let mut init = Vec::new();
    let mut warm = Vec::new();
    for (n, spec) in ents.iter().enumerate() {
        let handle = MyHandle::from_str(
            &format!("h{}-{}", n + 1, spec.name)
        ).unwrap();
        handles.insert(spec.name.clone(), handle.clone());
        let mut snapver = 0;
        if !spec.new {
            setup_store.add_with_context(
                ctr::init_command(&handle, &setup_actor), &ctx
            ).map_err(|e| e.to_string())?;
            for i in 0..spec.setup {
                // every third set-up command is a rejected one so that the
                // initial log contains error records, too
                let id = 900_000 + (n as u64) * 1000 + i as u64;
                let details = if i % 3 == 2 {
                    CtrDetails::Reject { id }
                }
                else {
                    CtrDetails::Add { id, n: 1 }
                };
                let _ = setup_store.command_with_context(
                    ctr::command(&handle, details, &setup_actor), &ctx
                );
                if spec.snap_after == i + 1 {
                    let agg = setup_store.save_snapshot(&handle).map_err(|e| {
                        e.to_string()
                    })?;
                    snapver = agg.version();
                }
            }
            if spec.snap_after > 0 && spec.setup == 0 {
                let agg = setup_store.save_snapshot(&handle).map_err(|e| {
                    e.to_string()
                })?;
                snapver = agg.version();
            }
        }
        warm.push(spec.cached && !spec.new);
        init.push((snapver, 0u64));
    }
    // The live store is a new instance: its cache is empty until warmed.
    let live = AggregateStore::<Ctr>::create(
        &storage, &ns, hist_cache
    ).map_err(|e| e.to_string())?;
    drop(setup_store);
    let target = CtrTarget { storage, ns, live, ctx, ents: handles };
    for (n, spec) in ents.iter().enumerate() {
        if warm[n] {
            let agg = target.live.get_latest(
                target.handle(&spec.name)
            ).map_err(|e| e.to_string())?;
            init[n].1 = agg.version();
        }
    }
    Ok((target, init))
}


//------------ The concurrent phase ------------------------------------------

/// Runs the thread programs; returns the raw hook events.
pub fn concurrent_phase(
    target: &dyn Target, threads: &[Vec<(String, String)>],
    seed: u64, yield_max: u64,
) -> Vec<Value> {
    krill::verif::trace_enable(true);
    krill::verif::set_yield(seed, yield_max);
    let barrier = Arc::new(std::sync::Barrier::new(threads.len()));
    std::thread::scope(|scope| {
        for (n, prog) in threads.iter().enumerate() {
            let thr = (n + 1) as u32;
            let barrier = barrier.clone();
            scope.spawn(move || {
                krill::verif::set_thread_tag(thr);
                barrier.wait();
                for (i, (ent, op)) in prog.iter().enumerate() {
                    let idx = (i + 1) as u32;
                    krill::verif::trace("h_begin", json!({
                        "e": ent, "op": op, "i": idx,
                    }));
                    let res = match common::guarded(|| {
                        target.exec(thr, idx, ent, op)
                    }) {
                        Outcome::Ok(res) => res,
                        Outcome::Panic(msg) | Outcome::Crash(msg) => {
                            OpResult {
                                res: "panic".into(), msg,
                                ..Default::default()
                            }
                        }
                    };
                    krill::verif::trace("h_end", json!({
                        "e": ent, "op": op, "i": idx, "result": res.to_json(),
                    }));
                }
                krill::verif::set_thread_tag(0);
            });
        }
    });
    krill::verif::set_yield(0, 0);
    let events = krill::verif::trace_drain();
    krill::verif::trace_enable(false);
    events
}

pub fn final_line(ent: &str, obs: &FinalObs) -> Value {
    json!({
        "ev": "final", "thr": 0, "e": ent,
        "keys": obs.keys, "other_keys": obs.other_keys,
        "snap": obs.has_snapshot, "hist": obs.hist,
        "live_ver": obs.live_ver,
        "eff": obs.eff.clone().unwrap_or_default(),
        "has_eff": obs.eff.is_some(),
        "eq_replay": obs.eq_replay, "eq_fresh": obs.eq_fresh,
        "replay_ver": obs.replay_ver, "fresh_ver": obs.fresh_ver,
        "detail": obs.detail,
    })
}

/// Runs one behaviour against a target; pushes the normalised lines.
pub fn run_on_target(
    target: &dyn Target, beh: &Value, ents: &[EntSpec],
    init: &[(u64, u64)], out: &mut TraceOut, raw_out: Option<&mut TraceOut>,
) {
    run_on_target_with(target, beh, ents, init, out, raw_out, || { })
}

/// `after` runs right after the concurrent phase (e.g. fault mode off).
pub fn run_on_target_with(
    target: &dyn Target, beh: &Value, ents: &[EntSpec],
    init: &[(u64, u64)], out: &mut TraceOut, raw_out: Option<&mut TraceOut>,
    after: impl FnOnce(),
) {
    let threads = parse_threads(beh);
    let seed = int_arg(beh, "seed") as u64;
    let yield_max = int_arg(beh, "yield") as u64;

    // Learn the lock names of the namespace: one traced read per entity on
    // the main thread (tag 0). It must not change the initial condition, so
    // it goes through a throw-away access that mirrors the requested cache
    // state: warm entities are already warm; for cold entities the probe is
    // done on the first existing warm entity only.
    krill::verif::trace_enable(true);
    krill::verif::set_thread_tag(0);
    let probe = ents.iter().zip(init).find(|(s, i)| !s.new && i.1 > 0);
    if let Some((spec, _)) = probe {
        target.warm(&spec.name);
    }
    let probe_events = krill::verif::trace_drain();
    krill::verif::trace_enable(false);

    let mut reset = common::reset_event(beh.get("id").unwrap_or(&Value::Null));
    reset["ents"] = Value::Array(ents.iter().zip(init).map(|(spec, i)| {
        reset_ent(target, spec, i.0, i.1)
    }).collect());
    reset["mode"] = beh.get("mode").cloned().unwrap_or(json!("ctr"));
    reset["memory"] = beh.get("memory").cloned().unwrap_or(json!(false));
    reset["seed"] = json!(seed);
    reset["thr"] = json!(0);
    out.push(&reset);

    let events = concurrent_phase(target, &threads, seed, yield_max);
    after();
    if let Some(raw) = raw_out {
        raw.push(&json!({"ev": "raw_reset", "behaviour": beh.get("id")}));
        for ev in probe_events.iter().chain(events.iter()) {
            raw.push(ev);
        }
    }

    let handles: HashMap<String, String> = ents.iter().map(|s| {
        (target.handle_of(&s.name), s.name.clone())
    }).collect();
    let lines = norm::normalise(
        &target.namespace(), &handles, &probe_events, &events
    );
    for line in &lines {
        out.push(line);
    }
    for spec in ents {
        let obs = target.observe(&spec.name);
        out.push(&final_line(&spec.name, &obs));
    }
}

pub fn run(input: &Path, output: &Path, work: &Path, raw: bool) {
    let behaviours = common::read_ndjson(input);
    let mut out = TraceOut::create(output);
    let mut raw_out = if raw {
        Some(TraceOut::create(&output.with_extension("raw.ndjson")))
    } else { None };
    for (n, beh) in behaviours.iter().enumerate() {
        let ents = parse_ents(beh);
        let mode = str_arg(beh, "mode");
        let dir = work.join(format!("b{n}"));
        match mode {
            "ca" => {
                crate::ca::run_behaviour(
                    &dir, beh, &ents, &mut out, raw_out.as_mut()
                );
            }
            "wal" => {
                match crate::walctr::build(&dir, beh, &ents) {
                    Ok((target, init, _)) => {
                        run_on_target(
                            &target, beh, &ents, &init, &mut out,
                            raw_out.as_mut()
                        );
                    }
                    Err(e) => {
                        eprintln!("set-up of behaviour {n} failed: {e}");
                        std::process::exit(2);
                    }
                }
            }
            _ => {
                match ctr_target(&dir, beh, &ents) {
                    Ok((target, init)) => {
                        run_on_target(
                            &target, beh, &ents, &init, &mut out,
                            raw_out.as_mut()
                        );
                    }
                    Err(e) => {
                        eprintln!("set-up of behaviour {n} failed: {e}");
                        std::process::exit(2);
                    }
                }
            }
        }
        let _ = std::fs::remove_dir_all(&dir);
    }
    out.finish();
    if let Some(raw) = raw_out {
        raw.finish();
    }
}
