//! Real `CertAuth` aggregates (through `CaManager`) as the target of the
//! concurrency driver: TA -> alpha, beta, each with a registered child,
//! commands = ROA deltas (accepted / rejected), child resource updates to
//! the value the child already has (no-op), reads, history, fresh-store
//! reads and snapshots; optionally one injected failure of the CA objects
//! store (pre-save listener failure).

use std::collections::HashMap;
use std::path::Path;
use std::str::FromStr;
use rpki::ca::idexchange::{CaHandle, ChildHandle};
use serde_json::{json, Value};
use krill::api;
use krill::api::history::CommandHistoryCriteria;
use krill::api::roa::{RoaConfiguration, RoaConfigurationUpdates, RoaPayload};
use krill::commons::eventsourcing::{Aggregate, AggregateStore};
use krill::commons::storage::Ident;
use krill::constants::CASERVER_NS;
use krill::server::ca::CertAuth;
use crate::common::{self, str_arg, Env, EnvOpts, Outcome, TraceOut};
use crate::conc::{
    self, actor_of, actor_thread, hist_kind, list_command_keys,
    manual_replay, EntSpec, FinalObs, OpResult, Target,
};
use crate::setup;

pub struct CaTarget {
    pub env: Env,
    /// entity name -> (CA handle, first octet of its address block)
    ents: HashMap<String, (CaHandle, u8)>,
}

pub const CHILD: &str = "kid";

impl CaTarget {
    fn ca(&self, ent: &str) -> &(CaHandle, u8) {
        self.ents.get(ent).expect("unknown entity")
    }

    pub fn fresh(&self) -> AggregateStore<CertAuth> {
        AggregateStore::create(self.env.krill.storage(), CASERVER_NS, false)
            .unwrap()
    }

    fn child_resources(base: u8) -> rpki::repository::resources::ResourceSet {
        setup::resources("", &format!("{base}.1.0.0/16"), "")
    }

    fn hist_rows(hist: &api::history::CommandHistory) -> Vec<Value> {
        hist.commands.iter().map(|r| {
            json!([r.version, actor_thread(&r.actor), hist_kind(&r.effect)])
        }).collect()
    }
}

fn unit(res: Result<(), krill::commons::error::Error>) -> OpResult {
    match res {
        Ok(()) => {
            let mut r = OpResult::ok(0);
            r.hasver = false;
            r
        }
        Err(e) => OpResult::err(e),
    }
}

impl Target for CaTarget {
    fn exec(&self, thr: u32, idx: u32, ent: &str, op: &str) -> OpResult {
        let (handle, base) = self.ca(ent).clone();
        let actor = actor_of(thr);
        let krill = &self.env.krill;
        let (name, arg) = match op.split_once(':') {
            Some((n, a)) => (n, a.parse::<u32>().unwrap_or(0)),
            None => (op, 0),
        };
        let roa = |s: String| RoaConfiguration::from_str(&s).unwrap();
        let payload = |s: String| RoaPayload::from_str(&s).unwrap();
        match name {
            "ok" | "okc" => {
                // a ROA nobody else configures
                let updates = RoaConfigurationUpdates {
                    added: vec![roa(format!(
                        "{base}.{}.{idx}.0/24 => {}", 100 + thr, 65000 + thr
                    ))],
                    removed: vec![],
                };
                unit(krill.ca_manager().ca_routes_update(
                    handle, updates, &actor, krill
                ))
            }
            "reject" => {
                // removing a ROA that is not there
                let updates = RoaConfigurationUpdates {
                    added: vec![],
                    removed: vec![payload(format!(
                        "{base}.250.{idx}.0/24 => 64999"
                    ))],
                };
                unit(krill.ca_manager().ca_routes_update(
                    handle, updates, &actor, krill
                ))
            }
            "noop" => {
                unit(krill.ca_manager().ca_child_update(
                    &handle, ChildHandle::from_str(CHILD).unwrap(),
                    api::admin::UpdateChildRequest::resources(
                        Self::child_resources(base)
                    ),
                    &actor, krill
                ))
            }
            "kadd" | "kset" => {
                let updates = RoaConfigurationUpdates {
                    added: vec![roa(format!(
                        "{base}.200.{arg}.0/24 => 65200"
                    ))],
                    removed: vec![],
                };
                unit(krill.ca_manager().ca_routes_update(
                    handle, updates, &actor, krill
                ))
            }
            "kdel" => {
                let updates = RoaConfigurationUpdates {
                    added: vec![],
                    removed: vec![payload(format!(
                        "{base}.200.{arg}.0/24 => 65200"
                    ))],
                };
                unit(krill.ca_manager().ca_routes_update(
                    handle, updates, &actor, krill
                ))
            }
            "read" => match krill.ca_manager().get_ca(&handle) {
                Ok(ca) => OpResult::ok(ca.version()),
                Err(e) => OpResult::err(e),
            },
            "fread" => match self.fresh().get_latest(&handle) {
                Ok(ca) => OpResult::ok(ca.version()),
                Err(e) => OpResult::err(e),
            },
            "snap" => match self.fresh().save_snapshot(&handle) {
                Ok(ca) => OpResult::ok(ca.version()),
                Err(e) => OpResult::err(e),
            },
            "list" => match krill.ca_manager().ca_handles() {
                Ok(list) => {
                    let mut r = OpResult::ok(list.len() as u64);
                    r.hasver = false;
                    r
                }
                Err(e) => OpResult::err(e),
            },
            "hist" => match krill.ca_manager().ca_history(
                &handle, CommandHistoryCriteria::default()
            ) {
                Ok(hist) => {
                    let mut res = OpResult::ok(0);
                    res.hist = Some(Self::hist_rows(&hist));
                    res
                }
                Err(e) => OpResult::err(e),
            },
            _ => OpResult::err(format!("unknown op {op}")),
        }
    }

    fn handle_of(&self, ent: &str) -> String {
        self.ca(ent).0.to_string()
    }

    fn namespace(&self) -> String {
        CASERVER_NS.to_string()
    }

    fn warm(&self, ent: &str) {
        let _ = self.env.krill.ca_manager().get_ca(&self.ca(ent).0);
    }

    fn pre_state(&self, ent: &str) -> (Vec<u64>, Vec<Value>) {
        let handle = &self.ca(ent).0;
        let kv = self.env.krill.storage().open(CASERVER_NS).unwrap();
        let scope = Ident::from_handle(handle).into_owned();
        let (keys, _, _) = list_command_keys(&kv, &scope, "command-");
        let hist = self.fresh().command_history(
            handle, CommandHistoryCriteria::default()
        ).map(|h| Self::hist_rows(&h)).unwrap_or_default();
        (keys, hist)
    }

    fn observe(&self, ent: &str) -> FinalObs {
        let handle = &self.ca(ent).0;
        let krill = &self.env.krill;
        let kv = krill.storage().open(CASERVER_NS).unwrap();
        let scope = Ident::from_handle(handle).into_owned();
        let (keys, other_keys, has_snapshot)
            = list_command_keys(&kv, &scope, "command-");
        let mut obs = FinalObs {
            keys, other_keys, has_snapshot, ..Default::default()
        };
        if let Ok(hist) = krill.ca_manager().ca_history(
            handle, CommandHistoryCriteria::default()
        ) {
            obs.hist = Self::hist_rows(&hist);
        }
        let live = match krill.ca_manager().get_ca(handle) {
            Ok(live) => live,
            Err(e) => {
                obs.detail = format!("live: {e}");
                return obs
            }
        };
        obs.live_ver = live.version();
        let live_json = crate::hist::mask(
            &serde_json::to_value(live.as_ref()).unwrap()
        );
        match common::guarded(|| manual_replay::<CertAuth>(&kv, handle)) {
            Outcome::Ok(Ok(replayed)) => {
                obs.replay_ver = replayed.version();
                let json = crate::hist::mask(
                    &serde_json::to_value(&replayed).unwrap()
                );
                obs.eq_replay = json == live_json;
                if !obs.eq_replay {
                    obs.detail = format!(
                        "replay != live: {}",
                        crate::hist::first_diff(&json, &live_json)
                    );
                }
            }
            Outcome::Ok(Err(e)) => obs.detail = format!("replay: {e}"),
            Outcome::Panic(m) | Outcome::Crash(m) => {
                obs.detail = format!("replay panicked: {m}")
            }
        }
        match common::guarded(|| self.fresh().get_latest(handle)) {
            Outcome::Ok(Ok(fresh)) => {
                obs.fresh_ver = fresh.version();
                let json = crate::hist::mask(
                    &serde_json::to_value(fresh.as_ref()).unwrap()
                );
                obs.eq_fresh = json == live_json;
                if !obs.eq_fresh {
                    obs.detail = format!(
                        "fresh != live: {}",
                        crate::hist::first_diff(&json, &live_json)
                    );
                }
            }
            Outcome::Ok(Err(e)) => obs.detail = format!("fresh: {e}"),
            Outcome::Panic(m) | Outcome::Crash(m) => {
                obs.detail = format!("fresh load panicked: {m}")
            }
        }
        obs
    }
}

/// TA -> the CAs named by the behaviour, each with a registered child.
pub fn build(
    dir: &Path, beh: &Value, ents: &[EntSpec],
) -> Result<(CaTarget, Vec<(u64, u64)>), String> {
    let memory = beh.get("memory").and_then(|v| v.as_bool()).unwrap_or(false);
    let hist_cache = beh.get("hist_cache").and_then(|v| {
        v.as_bool()
    }).unwrap_or(true);
    let opts = EnvOpts {
        memory,
        extra_toml: format!("use_history_cache = {hist_cache}\n"),
        ..Default::default()
    };
    common::refill_keys(
        (common::int_arg(beh, "id") as usize * 37) % 1000
    );
    let env = Env::create(dir, opts)?;
    setup::init_ta(&env)?;
    let mut map = HashMap::new();
    let mut init = Vec::new();
    let actor = env.krill.system_actor().clone();
    for (n, spec) in ents.iter().enumerate() {
        let name = format!("ca{}", n + 1);
        let base = 10 + n as u8;
        setup::add_ca(
            &env, &name, "ta",
            setup::resources(
                &format!("AS65000-AS65300"), &format!("{base}.0.0.0/8"), ""
            ),
        )?;
        let handle = setup::ca_handle(&name);
        // a registered child that never calls in: the identity of the TA
        // proxy's sibling is good enough, use the CA's own request
        let id_cert = env.krill.ca_manager().get_ca(&handle).map_err(|e| {
            e.to_string()
        })?.child_request().validate().map_err(|e| e.to_string())?;
        env.krill.ca_manager().ca_add_child(
            &handle,
            api::admin::AddChildRequest {
                handle: ChildHandle::from_str(CHILD).unwrap(),
                resources: CaTarget::child_resources(base),
                id_cert,
            },
            &actor, &env.krill,
        ).map_err(|e| format!("add child: {e}"))?;
        // some initial ROAs, one rejected command
        for i in 0..spec.setup {
            let updates = if i % 3 == 2 {
                RoaConfigurationUpdates {
                    added: vec![],
                    removed: vec![RoaPayload::from_str(&format!(
                        "{base}.251.{i}.0/24 => 64999"
                    )).unwrap()],
                }
            }
            else {
                RoaConfigurationUpdates {
                    added: vec![RoaConfiguration::from_str(&format!(
                        "{base}.99.{i}.0/24 => 65099"
                    )).unwrap()],
                    removed: vec![],
                }
            };
            let _ = env.krill.ca_manager().ca_routes_update(
                handle.clone(), updates, &actor, &env.krill
            );
        }
        map.insert(spec.name.clone(), (handle, base));
        init.push((0u64, 0u64));
    }
    // let the repository and parent synchronisation tasks run
    setup::pump(&env, 200)?;
    let target = CaTarget { env, ents: map };
    for (n, spec) in ents.iter().enumerate() {
        let handle = target.ca(&spec.name).0.clone();
        if spec.snap_after > 0 {
            let agg = target.fresh().save_snapshot(&handle).map_err(|e| {
                e.to_string()
            })?;
            init[n].0 = agg.version();
            // one more command after the snapshot
            let _ = target.env.krill.ca_manager().ca_routes_update(
                handle.clone(),
                RoaConfigurationUpdates {
                    added: vec![RoaConfiguration::from_str(&format!(
                        "{}.98.0.0/24 => 65098", target.ca(&spec.name).1
                    )).unwrap()],
                    removed: vec![],
                },
                &actor, &target.env.krill,
            );
        }
        // the live store's cache is warm after start-up and set-up; a read
        // makes it current (it may lag by one command)
        let ca = target.env.krill.ca_manager().get_ca(&handle).map_err(|e| {
            e.to_string()
        })?;
        init[n].1 = ca.version();
    }
    Ok((target, init))
}

pub fn run_behaviour(
    dir: &Path, beh: &Value, ents: &[EntSpec], out: &mut TraceOut,
    raw: Option<&mut TraceOut>,
) {
    let (target, init) = match build(dir, beh, ents) {
        Ok(res) => res,
        Err(e) => {
            eprintln!("CA set-up failed: {e}");
            std::process::exit(2);
        }
    };
    // optional failure of the CA objects store for one CA: the first
    // command on it that changes objects meets a failing pre-save listener
    let fault = str_arg(beh, "fault");
    if !fault.is_empty() && target.ents.contains_key(fault) {
        let label = format!("/{}.json", target.ca(fault).0);
        krill::verif::set_fault_mode(
            krill::verif::FaultMode::ErrorAt(1), Some(label)
        );
    }
    conc::run_on_target_with(
        &target, beh, ents, &init, out, raw,
        || krill::verif::set_fault_mode(krill::verif::FaultMode::Off, None),
    );
}
