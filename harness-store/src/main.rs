//! kv-store: conformance harness for the aggregate / WAL store protocol
//! (C07) and for replay = snapshot = live (C06). See /verif/DESIGN.md.
#![allow(dead_code)]

#[path = "../../harness/src/common.rs"]
mod common;
mod ca;
mod conc;
mod ctr;
mod hist;
mod norm;
mod setup;
mod walctr;

use std::path::PathBuf;

fn arg(args: &[String], name: &str) -> Option<String> {
    args.iter().position(|a| a == name).and_then(|i| args.get(i + 1)).cloned()
}

fn flag(args: &[String], name: &str) -> bool {
    args.iter().any(|a| a == name)
}

fn main() {
    common::install_panic_hook();
    let args: Vec<String> = std::env::args().collect();
    let input = arg(&args, "--in").map(PathBuf::from);
    let out = arg(&args, "--out").map(PathBuf::from);
    let work = arg(&args, "--work").map(PathBuf::from);
    match args.get(1).map(|s| s.as_str()).unwrap_or("") {
        "run-conc" => {
            conc::run(
                &input.unwrap(), &out.unwrap(), &work.unwrap(),
                flag(&args, "--raw"),
            );
        }
        "run-hist" => {
            hist::run(&input.unwrap(), &out.unwrap(), &work.unwrap());
        }
        _ => {
            eprintln!("usage: kv-store <run-conc|run-hist> --in <behaviours.ndjson> --out <trace.ndjson> --work <dir> [--raw]");
            std::process::exit(2);
        }
    }
}
