//! kv-store: conformance harness crate (see /verif/DESIGN.md).
#![allow(dead_code)]

#[path = "../../harness/src/common.rs"]
mod common;

fn main() {
    common::install_panic_hook();
    let args: Vec<String> = std::env::args().collect();
    match args.get(1).map(|s| s.as_str()).unwrap_or("") {
        _ => {
            eprintln!("usage: kv-store <subcommand> --in <behaviours.ndjson> --out <trace.ndjson> --work <dir>");
            std::process::exit(2);
        }
    }
}
