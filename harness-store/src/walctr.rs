//! A minimal write-ahead-log type of the harness' own on the REAL
//! `WalStore`, and the concurrency-driver target built on it.

use std::collections::{BTreeSet, HashMap};
use std::fmt;
use std::path::Path;
use std::str::FromStr;
use rpki::ca::idexchange::MyHandle;
use serde::{Deserialize, Serialize};
use serde_json::{json, Value};
use krill::commons::eventsourcing::{
    WalChange, WalCommand, WalSet, WalStore, WalStoreError, WalSupport,
};
use krill::commons::storage::{Ident, StorageSystem};
use crate::common::{self, Outcome};
use crate::conc::{
    list_command_keys, EntSpec, FinalObs, OpResult, Target,
};

#[derive(Clone, Debug, Deserialize, Eq, PartialEq, Serialize)]
pub enum WChange {
    Added { id: u64 },
    KeyAdded { id: u64, key: u32 },
    KeyRemoved { id: u64, key: u32 },
}

impl fmt::Display for WChange {
    fn fmt(&self, f: &mut fmt::Formatter) -> fmt::Result {
        write!(f, "{self:?}")
    }
}

impl WalChange for WChange {}

#[derive(Clone, Debug)]
pub struct WCommand {
    handle: MyHandle,
    /// "ok" | "noop" | "reject" | "kadd" | "kdel" | "kset"
    kind: String,
    key: u32,
    id: u64,
}

impl fmt::Display for WCommand {
    fn fmt(&self, f: &mut fmt::Formatter) -> fmt::Result {
        write!(f, "{} {} {}", self.kind, self.key, self.id)
    }
}

impl WalCommand for WCommand {
    fn handle(&self) -> &MyHandle {
        &self.handle
    }
}

#[derive(Debug)]
pub enum WError {
    Rejected(u64),
    Store(String),
}

impl fmt::Display for WError {
    fn fmt(&self, f: &mut fmt::Formatter) -> fmt::Result {
        match self {
            WError::Rejected(id) => write!(f, "command {id} rejected"),
            WError::Store(s) => write!(f, "store: {s}"),
        }
    }
}

impl std::error::Error for WError {}

impl From<WalStoreError> for WError {
    fn from(e: WalStoreError) -> Self {
        WError::Store(e.to_string())
    }
}

#[derive(Clone, Debug, Default, Deserialize, Eq, PartialEq, Serialize)]
pub struct WCtr {
    revision: u64,
    pub keys: BTreeSet<u32>,
    pub applied: Vec<u64>,
}

impl WalSupport for WCtr {
    type Command = WCommand;
    type Change = WChange;
    type Error = WError;

    fn revision(&self) -> u64 {
        self.revision
    }

    fn apply(&mut self, set: WalSet<Self>) {
        for change in set.into_changes() {
            match change {
                WChange::Added { id } => self.applied.push(id),
                WChange::KeyAdded { id, key } => {
                    self.keys.insert(key);
                    self.applied.push(id);
                }
                WChange::KeyRemoved { id, key } => {
                    self.keys.remove(&key);
                    self.applied.push(id);
                }
            }
        }
        self.revision += 1;
    }

    fn process_command(
        &self, cmd: WCommand,
    ) -> Result<Vec<WChange>, WError> {
        let (id, key) = (cmd.id, cmd.key);
        match cmd.kind.as_str() {
            "ok" => Ok(vec![WChange::Added { id }]),
            "noop" => Ok(vec![]),
            "kadd" => {
                if self.keys.contains(&key) { Err(WError::Rejected(id)) }
                else { Ok(vec![WChange::KeyAdded { id, key }]) }
            }
            "kdel" => {
                if self.keys.contains(&key) {
                    Ok(vec![WChange::KeyRemoved { id, key }])
                }
                else { Err(WError::Rejected(id)) }
            }
            "kset" => {
                if self.keys.contains(&key) { Ok(vec![]) }
                else { Ok(vec![WChange::KeyAdded { id, key }]) }
            }
            _ => Err(WError::Rejected(id)),
        }
    }
}


//------------ WalTarget -----------------------------------------------------

pub struct WalTarget {
    storage: StorageSystem,
    ns: Box<Ident>,
    live: WalStore<WCtr>,
    ents: HashMap<String, MyHandle>,
}

impl WalTarget {
    fn handle(&self, ent: &str) -> &MyHandle {
        self.ents.get(ent).expect("unknown entity")
    }

    fn fresh(&self) -> WalStore<WCtr> {
        WalStore::create(&self.storage, &self.ns).unwrap()
    }
}

fn result(res: Result<std::sync::Arc<WCtr>, WError>) -> OpResult {
    match res {
        Ok(w) => OpResult::ok(w.revision()),
        Err(e) => OpResult::err(e),
    }
}

impl Target for WalTarget {
    fn exec(&self, thr: u32, idx: u32, ent: &str, op: &str) -> OpResult {
        let handle = self.handle(ent).clone();
        let id = (thr as u64) * 1000 + idx as u64;
        let (name, key) = match op.split_once(':') {
            Some((n, a)) => (n, a.parse::<u32>().unwrap_or(0)),
            None => (op, 0),
        };
        match name {
            "ok" | "noop" | "reject" | "kadd" | "kdel" | "kset" => {
                result(self.live.send_command(WCommand {
                    handle, kind: name.into(), key, id,
                }))
            }
            "read" => result(self.live.get_latest(&handle)),
            "fread" => result(self.fresh().get_latest(&handle)),
            "snap" => result(self.fresh().update_snapshot(&handle)),
            "lsnap" => result(self.live.update_snapshot(&handle)),
            "list" => match self.live.list() {
                Ok(l) => {
                    let mut r = OpResult::ok(l.len() as u64);
                    r.hasver = false;
                    r
                }
                Err(e) => OpResult::err(e),
            },
            _ => OpResult::err(format!("unknown op {op}")),
        }
    }

    fn handle_of(&self, ent: &str) -> String {
        self.handle(ent).to_string()
    }

    fn namespace(&self) -> String {
        self.ns.to_string()
    }

    fn warm(&self, ent: &str) {
        let _ = self.live.get_latest(self.handle(ent));
    }

    fn pre_state(&self, ent: &str) -> (Vec<u64>, Vec<Value>) {
        let kv = self.storage.open(&self.ns).unwrap();
        let scope = Ident::from_handle(self.handle(ent)).into_owned();
        let (keys, _, _) = list_command_keys(&kv, &scope, "wal-");
        (keys, Vec::new())
    }

    fn observe(&self, ent: &str) -> FinalObs {
        let handle = self.handle(ent);
        let kv = self.storage.open(&self.ns).unwrap();
        let scope = Ident::from_handle(handle).into_owned();
        let (keys, other_keys, has_snapshot)
            = list_command_keys(&kv, &scope, "wal-");
        let mut obs = FinalObs {
            keys, other_keys, has_snapshot, ..Default::default()
        };
        let live = match self.live.get_latest(handle) {
            Ok(live) => live,
            Err(e) => {
                obs.detail = format!("live: {e}");
                return obs
            }
        };
        obs.live_ver = live.revision();
        obs.eff = Some(live.applied.iter().filter(|id| {
            **id < 900_000
        }).map(|id| json!([id / 1000, id % 1000])).collect());
        match common::guarded(|| self.fresh().get_latest(handle)) {
            Outcome::Ok(Ok(fresh)) => {
                obs.fresh_ver = fresh.revision();
                obs.eq_fresh = fresh.as_ref() == live.as_ref();
                if !obs.eq_fresh {
                    obs.detail = format!("fresh {fresh:?} != live {live:?}");
                }
            }
            Outcome::Ok(Err(e)) => obs.detail = format!("fresh: {e}"),
            Outcome::Panic(m) | Outcome::Crash(m) => {
                obs.detail = format!("fresh load panicked: {m}")
            }
        }
        // there is nothing older than the snapshot to replay from
        obs.replay_ver = obs.fresh_ver;
        obs.eq_replay = obs.eq_fresh;
        obs
    }

    fn is_wal(&self) -> bool {
        true
    }
}

/// Builds the target: every entity gets `setup` accepted commands, an
/// optional snapshot (which truncates the log) and a warm or cold cache.
/// Returns per entity (snapshot revision, cached revision, number of
/// set-up commands applied).
pub fn build(
    dir: &Path, beh: &Value, ents: &[EntSpec],
) -> Result<(WalTarget, Vec<(u64, u64)>, Vec<u64>), String> {
    let memory = beh.get("memory").and_then(|v| v.as_bool()).unwrap_or(false);
    let _ = std::fs::remove_dir_all(dir);
    std::fs::create_dir_all(dir).map_err(|e| e.to_string())?;
    let storage = if memory {
        use std::hash::{Hash, Hasher};
        let mut h = std::collections::hash_map::DefaultHasher::new();
        dir.hash(&mut h);
        std::time::SystemTime::now().hash(&mut h);
        StorageSystem::new_memory(Some(h.finish()))
    }
    else {
        StorageSystem::new_disk(dir.join("data"))
    };
    let ns: Box<Ident> = Ident::boxed_from_string("walctr".into()).unwrap();
    let setup_store = WalStore::<WCtr>::create(&storage, &ns).map_err(|e| {
        e.to_string()
    })?;
    let mut handles = HashMap::new();
    let mut init = Vec::new();
    let mut revs = Vec::new();
    for (n, spec) in ents.iter().enumerate() {
        let handle = MyHandle::from_str(
            &format!("w{}-{}", n + 1, spec.name)
        ).unwrap();
        handles.insert(spec.name.clone(), handle.clone());
        setup_store.add(&handle, WCtr::default()).map_err(|e| {
            e.to_string()
        })?;
        let mut snaprev = 0;
        for i in 0..spec.setup {
            setup_store.send_command(WCommand {
                handle: handle.clone(), kind: "ok".into(), key: 0,
                id: 900_000 + (n as u64) * 1000 + i as u64,
            }).map_err(|e| e.to_string())?;
            if spec.snap_after == i + 1 {
                snaprev = setup_store.update_snapshot(&handle).map_err(|e| {
                    e.to_string()
                })?.revision();
            }
        }
        init.push((snaprev, 0u64));
        revs.push(spec.setup as u64);
    }
    let live = WalStore::<WCtr>::create(&storage, &ns).map_err(|e| {
        e.to_string()
    })?;
    drop(setup_store);
    let target = WalTarget { storage, ns, live, ents: handles };
    for (n, spec) in ents.iter().enumerate() {
        if spec.cached {
            let w = target.live.get_latest(
                target.handle(&spec.name)
            ).map_err(|e| e.to_string())?;
            // revision 0 cached is expressed as cachever = rev + 1 below
            init[n].1 = w.revision() + 1;
        }
    }
    Ok((target, init, revs))
}
