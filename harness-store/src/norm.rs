//! Normalisation of the raw hook events (lock_wait / lock_acq / lock_rel of
//! the storage back-ends, agg_* of the aggregate store, wal_* of the WAL
//! store, h_begin / h_end of the harness) into one line per step of
//! spec/AggStore.tla.
//!
//! The hooks do not log the purely thread-local steps of the protocol
//! (applying the stored commands after the load, process_command, the
//! decision not to update the cache, writing the snapshot). Their position
//! in the sequence is fixed by the program order of the thread, so a
//! synthetic line is inserted right where the code performs them:
//!   agg_load            -> load, apply
//!   agg_cmd             -> check
//!   agg_stored          -> process(kind), store
//!   agg_noop            -> process(noop)
//!   agg_presave_fail    -> process(presave_fail)
//!   agg_cache           -> cache(upd = true)
//!   lock_rel(scope)     -> [load(unknown)] [cache(upd = false)]
//!                          [snapshot] rel
//!   lock_rel(root)      -> relroot(result of the call)
//! Nothing observed is dropped except lock_wait (no state change) and
//! events on other namespaces (CA objects, task queue, status, signer keys).
//! The result of the call (h_end) is attached to the relroot line; it is
//! determined before the lock is released.

use std::collections::HashMap;
use serde_json::{json, Value};
use crate::common::str_arg;

fn u(v: &Value, key: &str) -> u64 {
    v.get(key).and_then(|x| x.as_u64()).unwrap_or(0)
}

#[derive(Default)]
struct Thr {
    /// current operation: (entity name, op, index)
    cur: Option<(String, String, u64)>,
    /// results of the thread's operations, in order (from h_end)
    results: Vec<Value>,
    done: usize,
    root_held: u32,
    scope_held: u32,
    rootw_held: bool,
    saw_load: bool,
    saw_cache: bool,
    saw_store: bool,
    wal: bool,
    /// events that could not be attributed (nested use of the namespace)
    nested: u32,
    /// names of all locks held (any namespace), innermost last
    stack: Vec<String>,
}

impl Thr {
    /// Is the innermost lock the thread holds one of our namespace?
    fn innermost_is(&self, prefix: &str) -> bool {
        self.stack.last().map(|n| split_lock(n).0 == prefix).unwrap_or(false)
    }
}

/// Splits a lock name into (namespace part, scope).
fn split_lock(name: &str) -> (&str, &str) {
    match name.find('/') {
        Some(pos) => (&name[..pos], &name[pos + 1..]),
        None => (name, ""),
    }
}

fn op_class(op: &str) -> &str {
    match op.split(':').next().unwrap_or(op) {
        // "okc": an accepted command whose pre-save listener may meet an
        // injected storage failure - the outcome is left open
        "kadd" | "kdel" | "kset" | "okc" => "cond",
        other => other,
    }
}

/// Learns the lock-name prefix of the aggregate store's namespace.
///
/// On disk it is the namespace itself; in memory it is `mem<ptr>` and is
/// learnt from the first agg_load / wal_load: the innermost write lock the
/// thread holds whose scope is the handle of the load.
fn learn_prefix(
    ns: &str, handles: &HashMap<String, String>, events: &[&Value],
) -> Option<String> {
    let mut held: HashMap<u64, Vec<String>> = HashMap::new();
    for ev in events {
        let thr = u(ev, "thr");
        match str_arg(ev, "ev") {
            "lock_acq" => {
                let name = str_arg(ev, "name");
                if split_lock(name).0 == ns {
                    return Some(ns.to_string())
                }
                held.entry(thr).or_default().push(name.to_string());
            }
            "lock_rel" => {
                let name = str_arg(ev, "name");
                if let Some(stack) = held.get_mut(&thr)
                    && let Some(pos) = stack.iter().rposition(|n| n == name)
                {
                    stack.remove(pos);
                }
            }
            "agg_load" | "wal_load" => {
                let handle = str_arg(ev, "handle");
                if !handles.contains_key(handle) {
                    continue
                }
                if let Some(stack) = held.get(&thr) {
                    for name in stack.iter().rev() {
                        let (pre, scope) = split_lock(name);
                        if scope == handle {
                            return Some(pre.to_string())
                        }
                    }
                }
            }
            _ => { }
        }
    }
    None
}

pub fn normalise(
    ns: &str, handles: &HashMap<String, String>,
    probe: &[Value], events: &[Value],
) -> Vec<Value> {
    let all: Vec<&Value> = probe.iter().chain(events.iter()).collect();
    let prefix = learn_prefix(ns, handles, &all);
    let mut thrs: HashMap<u64, Thr> = HashMap::new();
    for ev in events {
        if str_arg(ev, "ev") == "h_end" {
            thrs.entry(u(ev, "thr")).or_default().results.push(
                ev.get("result").cloned().unwrap_or(Value::Null)
            );
        }
    }
    let mut out = Vec::new();
    let Some(prefix) = prefix else {
        // No lock of the namespace was ever taken: only begin/end lines.
        for ev in events {
            if str_arg(ev, "ev") == "h_begin" {
                out.push(json!({
                    "ev": "begin", "thr": u(ev, "thr"),
                    "e": str_arg(ev, "e"), "op": op_class(str_arg(ev, "op")),
                    "nolocks": true,
                }));
            }
        }
        return out
    };

    for ev in events {
        let thr_id = u(ev, "thr");
        if thr_id == 0 {
            continue
        }
        let seq = u(ev, "seq");
        let t = thrs.entry(thr_id).or_default();
        let kind = str_arg(ev, "ev");
        let mut push = |mut line: Value| {
            line["thr"] = json!(thr_id);
            line["seq"] = json!(seq);
            out.push(line);
        };
        match kind {
            "h_begin" => {
                let op = str_arg(ev, "op");
                t.cur = Some((
                    str_arg(ev, "e").to_string(), op.to_string(), u(ev, "i")
                ));
                t.saw_load = false;
                t.saw_cache = false;
                t.saw_store = false;
                t.wal = false;
                push(json!({
                    "ev": "begin", "e": str_arg(ev, "e"),
                    "op": op_class(op), "i": u(ev, "i"),
                }));
            }
            "h_end" => {
                let result = t.results.get(t.done).cloned().unwrap_or(
                    Value::Null
                );
                let op = t.cur.as_ref().map(|c| c.1.clone()).unwrap_or_default();
                if op_class(&op) == "hist" {
                    push(json!({
                        "ev": "hist", "e": str_arg(ev, "e"),
                        "res": str_arg(&result, "res"),
                        "rows": result.get("hist").cloned().unwrap_or(
                            json!([])
                        ),
                    }));
                }
                else if str_arg(&result, "res") == "panic" {
                    push(json!({
                        "ev": "panic", "e": str_arg(ev, "e"),
                        "msg": str_arg(&result, "msg"),
                    }));
                }
                t.done += 1;
                t.cur = None;
            }
            "lock_acq" | "lock_rel" => {
                let name = str_arg(ev, "name");
                if kind == "lock_acq" {
                    t.stack.push(name.to_string());
                }
                else if let Some(pos)
                    = t.stack.iter().rposition(|n| n == name)
                {
                    t.stack.remove(pos);
                }
                let (pre, scope) = split_lock(name);
                if pre != prefix {
                    continue
                }
                let Some((ent, op, _)) = t.cur.clone() else { continue };
                let opc = op_class(&op).to_string();
                if opc == "hist" {
                    // every get_command of the scan locks on its own; the
                    // scan is judged as a whole (see the "hist" line)
                    continue
                }
                let mode = str_arg(ev, "mode");
                let acq = kind == "lock_acq";
                let result = t.results.get(t.done).cloned().unwrap_or(
                    Value::Null
                );
                let res = str_arg(&result, "res").to_string();
                if scope.is_empty() && mode == "w" {
                    // namespace-wide exclusive lock: list()
                    if acq {
                        t.rootw_held = true;
                        push(json!({"ev": "acq_rootw"}));
                    }
                    else {
                        t.rootw_held = false;
                        push(json!({
                            "ev": "rel_rootw", "res": res,
                        }));
                    }
                }
                else if scope.is_empty() {
                    if acq {
                        t.root_held += 1;
                        if t.root_held == 1 {
                            push(json!({"ev": "acq_root"}));
                        }
                        else {
                            t.nested += 1;
                            push(json!({"ev": "nested", "what": "root"}));
                        }
                    }
                    else {
                        t.root_held = t.root_held.saturating_sub(1);
                        if t.root_held == 0 {
                            push(json!({
                                "ev": "relroot", "res": res,
                                "ver": u(&result, "ver"),
                                "hasver": result.get("hasver").and_then(
                                    |v| v.as_bool()
                                ).unwrap_or(false),
                            }));
                        }
                    }
                }
                else {
                    let lock_ent = handles.get(scope).cloned().unwrap_or(
                        format!("?{scope}")
                    );
                    if acq {
                        t.scope_held += 1;
                        if t.scope_held > 1 {
                            t.nested += 1;
                            push(json!({
                                "ev": "nested", "what": "scope",
                                "e": lock_ent,
                            }));
                            continue
                        }
                        push(json!({"ev": "acq", "e": lock_ent}));
                        if opc == "add" {
                            // add_with_context has no hook events of its
                            // own: has(command-0), store, cache_update
                            push(json!({"ev": "addcheck", "dup": res != "ok"}));
                            if res == "ok" {
                                push(json!({"ev": "addstore"}));
                                push(json!({"ev": "addcache"}));
                            }
                        }
                    }
                    else {
                        t.scope_held = t.scope_held.saturating_sub(1);
                        if t.scope_held > 0 {
                            continue
                        }
                        if opc != "add" {
                            if !t.saw_load {
                                push(json!({
                                    "ev": "load", "e": ent, "ver": 0,
                                    "unknown": true, "cached": false,
                                }));
                            }
                            else {
                                if t.wal && !t.saw_store
                                    && matches!(
                                        opc.as_str(),
                                        "ok" | "noop" | "reject" | "cond"
                                    )
                                {
                                    // the WAL store has no hook for the
                                    // outcome: it follows from the result
                                    push(json!({
                                        "ev": "process", "wal": true,
                                        "kind": if res == "ok" { "noop" }
                                                else { "reject" },
                                    }));
                                }
                                let early = t.wal && !t.saw_store
                                    && res != "ok"
                                    && matches!(
                                        opc.as_str(),
                                        "ok" | "noop" | "reject" | "cond"
                                    );
                                if !t.saw_cache && !early {
                                    push(json!({
                                        "ev": "cache", "upd": false,
                                        "ver": 0, "wal": t.wal,
                                    }));
                                }
                                if matches!(opc.as_str(), "snap" | "lsnap")
                                    && res == "ok"
                                {
                                    push(json!({"ev": "snapshot"}));
                                }
                            }
                        }
                        push(json!({"ev": "rel", "e": lock_ent}));
                    }
                }
            }
            "agg_load" | "wal_load" | "agg_cmd" | "agg_stored" | "wal_stored"
            | "agg_noop" | "agg_presave_fail" | "agg_cache"
                if !t.innermost_is(&prefix) =>
            {
                // an aggregate of another store (signer info, ...) used
                // inside the critical section
            }
            "agg_load" | "wal_load" => {
                let Some((ent, _, _)) = t.cur.clone() else { continue };
                let handle = str_arg(ev, "handle");
                let ev_ent = handles.get(handle).cloned().unwrap_or_default();
                if ev_ent != ent || t.scope_held != 1 || t.saw_load {
                    t.nested += 1;
                    push(json!({
                        "ev": "nested", "what": kind, "e": ev_ent,
                    }));
                    continue
                }
                t.saw_load = true;
                t.wal = kind == "wal_load";
                let ver = if t.wal { u(ev, "revision") } else {
                    u(ev, "version")
                };
                push(json!({
                    "ev": "load", "e": ent, "ver": ver, "unknown": false,
                    "cached": ev.get("cached").and_then(|v| {
                        v.as_bool()
                    }).unwrap_or(false),
                }));
                push(json!({"ev": "apply"}));
            }
            "agg_cmd" => {
                if t.cur.is_none() || t.scope_held != 1 { continue }
                push(json!({"ev": "check", "ver": u(ev, "version")}));
            }
            "agg_stored" => {
                if t.cur.is_none() || t.scope_held != 1 { continue }
                let k = if str_arg(ev, "kind") == "events" { "ok" }
                        else { "reject" };
                t.saw_store = true;
                push(json!({"ev": "process", "kind": k, "wal": false}));
                push(json!({
                    "ev": "store", "ver": u(ev, "version"), "kind": k,
                }));
            }
            "wal_stored" => {
                if t.cur.is_none() || t.scope_held != 1 { continue }
                t.saw_store = true;
                push(json!({"ev": "process", "kind": "ok", "wal": true}));
                push(json!({
                    "ev": "store", "ver": u(ev, "revision"), "kind": "ok",
                }));
            }
            "agg_noop" => {
                if t.cur.is_none() || t.scope_held != 1 { continue }
                push(json!({"ev": "process", "kind": "noop", "wal": false}));
            }
            "agg_presave_fail" => {
                if t.cur.is_none() || t.scope_held != 1 { continue }
                push(json!({
                    "ev": "process", "kind": "presave_fail", "wal": false,
                }));
            }
            "agg_cache" => {
                if t.cur.is_none() || t.scope_held != 1 { continue }
                t.saw_cache = true;
                push(json!({
                    "ev": "cache", "upd": true, "ver": u(ev, "version"),
                    "wal": false,
                }));
            }
            "exit" => {
                push(json!({"ev": "exit", "label": str_arg(ev, "label")}));
            }
            _ => { }
        }
    }
    out
}
