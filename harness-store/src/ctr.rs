//! A minimal aggregate of the harness' own, driven through the REAL
//! `AggregateStore` / `KeyValueStore` of krill.
//!
//! It exists so that the store protocol (store.rs, storage back-ends) can be
//! exercised thousands of times without RSA signing. Every command carries a
//! unique identifier; the state records the identifiers of the commands whose
//! events have been applied, in order, which is exactly the `eff` component
//! of the abstract state in spec/AggStore.tla.

use std::collections::BTreeSet;
use std::fmt;
use std::sync::atomic::{AtomicU64, Ordering};
use rpki::ca::idexchange::MyHandle;
use serde::{Deserialize, Serialize};
use krill::api::history::CommandSummary;
use krill::commons::actor::Actor;
use krill::commons::eventsourcing::{
    Aggregate, AggregateStoreError, CommandDetails, Event, InitCommandDetails,
    InitEvent, SentCommand, SentInitCommand, WithStorableDetails,
};


//------------ Context -------------------------------------------------------

/// Context handed to the aggregate: counts listener invocations.
#[derive(Default)]
pub struct CtrCtx {
    pub pre_save_calls: AtomicU64,
    pub post_save_calls: AtomicU64,
}


//------------ Events --------------------------------------------------------

#[derive(Clone, Debug, Deserialize, Eq, PartialEq, Serialize)]
pub struct CtrInitEvent {
    pub start: i64,
}

impl InitEvent for CtrInitEvent {}

impl fmt::Display for CtrInitEvent {
    fn fmt(&self, f: &mut fmt::Formatter) -> fmt::Result {
        write!(f, "counter initialised at {}", self.start)
    }
}

#[derive(Clone, Debug, Deserialize, Eq, PartialEq, Serialize)]
pub enum CtrEvent {
    /// The command `id` added `n`. `poison` makes the pre-save listener
    /// fail (the event is then never stored).
    Added { id: u64, n: i64, poison: bool },
    KeyAdded { id: u64, key: u32 },
    KeyRemoved { id: u64, key: u32 },
}

impl Event for CtrEvent {}

impl fmt::Display for CtrEvent {
    fn fmt(&self, f: &mut fmt::Formatter) -> fmt::Result {
        match self {
            CtrEvent::Added { id, n, .. } => write!(f, "{id}: added {n}"),
            CtrEvent::KeyAdded { id, key } => write!(f, "{id}: key {key}"),
            CtrEvent::KeyRemoved { id, key } => {
                write!(f, "{id}: removed key {key}")
            }
        }
    }
}


//------------ Commands ------------------------------------------------------

pub type CtrInitCommand = SentInitCommand<CtrInitDetails>;

#[derive(Clone, Debug)]
pub struct CtrInitDetails {
    pub start: i64,
}

impl InitCommandDetails for CtrInitDetails {
    type StorableDetails = CtrStorable;

    fn store(&self) -> CtrStorable {
        CtrStorable::make_init()
    }
}

pub type CtrCommand = SentCommand<CtrDetails>;

#[derive(Clone, Debug, Deserialize, Eq, PartialEq, Serialize)]
pub enum CtrDetails {
    /// Always accepted: adds `n`.
    Add { id: u64, n: i64 },
    /// Always without effect.
    Noop { id: u64 },
    /// Always rejected.
    Reject { id: u64 },
    /// Accepted by `process_command`, refused by the pre-save listener.
    PreFail { id: u64 },
    /// Accepted iff `key` is absent (like adding a ROA).
    KeyAdd { id: u64, key: u32 },
    /// Accepted iff `key` is present (like removing a ROA).
    KeyDel { id: u64, key: u32 },
    /// No-op iff `key` is present, else adds it (like a child resource
    /// update to the value it already has).
    KeySet { id: u64, key: u32 },
}

impl CtrDetails {
    pub fn id(&self) -> u64 {
        match *self {
            CtrDetails::Add { id, .. } | CtrDetails::Noop { id }
            | CtrDetails::Reject { id } | CtrDetails::PreFail { id }
            | CtrDetails::KeyAdd { id, .. } | CtrDetails::KeyDel { id, .. }
            | CtrDetails::KeySet { id, .. } => id
        }
    }
}

impl fmt::Display for CtrDetails {
    fn fmt(&self, f: &mut fmt::Formatter) -> fmt::Result {
        write!(f, "{self:?}")
    }
}

impl CommandDetails for CtrDetails {
    type Event = CtrEvent;
    type StorableDetails = CtrStorable;

    fn store(&self) -> CtrStorable {
        CtrStorable::Cmd(self.clone())
    }
}

#[derive(Clone, Debug, Deserialize, Eq, PartialEq, Serialize)]
pub enum CtrStorable {
    Init,
    Cmd(CtrDetails),
}

impl fmt::Display for CtrStorable {
    fn fmt(&self, f: &mut fmt::Formatter) -> fmt::Result {
        write!(f, "{self:?}")
    }
}

impl WithStorableDetails for CtrStorable {
    fn summary(&self) -> CommandSummary {
        match self {
            CtrStorable::Init => CommandSummary::new("ctr-init", self),
            CtrStorable::Cmd(details) => {
                CommandSummary::new("ctr-cmd", self).arg("id", details.id())
            }
        }
    }

    fn make_init() -> Self {
        CtrStorable::Init
    }
}


//------------ Error ---------------------------------------------------------

#[derive(Clone, Debug)]
pub enum CtrError {
    Rejected(u64),
    PreSave(u64),
    Store(String),
}

impl CtrError {
    pub fn is_store(&self) -> bool {
        matches!(self, CtrError::Store(_))
    }
}

impl fmt::Display for CtrError {
    fn fmt(&self, f: &mut fmt::Formatter) -> fmt::Result {
        match self {
            CtrError::Rejected(id) => write!(f, "command {id} rejected"),
            CtrError::PreSave(id) => write!(f, "pre-save failed for {id}"),
            CtrError::Store(s) => write!(f, "store: {s}"),
        }
    }
}

impl From<AggregateStoreError> for CtrError {
    fn from(e: AggregateStoreError) -> Self {
        CtrError::Store(e.to_string())
    }
}

impl std::error::Error for CtrError {}


//------------ Ctr -----------------------------------------------------------

#[derive(Clone, Debug, Deserialize, Eq, PartialEq, Serialize)]
pub struct Ctr {
    handle: MyHandle,
    version: u64,
    pub sum: i64,
    pub keys: BTreeSet<u32>,
    /// Identifiers of the commands whose events were applied, in order.
    pub applied: Vec<u64>,
}

impl Aggregate for Ctr {
    type InitCommand = CtrInitCommand;
    type Command = CtrCommand;
    type StorableCommandDetails = CtrStorable;
    type InitEvent = CtrInitEvent;
    type Event = CtrEvent;
    type Error = CtrError;
    type Context<'a> = &'a CtrCtx;

    fn init(handle: &MyHandle, event: CtrInitEvent) -> Self {
        Ctr {
            handle: handle.clone(),
            version: 1,
            sum: event.start,
            keys: BTreeSet::new(),
            applied: Vec::new(),
        }
    }

    fn process_init_command(
        command: CtrInitCommand, _context: &CtrCtx,
    ) -> Result<CtrInitEvent, CtrError> {
        Ok(CtrInitEvent { start: command.into_details().start })
    }

    fn process_command(
        &self, command: CtrCommand, _context: &CtrCtx,
    ) -> Result<Vec<CtrEvent>, CtrError> {
        match command.into_details() {
            CtrDetails::Add { id, n } => {
                Ok(vec![CtrEvent::Added { id, n, poison: false }])
            }
            CtrDetails::Noop { .. } => Ok(vec![]),
            CtrDetails::Reject { id } => Err(CtrError::Rejected(id)),
            CtrDetails::PreFail { id } => {
                Ok(vec![CtrEvent::Added { id, n: 1, poison: true }])
            }
            CtrDetails::KeyAdd { id, key } => {
                if self.keys.contains(&key) {
                    Err(CtrError::Rejected(id))
                }
                else {
                    Ok(vec![CtrEvent::KeyAdded { id, key }])
                }
            }
            CtrDetails::KeyDel { id, key } => {
                if self.keys.contains(&key) {
                    Ok(vec![CtrEvent::KeyRemoved { id, key }])
                }
                else {
                    Err(CtrError::Rejected(id))
                }
            }
            CtrDetails::KeySet { id, key } => {
                if self.keys.contains(&key) {
                    Ok(vec![])
                }
                else {
                    Ok(vec![CtrEvent::KeyAdded { id, key }])
                }
            }
        }
    }

    fn version(&self) -> u64 {
        self.version
    }

    fn increment_version(&mut self) {
        self.version += 1;
    }

    fn apply(&mut self, event: CtrEvent) {
        match event {
            CtrEvent::Added { id, n, .. } => {
                self.sum += n;
                self.applied.push(id);
            }
            CtrEvent::KeyAdded { id, key } => {
                self.keys.insert(key);
                self.applied.push(id);
            }
            CtrEvent::KeyRemoved { id, key } => {
                self.keys.remove(&key);
                self.applied.push(id);
            }
        }
    }

    fn pre_save_events(
        &self, events: &[CtrEvent], context: &CtrCtx,
    ) -> Result<(), CtrError> {
        context.pre_save_calls.fetch_add(1, Ordering::SeqCst);
        for ev in events {
            if let CtrEvent::Added { id, poison: true, .. } = ev {
                return Err(CtrError::PreSave(*id))
            }
        }
        Ok(())
    }

    fn post_save_events(&self, _events: &[CtrEvent], context: &CtrCtx) {
        context.post_save_calls.fetch_add(1, Ordering::SeqCst);
    }
}

pub fn init_command(handle: &MyHandle, actor: &Actor) -> CtrInitCommand {
    CtrInitCommand::new(handle.clone(), CtrInitDetails { start: 0 }, actor)
}

pub fn command(
    handle: &MyHandle, details: CtrDetails, actor: &Actor,
) -> CtrCommand {
    CtrCommand::new(handle.clone(), None, details, actor)
}
