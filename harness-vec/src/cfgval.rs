//! C05: executes configuration-change requests (spec/ConfigValidation.tla)
//! on a real CA.
//!
//! One in-process krill with an embedded TA and the CA `alpha` holding
//! AS64001-AS64002, 10.0.0.0/16 and 2001:db8::/32. For every case the CA is
//! brought into the case's state through regular commands, the request is
//! submitted through the `CaManager` entry point of its kind, and the
//! complete configuration (ROAs, ASPA definitions, router keys, children),
//! the length of the command history and the CA's stored object set
//! (what it publishes) are recorded before and after. Whether the outcome
//! is right is decided by TLC (spec/ConfigValidationTrace.tla), not here.

use std::collections::{BTreeMap, BTreeSet};
use std::path::Path;
use std::str::FromStr;
use krill::api::admin::{
    AddChildRequest, ParentCaReq, PublicationServerUris, RepositoryContact,
    UpdateChildRequest,
};
use krill::api::aspa::{
    AspaDefinition, AspaDefinitionUpdates, AspaProvidersUpdate,
};
use krill::api::bgpsec::{
    BgpSecAsnKey, BgpSecDefinition, BgpSecDefinitionUpdates,
};
use krill::api::history::CommandHistoryCriteria;
use krill::api::roa::{RoaConfiguration, RoaConfigurationUpdates, RoaPayload};
use krill::commons::actor::Actor;
use krill::constants::CA_OBJECTS_NS;
use rpki::ca::csr::BgpsecCsr;
use rpki::ca::idexchange::{self, CaHandle, ChildHandle};
use rpki::ca::idcert::IdCert;
use rpki::repository::resources::{Asn, ResourceSet};
use rpki::uri;
use serde_json::{json, Value};
use crate::common::{self, Env, EnvOpts, Outcome};

const CA: &str = "alpha";
const PARENT: &str = "parent";

/// What the CA under test holds (the universe of the specification).
fn std_resources() -> ResourceSet {
    ResourceSet::from_strs(
        "AS64001-AS64002", "10.0.0.0/16", "2001:db8::/32"
    ).unwrap()
}

/// What it holds while an entry for a resource "lost since" is set up.
fn grown_resources() -> ResourceSet {
    ResourceSet::from_strs(
        "AS64001-AS64003", "10.0.0.0/16, 11.0.0.0/24",
        "2001:db8::/32, 2001:db9::/48"
    ).unwrap()
}
const ASN_BASE: u32 = 64000;

fn prefix_of(atom: &str) -> &'static str {
    match atom {
        "h4" => "10.0.0.0/24",
        "b4" => "10.0.0.0/16",
        "u4" => "11.0.0.0/24",
        "o4" => "10.0.0.0/15",
        "h6" => "2001:db8::/48",
        "u6" => "2001:db9::/48",
        "B6" => "2001:db8::/32",
        _ => panic!("unknown prefix atom {atom}"),
    }
}

const PFX_ATOMS: [&str; 6] = ["h4", "b4", "u4", "o4", "h6", "u6"];

fn asn_of(n: i64) -> u32 { if n == 0 { 0 } else { ASN_BASE + n as u32 } }

fn asn_back(a: u32) -> i64 {
    if a == 0 { 0 } else { a as i64 - ASN_BASE as i64 }
}

fn res_pool() -> Vec<(&'static str, ResourceSet)> {
    let r = |a: &str, v4: &str, v6: &str| {
        ResourceSet::from_strs(a, v4, v6).unwrap()
    };
    vec![
        ("none", r("", "", "")),
        ("sub4", r("", "10.0.0.0/24", "")),
        ("asn", r("AS64001", "", "")),
        ("mix", r("AS64001", "10.0.0.0/24", "2001:db8::/48")),
        ("all", r("AS64001", "10.0.0.0/16", "2001:db8::/32")),
        ("unh4", r("", "11.0.0.0/24", "")),
        ("part", r("", "10.0.0.0/24, 11.0.0.0/24", "")),
        ("big4", r("", "10.0.0.0/15", "")),
        ("unhas", r("AS64003", "", "")),
        ("partas", r("AS64001, AS64003", "", "")),
    ]
}

struct World {
    env: Env,
    actor: Actor,
    ca: CaHandle,
    children: BTreeMap<String, IdCert>,
    /// key name -> (valid CSR, CSR with a broken signature)
    csrs: BTreeMap<String, (BgpsecCsr, BgpsecCsr)>,
    key_names: BTreeMap<String, String>,
    pool: Vec<(&'static str, ResourceSet)>,
    ops: usize,
}

fn tool_error(msg: String) -> ! {
    eprintln!("cfgval: {msg}");
    std::process::exit(2);
}

/// Makes a BGPsec router key CSR. If `foreign_signature`, the request is
/// signed with another key than the one it carries (not self-signed).
fn make_csr_with(
    key: &openssl::pkey::PKey<openssl::pkey::Private>,
    signer: &openssl::pkey::PKey<openssl::pkey::Private>,
) -> Vec<u8> {
    use openssl::hash::MessageDigest;
    use openssl::x509::{X509NameBuilder, X509ReqBuilder};
    let mut name = X509NameBuilder::new().unwrap();
    name.append_entry_by_text("CN", "ROUTER-0000FA01").unwrap();
    let name = name.build();
    let mut req = X509ReqBuilder::new().unwrap();
    req.set_version(0).unwrap();
    req.set_subject_name(&name).unwrap();
    req.set_pubkey(key).unwrap();
    let mut exts = openssl::stack::Stack::new().unwrap();
    exts.push(
        openssl::x509::extension::ExtendedKeyUsage::new()
            .other("1.3.6.1.5.5.7.3.30").build().unwrap()
    ).unwrap();
    req.add_extensions(&exts).unwrap();
    req.sign(signer, MessageDigest::sha256()).unwrap();
    req.build().to_der().unwrap()
}

fn make_ec_key() -> openssl::pkey::PKey<openssl::pkey::Private> {
    use openssl::ec::{EcGroup, EcKey};
    use openssl::nid::Nid;
    let group = EcGroup::from_curve_name(Nid::X9_62_PRIME256V1).unwrap();
    openssl::pkey::PKey::from_ec_key(EcKey::generate(&group).unwrap()).unwrap()
}

impl World {
    fn create(work: &Path) -> Self {
        let env = Env::create(work, EnvOpts {
            memory: true, ..Default::default()
        }).unwrap_or_else(|e| tool_error(format!("environment: {e}")));
        let actor = env.krill.system_actor().clone();
        let ca = CaHandle::from_str(CA).unwrap();
        let cam = env.krill.ca_manager();
        let ok = |what: &str, res: Result<(), String>| {
            if let Err(e) = res { tool_error(format!("{what}: {e}")) }
        };
        ok("repo init", env.krill.repo_manager().init(
            PublicationServerUris {
                rrdp_base_uri: uri::Https::from_str(
                    "https://repo.example.net/rrdp/"
                ).unwrap(),
                rsync_jail: uri::Rsync::from_str(
                    "rsync://repo.example.net/repo/"
                ).unwrap(),
            }, &env.krill
        ).map_err(|e| e.to_string()));
        ok("ta init", cam.ta_init_fully_embedded(
            uri::Rsync::from_str("rsync://repo.example.net/ta/ta.cer")
                .unwrap(),
            vec![uri::Https::from_str("https://repo.example.net/ta/ta.cer")
                .unwrap()],
            None, &actor, &env.slow,
        ).map_err(|e| e.to_string()));

        // an intermediate CA below the TA, and below it the CA under
        // test (recipe of krill's import_ca); the intermediate CA lets the
        // harness grow and shrink what the CA under test holds
        let ta = CaHandle::from_str(krill::constants::TA_NAME).unwrap();
        let parent = CaHandle::from_str(PARENT).unwrap();
        for (handle, above, res) in [
            (&parent, &ta, grown_resources()), (&ca, &parent, std_resources())
        ] {
            ok("init_ca", cam.init_ca(handle.clone(), &env.krill)
                .map_err(|e| e.to_string()));
            let pub_req = idexchange::PublisherRequest::new(
                cam.get_ca(handle).unwrap().id_cert().base64.clone(),
                handle.convert(), None,
            );
            ok("create_publisher", env.krill.repo_manager().create_publisher(
                pub_req, &actor
            ).map_err(|e| e.to_string()));
            let contact = RepositoryContact::try_from_response(
                env.krill.repo_manager().repository_response(
                    &handle.convert(), &env.krill
                ).unwrap_or_else(|e| {
                    tool_error(format!("repo response: {e}"))
                })
            ).unwrap_or_else(|e| tool_error(format!("repo contact: {e}")));
            ok("update_repo", cam.update_repo(
                handle.clone(), contact, false, &actor, &env.slow
            ).map_err(|e| e.to_string()));
            let id_cert = cam.get_ca(handle).unwrap().child_request()
                .validate().unwrap_or_else(|e| {
                    tool_error(format!("child request: {e}"))
                });
            let response = cam.ca_add_child(
                above,
                AddChildRequest {
                    handle: handle.convert(), resources: res.clone(), id_cert,
                },
                &actor, &env.krill,
            ).unwrap_or_else(|e| tool_error(format!("add child: {e}")));
            ok("parent_add", cam.ca_parent_add_or_update(
                handle.clone(),
                ParentCaReq { handle: above.convert(), response },
                &actor, &env.krill,
            ).map_err(|e| e.to_string()));
            for _ in 0..2 {
                ok("sync", cam.ca_sync_parent(
                    handle, 0, &above.convert(), &actor, &env.slow
                ).map(|_| ()).map_err(|e| e.to_string()));
            }
            if above.as_str() == krill::constants::TA_NAME {
                ok("ta sync", cam.sync_ta_proxy_signer_if_possible(&env.krill)
                    .map_err(|e| e.to_string()));
                ok("sync", cam.ca_sync_parent(
                    handle, 0, &above.convert(), &actor, &env.slow
                ).map(|_| ()).map_err(|e| e.to_string()));
            }
            let held = cam.get_ca(handle).unwrap().all_resources();
            if held != res {
                tool_error(format!("{handle} holds '{held}' after set-up"));
            }
        }

        // identities for the children to add
        let mut children = BTreeMap::new();
        for name in ["ch1", "ch2"] {
            let handle = CaHandle::from_str(&format!("{name}-ca")).unwrap();
            ok("init child", cam.init_ca(handle.clone(), &env.krill)
                .map_err(|e| e.to_string()));
            children.insert(
                name.to_string(),
                cam.get_ca(&handle).unwrap().child_request().validate()
                    .unwrap_or_else(|e| tool_error(format!("child id: {e}"))),
            );
        }

        // router key CSRs
        let mut csrs = BTreeMap::new();
        let mut key_names = BTreeMap::new();
        for name in ["k1", "k2"] {
            let key = make_ec_key();
            let der = make_csr_with(&key, &key);
            let good = BgpsecCsr::decode(der.as_slice()).unwrap_or_else(|e| {
                tool_error(format!("cannot decode generated CSR: {e}"))
            });
            if good.verify_signature().is_err() {
                tool_error("generated CSR does not verify".into());
            }
            // not validly self-signed: k1 - one byte of the signature
            // flipped; k2 - signed with a different key
            let bad_der = if name == "k1" {
                let mut bad_der = der.clone();
                let n = bad_der.len();
                bad_der[n - 3] ^= 0x55;
                bad_der
            }
            else {
                make_csr_with(&key, &make_ec_key())
            };
            let bad = BgpsecCsr::decode(bad_der.as_slice()).unwrap_or_else(
                |e| tool_error(format!("cannot decode broken CSR: {e}"))
            );
            if bad.verify_signature().is_ok() {
                tool_error("broken CSR verifies".into());
            }
            if bad.public_key().key_identifier()
                != good.public_key().key_identifier()
            {
                tool_error("broken CSR has another key".into());
            }
            key_names.insert(
                good.public_key().key_identifier().to_string(),
                name.to_string()
            );
            csrs.insert(name.to_string(), (good, bad));
        }

        World {
            env, actor, ca, children, csrs, key_names, pool: res_pool(),
            ops: 0,
        }
    }

    //--- translation of abstract requests

    fn roa_entry(&self, e: &Value) -> RoaConfiguration {
        let ml = e["ml"].as_i64().unwrap();
        let mut s = prefix_of(e["p"].as_str().unwrap()).to_string();
        if ml >= 0 {
            s.push_str(&format!("-{ml}"));
        }
        s.push_str(&format!(" => {}", asn_of(e["asn"].as_i64().unwrap())));
        let c = e.get("c").and_then(|c| c.as_str()).unwrap_or("");
        if !c.is_empty() {
            s.push_str(&format!(" # {c}"));
        }
        RoaConfiguration::from_str(&s).unwrap_or_else(|e| {
            tool_error(format!("cannot parse ROA '{s}': {e}"))
        })
    }

    fn roa_payload(&self, e: &Value) -> RoaPayload { self.roa_entry(e).payload }

    fn aspa_def(&self, d: &Value) -> AspaDefinition {
        AspaDefinition {
            customer: Asn::from_u32(asn_of(d["cust"].as_i64().unwrap())),
            providers: d["provs"].as_array().unwrap().iter().map(|p| {
                Asn::from_u32(asn_of(p.as_i64().unwrap()))
            }).collect(),
        }
    }

    fn rtr_key(&self, k: &Value) -> BgpSecAsnKey {
        let csr = &self.csrs[k["key"].as_str().unwrap()].0;
        BgpSecAsnKey {
            asn: Asn::from_u32(asn_of(k["asn"].as_i64().unwrap())),
            key: csr.public_key().key_identifier(),
        }
    }

    fn rtr_def(&self, d: &Value) -> BgpSecDefinition {
        let (good, bad) = &self.csrs[d["key"].as_str().unwrap()];
        BgpSecDefinition {
            asn: Asn::from_u32(asn_of(d["asn"].as_i64().unwrap())),
            csr: if d.get("sig").and_then(|s| s.as_bool()).unwrap_or(true) {
                good.clone()
            } else {
                bad.clone()
            },
        }
    }

    fn resources(&self, name: &str) -> ResourceSet {
        self.pool.iter().find(|(n, _)| *n == name).unwrap_or_else(|| {
            tool_error(format!("unknown resource set {name}"))
        }).1.clone()
    }

    //--- projection of the real configuration

    fn project(&self) -> Value {
        let cam = self.env.krill.ca_manager();
        let ca = cam.get_ca(&self.ca).unwrap_or_else(|e| {
            tool_error(format!("get_ca: {e}"))
        });
        let mut roas = BTreeSet::new();
        for r in ca.configured_roas() {
            let pl = r.roa_configuration.payload;
            let p = PFX_ATOMS.iter().find(|a| {
                prefix_of(a) == pl.prefix.to_string()
            }).map(|a| a.to_string()).unwrap_or(pl.prefix.to_string());
            roas.insert((
                p, pl.max_length.map(|m| m as i64).unwrap_or(-1),
                asn_back(pl.asn.to_string().parse().unwrap()),
                r.roa_configuration.comment.clone().unwrap_or_default(),
            ));
        }
        let mut aspas = BTreeSet::new();
        for d in ca.aspas_definitions_show().as_slice() {
            let provs: BTreeSet<i64> = d.providers.iter().map(|p| {
                asn_back(p.into_u32())
            }).collect();
            aspas.insert((
                asn_back(d.customer.into_u32()), provs, d.providers.len()
            ));
        }
        let mut rtr = BTreeSet::new();
        for k in ca.bgpsec_definitions_show().as_slice() {
            let id = k.key_identifier.to_string();
            rtr.insert((
                asn_back(k.asn.into_u32()),
                self.key_names.get(&id).cloned().unwrap_or(id),
            ));
        }
        let mut children = BTreeSet::new();
        for child in ca.children() {
            let info = cam.ca_show_child(&self.ca, child).unwrap_or_else(
                |e| tool_error(format!("show child: {e}"))
            );
            let res = self.pool.iter().find(|(_, r)| {
                *r == info.entitled_resources
            }).map(|(n, _)| n.to_string()).unwrap_or_else(|| {
                format!("?{}", info.entitled_resources)
            });
            children.insert((child.to_string(), res));
        }
        json!({
            "roas": roas.iter().map(|(p, ml, asn, c)| json!({
                "pl": {"p": p, "ml": ml, "asn": asn}, "c": c
            })).collect::<Vec<_>>(),
            "aspas": aspas.iter().map(|(c, p, n)| json!({
                "cust": c, "provs": p, "n": n
            })).collect::<Vec<_>>(),
            "rtr": rtr.iter().map(|(a, k)| json!({
                "asn": a, "key": k
            })).collect::<Vec<_>>(),
            "children": children.iter().map(|(h, r)| json!({
                "h": h, "res": r
            })).collect::<Vec<_>>(),
        })
    }

    fn history_len(&self) -> usize {
        let crit = CommandHistoryCriteria {
            rows_limit: Some(1), ..Default::default()
        };
        self.env.krill.ca_manager().ca_history(&self.ca, crit).map(|h| {
            h.total
        }).unwrap_or_else(|e| tool_error(format!("history: {e}")))
    }

    /// The CA's stored object set (everything it publishes), verbatim.
    fn objects(&self) -> String {
        let store = self.env.krill.storage().open(CA_OBJECTS_NS)
            .unwrap_or_else(|e| tool_error(format!("open ca_objects: {e}")));
        let mut res = String::new();
        let keys = store.keys(None, CA).unwrap_or_else(|e| {
            tool_error(format!("ca_objects keys: {e}"))
        });
        for key in keys {
            let v: Option<Value> = store.get(None, &key).unwrap_or_else(
                |e| tool_error(format!("ca_objects get: {e}"))
            );
            res.push_str(key.as_str());
            res.push('=');
            res.push_str(&v.map(|v| v.to_string()).unwrap_or_default());
            res.push('\n');
        }
        res
    }

    /// What the stored object set says: the payload of every published
    /// ROA, ASPA and router certificate, decoded from the objects.
    fn published(&self, objects: &str) -> Value {
        use base64::Engine;
        fn walk(v: &Value, found: &mut Vec<(String, String)>) {
            match v {
                Value::Object(map) => {
                    for (k, v) in map {
                        if k == "published_objects" {
                            if let Some(objs) = v.as_object() {
                                for (name, o) in objs {
                                    found.push((
                                        name.clone(),
                                        o["base64"].as_str().unwrap_or("")
                                            .to_string()
                                    ));
                                }
                            }
                        }
                        else {
                            walk(v, found)
                        }
                    }
                }
                Value::Array(list) => list.iter().for_each(|v| walk(v, found)),
                _ => { }
            }
        }
        let mut found = Vec::new();
        for line in objects.lines() {
            if let Some((key, json)) = line.split_once('=') {
                if key.starts_with(CA) {
                    if let Ok(v) = serde_json::from_str::<Value>(json) {
                        walk(&v, &mut found);
                    }
                }
            }
        }
        let mut roas = BTreeSet::new();
        let mut aspas = BTreeSet::new();
        let mut rtr = BTreeSet::new();
        let mut bad = Vec::new();
        for (name, b64) in found {
            let Ok(bytes) = base64::engine::general_purpose::STANDARD
                .decode(b64.as_bytes())
            else {
                bad.push(name);
                continue
            };
            if name.ends_with(".roa") {
                match rpki::repository::roa::Roa::decode(
                    bytes.as_slice(), true
                ) {
                    Ok(roa) => {
                        let asn = asn_back(roa.content().as_id().into_u32());
                        for a in roa.content().iter() {
                            let pfx = format!(
                                "{}/{}", a.address(), a.address_length()
                            );
                            let p = PFX_ATOMS.iter().find(|x| {
                                prefix_of(x) == pfx
                            }).map(|x| x.to_string()).unwrap_or(pfx);
                            roas.insert((p, a.max_length() as i64, asn));
                        }
                    }
                    Err(_) => bad.push(name),
                }
            }
            else if name.ends_with(".asa") {
                match rpki::repository::aspa::Aspa::decode(
                    bytes.as_slice(), true
                ) {
                    Ok(aspa) => {
                        let provs: BTreeSet<i64> = aspa.content()
                            .provider_as_set().iter().map(|p| {
                                asn_back(p.into_u32())
                            }).collect();
                        aspas.insert((
                            asn_back(aspa.content().customer_as().into_u32()),
                            provs
                        ));
                    }
                    Err(_) => bad.push(name),
                }
            }
            else if name.starts_with("ROUTER-") {
                match BgpSecAsnKey::from_str(
                    name.trim_end_matches(".cer")
                ) {
                    Ok(key) => {
                        let id = key.key.to_string();
                        rtr.insert((
                            asn_back(key.asn.into_u32()),
                            self.key_names.get(&id).cloned().unwrap_or(id),
                        ));
                    }
                    Err(_) => bad.push(name),
                }
            }
        }
        json!({
            "roas": roas.iter().map(|(p, ml, asn)| json!({
                "p": p, "ml": ml, "asn": asn
            })).collect::<Vec<_>>(),
            "aspas": aspas.iter().map(|(c, p)| json!({
                "cust": c, "provs": p
            })).collect::<Vec<_>>(),
            "rtr": rtr.iter().map(|(a, k)| json!({
                "asn": a, "key": k
            })).collect::<Vec<_>>(),
            "undecodable": bad,
        })
    }

    //--- bringing the CA into a state

    /// Grows or shrinks what the CA under test holds (through its parent).
    fn set_held(&self, grown: bool) {
        let cam = self.env.krill.ca_manager();
        let parent = CaHandle::from_str(PARENT).unwrap();
        let res = if grown { grown_resources() } else { std_resources() };
        cam.ca_child_update(
            &parent, self.ca.convert(),
            UpdateChildRequest::resources(res.clone()),
            &self.actor, &self.env.krill
        ).unwrap_or_else(|e| tool_error(format!("resize: {e}")));
        for _ in 0..4 {
            if cam.get_ca(&self.ca).unwrap().all_resources() == res {
                return
            }
            cam.ca_sync_parent(
                &self.ca, 0, &parent.convert(), &self.actor, &self.env.slow
            ).unwrap_or_else(|e| tool_error(format!("resize sync: {e}")));
        }
        if cam.get_ca(&self.ca).unwrap().all_resources() != res {
            tool_error(format!(
                "CA holds '{}' after resize",
                cam.get_ca(&self.ca).unwrap().all_resources()
            ));
        }
    }

    /// Is this state entry for a resource the CA does not hold (any more)?
    fn orphan(kind: &str, entry: &Value) -> bool {
        match kind {
            "roa" => matches!(entry["pl"]["p"].as_str(), Some("u4" | "u6")),
            "aspa" | "aspap" => entry["cust"] == 3,
            "rtr" => entry["asn"] == 3,
            _ => matches!(
                entry["res"].as_str(),
                Some("unh4" | "part" | "unhas" | "partas")
            ),
        }
    }

    fn ensure(&self, kind: &str, state: &Value) {
        let cur = self.project();
        let target = state.as_array().unwrap();
        // entries for resources lost since can only be set up while the
        // resources are held
        let field = state_field(kind);
        let grow = target.iter().any(|t| {
            Self::orphan(kind, t)
                && !cur[field].as_array().unwrap().iter().any(|c| {
                    match kind {
                        "aspa" | "aspap" => {
                            c["cust"] == t["cust"] && c["provs"] == t["provs"]
                        }
                        _ => c == t
                    }
                })
        });
        if grow {
            self.set_held(true);
        }
        self.ensure_held(kind, target, &cur);
        if grow {
            self.set_held(false);
        }
    }

    fn ensure_held(&self, kind: &str, target: &[Value], cur: &Value) {
        let cam = self.env.krill.ca_manager();
        let fail = |what: &str, e: String| -> ! {
            tool_error(format!("cannot reach state ({what}): {e}"))
        };
        match kind {
            "roa" => {
                let mut upd = RoaConfigurationUpdates::default();
                for c in cur["roas"].as_array().unwrap() {
                    if !target.iter().any(|t| t["pl"] == c["pl"]) {
                        upd.removed.push(self.roa_payload(&c["pl"]));
                    }
                }
                for t in target {
                    if !cur["roas"].as_array().unwrap().contains(t) {
                        let mut e = t["pl"].clone();
                        e["c"] = t["c"].clone();
                        upd.added.push(self.roa_entry(&e));
                    }
                }
                if !upd.is_empty() {
                    cam.ca_routes_update(
                        self.ca.clone(), upd, &self.actor, &self.env.krill
                    ).unwrap_or_else(|e| fail("roa", e.to_string()));
                }
            }
            "aspa" | "aspap" => {
                let mut upd = AspaDefinitionUpdates {
                    add_or_replace: vec![], remove: vec![]
                };
                let same = |a: &Value, b: &Value| {
                    a["cust"] == b["cust"] && a["provs"] == b["provs"]
                };
                for c in cur["aspas"].as_array().unwrap() {
                    if !target.iter().any(|t| t["cust"] == c["cust"]) {
                        upd.remove.push(self.aspa_def(c).customer);
                    }
                }
                for t in target {
                    if !cur["aspas"].as_array().unwrap().iter().any(|c| {
                        same(c, t)
                    }) {
                        upd.add_or_replace.push(self.aspa_def(t));
                    }
                }
                if !upd.add_or_replace.is_empty() || !upd.remove.is_empty() {
                    cam.ca_aspas_definitions_update(
                        self.ca.clone(), upd, &self.actor, &self.env.krill
                    ).unwrap_or_else(|e| fail("aspa", e.to_string()));
                }
            }
            "rtr" => {
                let mut upd = BgpSecDefinitionUpdates {
                    add: vec![], remove: vec![]
                };
                for c in cur["rtr"].as_array().unwrap() {
                    if !target.contains(c) {
                        upd.remove.push(self.rtr_key(c));
                    }
                }
                for t in target {
                    if !cur["rtr"].as_array().unwrap().contains(t) {
                        upd.add.push(self.rtr_def(t));
                    }
                }
                if !upd.add.is_empty() || !upd.remove.is_empty() {
                    cam.ca_bgpsec_definitions_update(
                        self.ca.clone(), upd, &self.actor, &self.env.krill
                    ).unwrap_or_else(|e| fail("rtr", e.to_string()));
                }
            }
            _ => {
                for c in cur["children"].as_array().unwrap() {
                    if !target.iter().any(|t| t["h"] == c["h"]) {
                        cam.ca_child_remove(
                            &self.ca,
                            ChildHandle::from_str(c["h"].as_str().unwrap())
                                .unwrap(),
                            &self.actor, &self.env.krill
                        ).unwrap_or_else(|e| fail("child", e.to_string()));
                    }
                }
                for t in target {
                    let h = t["h"].as_str().unwrap();
                    let res = self.resources(t["res"].as_str().unwrap());
                    match cur["children"].as_array().unwrap().iter().find(
                        |c| c["h"] == t["h"]
                    ) {
                        Some(c) if c == t => { }
                        Some(_) => {
                            cam.ca_child_update(
                                &self.ca, ChildHandle::from_str(h).unwrap(),
                                UpdateChildRequest::resources(res),
                                &self.actor, &self.env.krill
                            ).unwrap_or_else(|e| {
                                fail("child", e.to_string())
                            });
                        }
                        None => {
                            cam.ca_add_child(
                                &self.ca,
                                AddChildRequest {
                                    handle: ChildHandle::from_str(h).unwrap(),
                                    resources: res,
                                    id_cert: self.children[h].clone(),
                                },
                                &self.actor, &self.env.krill
                            ).map(|_| ()).unwrap_or_else(|e| {
                                fail("child", e.to_string())
                            });
                        }
                    }
                }
            }
        }
    }

    //--- submitting the request of a case

    fn submit(&self, kind: &str, req: &Value) -> Result<(), String> {
        let cam = self.env.krill.ca_manager();
        let list = |v: &Value| -> Vec<Value> {
            v.as_array().cloned().unwrap_or_default()
        };
        match kind {
            "roa" => {
                cam.ca_routes_update(
                    self.ca.clone(),
                    RoaConfigurationUpdates {
                        added: list(&req["add"]).iter().map(|e| {
                            self.roa_entry(e)
                        }).collect(),
                        removed: list(&req["rem"]).iter().map(|e| {
                            self.roa_payload(e)
                        }).collect(),
                    },
                    &self.actor, &self.env.krill
                ).map_err(|e| e.to_string())
            }
            "aspa" => {
                cam.ca_aspas_definitions_update(
                    self.ca.clone(),
                    AspaDefinitionUpdates {
                        add_or_replace: list(&req["add"]).iter().map(|d| {
                            self.aspa_def(d)
                        }).collect(),
                        remove: list(&req["rem"]).iter().map(|c| {
                            Asn::from_u32(asn_of(c.as_i64().unwrap()))
                        }).collect(),
                    },
                    &self.actor, &self.env.krill
                ).map_err(|e| e.to_string())
            }
            "aspap" => {
                let asns = |v: &Value| -> Vec<Asn> {
                    list(v).iter().map(|p| {
                        Asn::from_u32(asn_of(p.as_i64().unwrap()))
                    }).collect()
                };
                cam.ca_aspas_update_aspa_providers(
                    self.ca.clone(),
                    Asn::from_u32(asn_of(req["cust"].as_i64().unwrap())),
                    AspaProvidersUpdate {
                        added: asns(&req["add"]), removed: asns(&req["rem"]),
                    },
                    &self.actor, &self.env.krill
                ).map_err(|e| e.to_string())
            }
            "rtr" => {
                cam.ca_bgpsec_definitions_update(
                    self.ca.clone(),
                    BgpSecDefinitionUpdates {
                        add: list(&req["add"]).iter().map(|d| {
                            self.rtr_def(d)
                        }).collect(),
                        remove: list(&req["rem"]).iter().map(|k| {
                            self.rtr_key(k)
                        }).collect(),
                    },
                    &self.actor, &self.env.krill
                ).map_err(|e| e.to_string())
            }
            "chadd" => {
                let h = req["h"].as_str().unwrap();
                cam.ca_add_child(
                    &self.ca,
                    AddChildRequest {
                        handle: ChildHandle::from_str(h).unwrap(),
                        resources: self.resources(
                            req["res"].as_str().unwrap()
                        ),
                        id_cert: self.children[h].clone(),
                    },
                    &self.actor, &self.env.krill
                ).map(|_| ()).map_err(|e| e.to_string())
            }
            "chupd" => {
                cam.ca_child_update(
                    &self.ca,
                    ChildHandle::from_str(req["h"].as_str().unwrap())
                        .unwrap(),
                    UpdateChildRequest::resources(
                        self.resources(req["res"].as_str().unwrap())
                    ),
                    &self.actor, &self.env.krill
                ).map_err(|e| e.to_string())
            }
            _ => tool_error(format!("unknown kind {kind}")),
        }
    }
}

fn state_field(kind: &str) -> &'static str {
    match kind {
        "roa" => "roas",
        "aspa" | "aspap" => "aspas",
        "rtr" => "rtr",
        _ => "children",
    }
}

pub fn run(input: &Path, out: &Path, work: &Path, verbose: bool) {
    common::refill_keys(0);
    let mut world = World::create(work);
    let mut trace = common::TraceOut::create(out);
    for case in common::read_ndjson(input) {
        let kind = case["kind"].as_str().unwrap();
        world.ops += 1;
        if world.ops % 200 == 0 {
            common::refill_keys(world.ops);
        }
        world.ensure(kind, &case["state"]);
        let before = world.project();
        let objs_before = world.objects();
        let hist_before = world.history_len();
        let res = common::guarded(|| world.submit(kind, &case["req"]));
        let (res, err) = match res {
            Outcome::Ok(Ok(())) => ("ok", String::new()),
            Outcome::Ok(Err(e)) => ("err", e),
            Outcome::Panic(m) | Outcome::Crash(m) => ("panic", m),
        };
        let after = world.project();
        let objs_after = world.objects();
        let hist_after = world.history_len();
        if verbose {
            eprintln!("{} {} -> {res} {err}", case["id"], case["req"]);
            if std::env::var_os("VERIF_DUMP_OBJECTS").is_some() {
                eprintln!("{objs_after}");
            }
        }
        trace.push(&json!({
            "id": case["id"], "kind": kind, "state": case["state"],
            "req": case["req"],
            "obs": {
                "res": res, "err": err,
                "before": before, "after": after,
                "hist": hist_after as i64 - hist_before as i64,
                "objs_same": objs_before == objs_after,
                "pub": world.published(&objs_after),
                "field": state_field(kind),
            },
        }));
    }
    trace.finish();
}
