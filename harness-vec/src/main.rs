//! kv-vec: conformance harness for the function-style specifications
//! (spec/Rov.tla for C17, spec/ConfigValidation.tla for C05); see
//! /verif/DESIGN.md.
#![allow(dead_code)]

#[path = "../../harness/src/common.rs"]
mod common;
mod rov;
mod cfgval;

use std::path::PathBuf;

fn arg(args: &[String], name: &str) -> Option<String> {
    args.iter().position(|a| a == name).and_then(|i| args.get(i + 1)).cloned()
}

fn flag(args: &[String], name: &str) -> bool {
    args.iter().any(|a| a == name)
}

/// A panic outside a guarded call into krill is a bug of the harness.
fn own(res: common::Outcome<()>) {
    match res {
        common::Outcome::Ok(()) => { }
        common::Outcome::Panic(m) | common::Outcome::Crash(m) => {
            eprintln!("harness panicked: {m}");
            std::process::exit(3);
        }
    }
}

fn main() {
    common::install_panic_hook();
    let args: Vec<String> = std::env::args().collect();
    let input = arg(&args, "--in").map(PathBuf::from);
    let out = arg(&args, "--out").map(PathBuf::from);
    let work = arg(&args, "--work").map(PathBuf::from);
    match args.get(1).map(|s| s.as_str()).unwrap_or("") {
        "rov" => {
            let depth: usize = arg(&args, "--depth").and_then(|s| {
                s.parse().ok()
            }).unwrap_or(2);
            own(common::guarded(|| rov::run(
                &input.unwrap(), &out.unwrap(), &work.unwrap(),
                &PathBuf::from(arg(&args, "--restr").unwrap()), depth,
                arg(&args, "--emb").as_deref(),
            )));
        }
        "rov-explain" => {
            let depth: usize = arg(&args, "--depth").and_then(|s| {
                s.parse().ok()
            }).unwrap_or(2);
            for case in common::read_ndjson(&input.unwrap()) {
                rov::explain(&case, depth);
            }
        }
        "cfgval" => {
            own(common::guarded(|| cfgval::run(
                &input.unwrap(), &out.unwrap(), &work.unwrap(),
                flag(&args, "--verbose"),
            )));
        }
        _ => {
            eprintln!(
                "usage: kv-vec <rov|rov-explain|cfgval> --in <cases.ndjson> \
                 --out <trace.ndjson> --work <dir> [options]"
            );
            std::process::exit(2);
        }
    }
}
