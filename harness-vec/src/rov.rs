//! C17: executes abstract ROA/announcement vectors (spec/Rov.tla) on the
//! real `BgpAnalyser`.
//!
//! Each abstract case (ROAs and announcements over a binary prefix tree) is
//! embedded at several concrete places of the IPv4 and IPv6 address space;
//! the announcements are loaded through the RISwhois text parser, the real
//! `analyse` and `suggest` are called for every held-resource/scope
//! restriction of the specification, and the reports are mapped back onto
//! the abstract tree. Whether what was reported is right is decided by TLC
//! (spec/RovTrace.tla), not here.

use std::collections::{BTreeMap, BTreeSet, HashMap};
use std::path::Path;
use std::str::FromStr;
use krill::api::bgp::{
    Announcement, BgpAnalysisReport, BgpAnalysisState, BgpAnalysisSuggestion,
    ConfiguredRoaOrAnnouncement,
};
use krill::api::roa::{
    ConfiguredRoa, RoaConfiguration, RoaConfigurationUpdates, RoaPayload,
};
use rpki::repository::resources::ResourceSet;
use serde_json::{json, Value};
use crate::common::{self, Env, EnvOpts, Outcome};

//------------ Abstract values -----------------------------------------------

type Bits = Vec<u8>;

#[derive(Clone, Debug, PartialEq, Eq, PartialOrd, Ord, Hash)]
struct ARoa { p: Bits, ml: u8, asn: u8 }

#[derive(Clone, Debug, PartialEq, Eq, PartialOrd, Ord, Hash)]
struct AAnn { p: Bits, o: u8 }

impl ARoa {
    fn from_json(v: &Value) -> Self {
        ARoa {
            p: bits(&v["p"]),
            ml: v["ml"].as_u64().unwrap() as u8,
            asn: v["asn"].as_u64().unwrap() as u8,
        }
    }
    fn json(&self) -> Value {
        json!({"p": self.p, "ml": self.ml, "asn": self.asn})
    }
    fn unknown() -> Self { ARoa { p: vec![2], ml: 0, asn: 0 } }
}

impl AAnn {
    fn from_json(v: &Value) -> Self {
        AAnn { p: bits(&v["p"]), o: v["o"].as_u64().unwrap() as u8 }
    }
    fn json(&self) -> Value { json!({"p": self.p, "o": self.o}) }
    fn unknown() -> Self { AAnn { p: vec![2], o: 0 } }
}

fn bits(v: &Value) -> Bits {
    v.as_array().map(|a| {
        a.iter().map(|b| b.as_u64().unwrap() as u8).collect()
    }).unwrap_or_default()
}

struct Restriction {
    id: String,
    held: Vec<Bits>,
    lim: bool,
    scope: Vec<Bits>,
}


//------------ Embedding -----------------------------------------------------

/// One concrete image of the abstract tree.
struct Emb {
    name: &'static str,
    /// Load group: embeddings of one group are loaded together.
    group: u8,
    v6: bool,
    /// Root address (as integer of the family's width).
    root: u128,
    /// Concrete prefix length of each abstract level 0..=depth.
    levels: Vec<u8>,
    /// Bits at positions that are not the last bit of a level.
    filler: fn(u8) -> bool,
    /// Concrete AS numbers of abstract ASNs 0, 1, 2.
    asns: [u32; 3],
    /// Write "prefix => asn" without max length where it equals the length.
    implicit_ml: bool,
    /// Write every announcement line twice.
    dup: bool,
    /// Announcements outside the root ("asn prefix peers" lines).
    noise: Vec<String>,
}

impl Emb {
    fn width(&self) -> u8 { if self.v6 { 128 } else { 32 } }

    fn prefix(&self, p: &Bits) -> (u128, u8) {
        let w = self.width();
        let len = self.levels[p.len()];
        let mut addr = self.root;
        let mut level = 1;
        for k in self.levels[0]..len {
            let bit = if k + 1 == self.levels[level] {
                level += 1;
                p[level - 2] == 1
            }
            else {
                (self.filler)(k)
            };
            if bit {
                addr |= 1u128 << (w - 1 - k);
            }
        }
        (addr, len)
    }

    fn fmt(&self, (addr, len): (u128, u8)) -> String {
        if self.v6 {
            format!("{}/{}", std::net::Ipv6Addr::from_bits(addr), len)
        }
        else {
            format!("{}/{}", std::net::Ipv4Addr::from_bits(addr as u32), len)
        }
    }

    fn prefix_str(&self, p: &Bits) -> String { self.fmt(self.prefix(p)) }

    fn max_len(&self, ml: u8, depth: usize) -> u8 {
        if ml as usize > depth { self.width() } else { self.levels[ml as usize] }
    }

    fn roa_str(&self, r: &ARoa, depth: usize) -> String {
        let ml = self.max_len(r.ml, depth);
        let (addr, len) = self.prefix(&r.p);
        if self.implicit_ml && ml == len {
            format!("{} => {}", self.fmt((addr, len)), self.asns[r.asn as usize])
        }
        else {
            format!(
                "{}-{} => {}",
                self.fmt((addr, len)), ml, self.asns[r.asn as usize]
            )
        }
    }

    fn resources(&self, set: &[Bits]) -> ResourceSet {
        let list = set.iter().map(|p| self.prefix_str(p))
            .collect::<Vec<_>>().join(", ");
        if self.v6 {
            ResourceSet::from_strs("", "", &list).unwrap()
        }
        else {
            ResourceSet::from_strs("", &list, "").unwrap()
        }
    }
}

fn filler_zero(_: u8) -> bool { false }
fn filler_alt(k: u8) -> bool { k % 2 == 0 }
fn filler_ones(_: u8) -> bool { true }
fn filler_mix(k: u8) -> bool { (k as u32 * 7 + 3) % 5 < 2 }

fn spread(from: u8, to: u8, depth: usize) -> Vec<u8> {
    (0..=depth).map(|i| {
        from + ((to - from) as usize * i / depth) as u8
    }).collect()
}

fn tail(root: u8, width: u8, depth: usize) -> Vec<u8> {
    let mut res = vec![root];
    for i in 1..=depth {
        res.push(width - depth as u8 + i as u8);
    }
    res
}

fn embeddings(depth: usize) -> Vec<Emb> {
    let d = depth as u8;
    vec![
        // IPv4 below 10.0.0.0/8, one bit per level
        Emb {
            name: "v4-10-adjacent", group: 0, v6: false,
            root: 0x0A00_0000, levels: (0..=d).map(|i| 8 + i).collect(),
            filler: filler_zero, asns: [0, 64496, 64497],
            implicit_ml: false, dup: false,
            noise: vec![
                "64496\t10.0.0.0/7\t100".into(),
                "64497\t8.0.0.0/5\t100".into(),
                "64496\t11.0.0.0/8\t100".into(),
                "64511\t9.255.255.0/24\t13".into(),
                "{64496,64497}\t10.0.0.0/8\t100".into(),
                "64510\t10.0.0.0/8\t12".into(),
                "% comment".into(),
                "".into(),
            ],
        },
        // IPv4 below 172.16.0.0/12, levels are the last bits: leaves at /32
        Emb {
            name: "v4-172-leaf32", group: 0, v6: false,
            root: 0xAC10_0000, levels: tail(12, 32, depth),
            filler: filler_mix, asns: [0, 1, 4294967295],
            implicit_ml: false, dup: true,
            noise: vec![
                "1\t172.0.0.0/8\t50".into(),
                "1\t172.32.0.0/11\t50".into(),
                "4294967295\t172.15.255.255/32\t13".into(),
            ],
        },
        // IPv6 below 2001:db8::/32, 16 bits per level
        Emb {
            name: "v6-db8-16", group: 0, v6: true,
            root: 0x2001_0db8u128 << 96,
            levels: (0..=d).map(|i| 32 + 16 * i).collect(),
            filler: filler_alt, asns: [0, 64496, 64497],
            implicit_ml: true, dup: false,
            noise: vec![
                "64496\t2001:db8::/31\t100".into(),
                "64497\t2001::/16\t100".into(),
                "64496\t2001:db9::/32\t100".into(),
                "64510\t2001:db8::/32\t3".into(),
            ],
        },
        // IPv6 below 2a00::/11, levels are the last bits: leaves at /128
        Emb {
            name: "v6-2a00-leaf128", group: 0, v6: true,
            root: 0x2a00u128 << 112, levels: tail(11, 128, depth),
            filler: filler_ones, asns: [0, 65551, 23456],
            implicit_ml: false, dup: false,
            noise: vec![
                "65551\t2a00::/10\t20".into(),
                "23456\t2a20::/11\t20".into(),
            ],
        },
        // IPv4 below 0.0.0.0/0, leaves at /32
        Emb {
            name: "v4-0-spread32", group: 1, v6: false,
            root: 0, levels: spread(0, 32, depth),
            filler: filler_alt, asns: [0, 64496, 64497],
            implicit_ml: false, dup: false, noise: vec![],
        },
        // IPv6 below ::/0, leaves at /128
        Emb {
            name: "v6-0-spread128", group: 1, v6: true,
            root: 0, levels: spread(0, 128, depth),
            filler: filler_mix, asns: [0, 64496, 64497],
            implicit_ml: false, dup: true, noise: vec![],
        },
        // IPv4 below 0.0.0.0/0, one bit per level: /0, /1, /2 ...
        Emb {
            name: "v4-0-adjacent", group: 2, v6: false,
            root: 0, levels: (0..=d).collect(),
            filler: filler_zero, asns: [0, 64496, 64497],
            implicit_ml: true, dup: false, noise: vec![],
        },
        // IPv6 below ::/0, one bit per level
        Emb {
            name: "v6-0-adjacent", group: 2, v6: true,
            root: 0, levels: (0..=d).collect(),
            filler: filler_zero, asns: [0, 1, 2],
            implicit_ml: false, dup: false, noise: vec![],
        },
    ]
}


//------------ Execution -----------------------------------------------------

struct Tables {
    /// concrete prefix string -> abstract prefix
    prefixes: HashMap<String, Bits>,
    /// concrete asn -> abstract asn
    asns: HashMap<u32, u8>,
    /// concrete max length -> abstract max length (smallest)
    lens: BTreeMap<u8, u8>,
}

fn all_prefixes(depth: usize) -> Vec<Bits> {
    let mut res = vec![vec![]];
    let mut last: Vec<Bits> = vec![vec![]];
    for _ in 0..depth {
        let mut next = Vec::new();
        for p in &last {
            for b in 0..2u8 {
                let mut q = p.clone();
                q.push(b);
                next.push(q);
            }
        }
        res.extend(next.iter().cloned());
        last = next;
    }
    res
}

fn tables(emb: &Emb, depth: usize) -> Tables {
    let mut prefixes = HashMap::new();
    for p in all_prefixes(depth) {
        // parse and print through krill's own type to get its formatting
        let s = emb.prefix_str(&p);
        let t = krill::api::roa::TypedPrefix::from_str(&s).unwrap();
        prefixes.insert(t.to_string(), p);
    }
    let mut asns = HashMap::new();
    for (i, a) in emb.asns.iter().enumerate() {
        asns.insert(*a, i as u8);
    }
    let mut lens = BTreeMap::new();
    lens.insert(emb.width(), depth as u8 + 1);
    for (i, l) in emb.levels.iter().enumerate() {
        lens.insert(*l, i as u8);
    }
    Tables { prefixes, asns, lens }
}

fn configured(s: &str) -> ConfiguredRoa {
    ConfiguredRoa {
        roa_configuration: RoaConfiguration {
            payload: RoaPayload::from_str(s).unwrap(),
            comment: None,
        },
        roa_objects: vec![],
    }
}

struct Ctx<'a> {
    emb: &'a Emb,
    tab: &'a Tables,
    /// explicit concrete payload -> abstract ROAs of the case
    roas: HashMap<String, Vec<ARoa>>,
}

impl Ctx<'_> {
    fn ann(&self, a: &Announcement) -> AAnn {
        let p = self.tab.prefixes.get(&a.prefix.to_string());
        let o = self.tab.asns.get(&a.asn.to_string().parse::<u32>().unwrap());
        match (p, o) {
            (Some(p), Some(o)) if *o != 0 => AAnn { p: p.clone(), o: *o },
            _ => AAnn::unknown(),
        }
    }

    fn anns(&self, list: &[Announcement]) -> Value {
        let set: BTreeSet<AAnn> = list.iter().map(|a| self.ann(a)).collect();
        Value::Array(set.iter().map(|a| a.json()).collect())
    }

    /// Abstract ROAs of a payload: the case's ROAs with this payload, or
    /// the translation of a payload that is not part of the case.
    fn payload(&self, r: &RoaPayload) -> Vec<ARoa> {
        let key = r.into_explicit_max_length().to_string();
        if let Some(list) = self.roas.get(&key) {
            return list.clone()
        }
        let p = self.tab.prefixes.get(&r.prefix.to_string());
        let asn = self.tab.asns.get(
            &r.asn.to_string().parse::<u32>().unwrap()
        );
        let ml = self.tab.lens.get(&r.effective_max_length());
        match (p, asn, ml) {
            (Some(p), Some(asn), Some(ml)) => {
                vec![ARoa { p: p.clone(), ml: *ml, asn: *asn }]
            }
            _ => vec![ARoa::unknown()]
        }
    }

    fn payloads<'b>(
        &self, list: impl Iterator<Item = &'b RoaPayload>
    ) -> Value {
        let set: BTreeSet<ARoa> = list.flat_map(|r| {
            self.payload(r)
        }).collect();
        Value::Array(set.iter().map(|r| r.json()).collect())
    }

    fn croas(&self, list: &[ConfiguredRoa]) -> Value {
        self.payloads(list.iter().map(|r| &r.roa_configuration.payload))
    }
}

fn state_name(s: BgpAnalysisState) -> &'static str {
    match s {
        BgpAnalysisState::RoaSeen => "roa_seen",
        BgpAnalysisState::RoaRedundant => "roa_redundant",
        BgpAnalysisState::RoaUnseen => "roa_unseen",
        BgpAnalysisState::RoaDisallowing => "roa_disallowing",
        BgpAnalysisState::RoaTooPermissive => "roa_too_permissive",
        BgpAnalysisState::RoaAs0 => "roa_as0",
        BgpAnalysisState::RoaAs0Redundant => "roa_as0_redundant",
        BgpAnalysisState::RoaNotHeld => "roa_not_held",
        BgpAnalysisState::AnnouncementValid => "valid",
        BgpAnalysisState::AnnouncementInvalidLength => "invalid_length",
        BgpAnalysisState::AnnouncementInvalidAsn => "invalid_asn",
        BgpAnalysisState::AnnouncementDisallowed => "disallowed",
        BgpAnalysisState::AnnouncementNotFound => "not_found",
        BgpAnalysisState::RoaNoAnnouncementInfo => "roa_no_announcement_info",
    }
}

/// Does an entry of this state carry authorises/disallows sets?
fn has_sets(s: BgpAnalysisState) -> bool {
    matches!(
        s,
        BgpAnalysisState::RoaSeen | BgpAnalysisState::RoaRedundant
        | BgpAnalysisState::RoaUnseen | BgpAnalysisState::RoaDisallowing
        | BgpAnalysisState::RoaTooPermissive | BgpAnalysisState::RoaAs0
    )
}

fn project_report(ctx: &Ctx, report: &BgpAnalysisReport) -> (Value, Value) {
    let mut anns = BTreeSet::new();
    let mut roas = BTreeSet::new();
    for e in report.entries() {
        match &e.roa_or_announcement {
            ConfiguredRoaOrAnnouncement::Announcement(a) => {
                let a = ctx.ann(a);
                let ab = e.allowed_by.iter().flat_map(|r| {
                    ctx.payload(r)
                }).collect::<BTreeSet<_>>();
                let db = e.disallowed_by.iter().flat_map(|r| {
                    ctx.payload(r)
                }).collect::<BTreeSet<_>>();
                anns.insert((a, state_name(e.state), ab, db));
            }
            ConfiguredRoaOrAnnouncement::Roa(r) => {
                let auth = e.authorizes.iter().map(|a| {
                    ctx.ann(a)
                }).collect::<BTreeSet<_>>();
                let dis = e.disallows.iter().map(|a| {
                    ctx.ann(a)
                }).collect::<BTreeSet<_>>();
                for r in ctx.payload(&r.roa_configuration.payload) {
                    roas.insert((
                        r, state_name(e.state), has_sets(e.state),
                        auth.clone(), dis.clone()
                    ));
                }
            }
        }
    }
    let anns = anns.into_iter().map(|(a, st, ab, db)| {
        json!({
            "p": a.p, "o": a.o, "st": st,
            "ab": ab.iter().map(|r| r.json()).collect::<Vec<_>>(),
            "db": db.iter().map(|r| r.json()).collect::<Vec<_>>(),
        })
    }).collect::<Vec<_>>();
    let roas = roas.into_iter().map(|(r, st, sets, auth, dis)| {
        json!({
            "p": r.p, "ml": r.ml, "asn": r.asn, "st": st, "sets": sets,
            "auth": auth.iter().map(|a| a.json()).collect::<Vec<_>>(),
            "dis": dis.iter().map(|a| a.json()).collect::<Vec<_>>(),
        })
    }).collect::<Vec<_>>();
    (Value::Array(anns), Value::Array(roas))
}

fn project_suggestion(ctx: &Ctx, s: &BgpAnalysisSuggestion) -> Value {
    let upd = RoaConfigurationUpdates::from(s.clone());
    let tp = s.too_permissive.iter().flat_map(|t| {
        let new = ctx.payloads(t.new.iter());
        ctx.payload(&t.current.roa_configuration.payload).into_iter().map(
            move |cur| json!({"cur": cur.json(), "new": new.clone()})
        )
    }).collect::<Vec<_>>();
    json!({
        "stale": ctx.croas(&s.stale),
        "keep": ctx.croas(&s.keep),
        "redundant": ctx.croas(&s.redundant),
        "as0_redundant": ctx.croas(&s.as0_redundant),
        "disallowing": ctx.croas(&s.disallowing),
        "not_held": ctx.croas(&s.not_held),
        "too_permissive": tp,
        "not_found": ctx.anns(&s.not_found),
        "invalid_asn": ctx.anns(&s.invalid_asn),
        "invalid_length": ctx.anns(&s.invalid_length),
        "keep_disallowing": ctx.anns(&s.keep_disallowing),
        "added": ctx.payloads(upd.added.iter().map(|c| &c.payload)),
        "removed": ctx.payloads(upd.removed.iter()),
    })
}

fn dump_line(emb: &Emb, a: &AAnn, peers: u32) -> String {
    format!("{}\t{}\t{}\n", emb.asns[a.o as usize], emb.prefix_str(&a.p), peers)
}

pub fn run(
    input: &Path, out: &Path, work: &Path, restr_file: &Path, depth: usize,
    only: Option<&str>,
) {
    let restr_json: Value = serde_json::from_str(
        &std::fs::read_to_string(restr_file).unwrap()
    ).unwrap();
    let mut restrictions = Vec::new();
    for (id, v) in restr_json.as_object().unwrap() {
        restrictions.push(Restriction {
            id: id.clone(),
            held: v["held"].as_array().unwrap().iter().map(bits).collect(),
            lim: v["lim"].as_bool().unwrap(),
            scope: v["scope"].as_array().unwrap().iter().map(bits).collect(),
        });
    }
    let embs: Vec<Emb> = embeddings(depth).into_iter().filter(|e| {
        only.map(|o| o.split(',').any(|n| n == e.name)).unwrap_or(true)
    }).collect();
    let tabs: Vec<Tables> = embs.iter().map(|e| tables(e, depth)).collect();
    let groups: BTreeSet<u8> = embs.iter().map(|e| e.group).collect();

    let env = Env::create(work, EnvOpts {
        memory: true, ..Default::default()
    }).unwrap_or_else(|e| {
        eprintln!("cannot create environment: {e}");
        std::process::exit(2);
    });
    let analyser = env.krill.bgp_analyser();
    let mut trace = common::TraceOut::create(out);

    for case in common::read_ndjson(input) {
        let roas: Vec<ARoa> = case["roas"].as_array().unwrap().iter()
            .map(ARoa::from_json).collect();
        let anns: Vec<AAnn> = case["anns"].as_array().unwrap().iter()
            .map(AAnn::from_json).collect();
        // embedding name -> restriction id -> observation
        let mut seen: Vec<(&str, serde_json::Map<String, Value>)>
            = Vec::new();
        for group in &groups {
            // one RISwhois data set per load group
            let mut v4 = String::new();
            let mut v6 = String::new();
            for emb in embs.iter().filter(|e| e.group == *group) {
                let text = if emb.v6 { &mut v6 } else { &mut v4 };
                for (i, a) in anns.iter().enumerate() {
                    text.push_str(&dump_line(emb, a, 13 + i as u32 * 100));
                    if emb.dup {
                        text.push_str(&dump_line(emb, a, 4000));
                    }
                }
                for n in &emb.noise {
                    text.push_str(n);
                    text.push('\n');
                }
            }
            let loaded = common::guarded(|| {
                analyser.verif_load_announcements(&v4, &v6)
            });
            let load_err = match loaded {
                Outcome::Ok(Ok(())) => None,
                Outcome::Ok(Err(e)) => Some(format!("load error: {e}")),
                Outcome::Panic(m) | Outcome::Crash(m) => {
                    Some(format!("panic while loading: {m}"))
                }
            };
            for (emb, tab) in embs.iter().zip(tabs.iter()).filter(|(e, _)| {
                e.group == *group
            }) {
                let mut map: HashMap<String, Vec<ARoa>> = HashMap::new();
                let mut croas = Vec::new();
                for r in &roas {
                    let c = configured(&emb.roa_str(r, depth));
                    let key = c.roa_configuration.payload
                        .into_explicit_max_length().to_string();
                    let e = map.entry(key).or_default();
                    if e.is_empty() {
                        croas.push(c);
                    }
                    e.push(r.clone());
                }
                let ctx = Ctx { emb, tab, roas: map };
                let mut per_restr = serde_json::Map::new();
                for x in &restrictions {
                    let obs = if let Some(err) = &load_err {
                        json!({"panic": err})
                    }
                    else {
                        let held = ctx.emb.resources(&x.held);
                        let scope = x.lim.then(|| {
                            ctx.emb.resources(&x.scope)
                        });
                        let res = common::guarded(|| {
                            let report = analyser.analyse(
                                &croas, &held, scope.clone()
                            );
                            let sugg = analyser.suggest(
                                &croas, &held, scope.clone()
                            );
                            (report, sugg)
                        });
                        match res {
                            Outcome::Ok((report, sugg)) => {
                                let (a, r) = project_report(&ctx, &report);
                                json!({
                                    "panic": "",
                                    "anns": a, "roas": r,
                                    "sugg": project_suggestion(&ctx, &sugg),
                                })
                            }
                            Outcome::Panic(m) | Outcome::Crash(m) => {
                                json!({"panic": format!("panic: {m}")})
                            }
                        }
                    };
                    per_restr.insert(x.id.clone(), obs);
                }
                seen.push((emb.name, per_restr));
            }
        }
        // embeddings with identical observations share one line
        let mut variants: Vec<(String, Value, Vec<&str>)> = Vec::new();
        for (name, obs) in seen {
            let obs = Value::Object(obs);
            let key = obs.to_string();
            match variants.iter_mut().find(|v| v.0 == key) {
                Some(v) => v.2.push(name),
                None => variants.push((key, obs, vec![name])),
            }
        }
        let single = variants.len() == 1;
        for (_, obs, names) in variants {
            trace.push(&json!({
                "id": case["id"],
                "roas": case["roas"], "anns": case["anns"],
                "emb": if single { "all".to_string() }
                       else { names.join(",") },
                "nemb": names.len(),
                "obs": obs,
            }));
        }
    }
    trace.finish();
}

/// Prints the concrete form of one case for every embedding (diagnostics).
pub fn explain(case: &Value, depth: usize) {
    let roas: Vec<ARoa> = case["roas"].as_array().unwrap().iter()
        .map(ARoa::from_json).collect();
    let anns: Vec<AAnn> = case["anns"].as_array().unwrap().iter()
        .map(AAnn::from_json).collect();
    for emb in embeddings(depth) {
        println!("embedding {}:", emb.name);
        for r in &roas {
            println!("  ROA  {}", emb.roa_str(r, depth));
        }
        for a in &anns {
            println!(
                "  ANN  {} => {}", emb.prefix_str(&a.p), emb.asns[a.o as usize]
            );
        }
    }
}
