//! Shared set-up: config, runtime, key pool, panic capture, trace output.

use std::fs;
use std::io::Write;
use std::panic::{self, AssertUnwindSafe};
use std::path::{Path, PathBuf};
use std::sync::Mutex;
use krill::api::ca::Timestamp;
use krill::commons::storage::{StorageSystem, StorageUri};
use krill::config::Config;
use krill::server::runtime::{KrillRuntime, SlowKrillRuntime};
use serde_json::{json, Value};

pub static LAST_PANIC: Mutex<Option<String>> = Mutex::new(None);

/// Installs a panic hook that records the message and location instead of
/// printing it.
pub fn install_panic_hook() {
    panic::set_hook(Box::new(|info| {
        let msg = if let Some(s) = info.payload().downcast_ref::<&str>() {
            s.to_string()
        }
        else if let Some(s) = info.payload().downcast_ref::<String>() {
            s.clone()
        }
        else if let Some(c)
            = info.payload().downcast_ref::<krill::verif::VerifCrash>()
        {
            format!("VERIF_CRASH {}", c.0)
        }
        else {
            "unknown panic".to_string()
        };
        let loc = info.location().map(|l| {
            format!("{}:{}", l.file(), l.line())
        }).unwrap_or_default();
        if std::env::var_os("VERIF_SHOW_PANICS").is_some() {
            eprintln!("panic: {msg} @ {loc}");
        }
        *LAST_PANIC.lock().unwrap_or_else(|e| e.into_inner())
            = Some(format!("{msg} @ {loc}"));
    }));
}

/// The outcome of a call into the code under test.
pub enum Outcome<T> {
    Ok(T),
    Panic(String),
    Crash(String),
}

/// Runs `op`, turning a panic into data.
pub fn guarded<T>(op: impl FnOnce() -> T) -> Outcome<T> {
    match panic::catch_unwind(AssertUnwindSafe(op)) {
        Ok(res) => Outcome::Ok(res),
        Err(payload) => {
            let msg = LAST_PANIC.lock().unwrap_or_else(|e| {
                e.into_inner()
            }).take().unwrap_or_default();
            if payload.downcast_ref::<krill::verif::VerifCrash>().is_some() {
                Outcome::Crash(msg)
            }
            else {
                Outcome::Panic(msg)
            }
        }
    }
}


//------------ Key pool ------------------------------------------------------

static KEYS: Mutex<Vec<Vec<u8>>> = Mutex::new(Vec::new());

pub fn key_pool_file() -> PathBuf {
    std::env::var_os("VERIF_KEYPOOL").map(PathBuf::from).unwrap_or_else(|| {
        PathBuf::from("/verif/harness/keypool.bin")
    })
}

/// Generates `count` RSA keys into the pool file (length-prefixed DER).
pub fn gen_keys(count: usize, path: &Path) {
    let threads = std::thread::available_parallelism().map(|n| {
        n.get()
    }).unwrap_or(4);
    let per = count.div_ceil(threads);
    let mut handles = Vec::new();
    for _ in 0..threads {
        handles.push(std::thread::spawn(move || {
            let mut res = Vec::new();
            for _ in 0..per {
                let rsa = openssl::rsa::Rsa::generate(2048).unwrap();
                let pkey = openssl::pkey::PKey::from_rsa(rsa).unwrap();
                res.push(pkey.private_key_to_der().unwrap());
            }
            res
        }));
    }
    // (written under another name and renamed: a reader never sees a
    // partial pool, two writers never interleave)
    let tmp = path.with_extension(format!("tmp{}", std::process::id()));
    let mut out = fs::File::create(&tmp).unwrap();
    for h in handles {
        for der in h.join().unwrap() {
            out.write_all(&(der.len() as u32).to_le_bytes()).unwrap();
            out.write_all(&der).unwrap();
        }
    }
    drop(out);
    fs::rename(&tmp, path).unwrap();
}

/// Loads the pool file into memory (once).
pub fn load_keys() {
    let mut keys = KEYS.lock().unwrap();
    if !keys.is_empty() {
        return
    }
    let Ok(data) = fs::read(key_pool_file()) else { return };
    let mut pos = 0;
    while pos + 4 <= data.len() {
        let len = u32::from_le_bytes(
            data[pos..pos + 4].try_into().unwrap()
        ) as usize;
        pos += 4;
        if pos + len > data.len() {
            break
        }
        keys.push(data[pos..pos + len].to_vec());
        pos += len;
    }
}

/// Refills krill's key pool with all pool keys, rotated by `offset`.
///
/// Keys are distinct within one refill.
pub fn refill_keys(offset: usize) {
    if std::env::var_os("VERIF_NO_KEYPOOL").is_some() {
        return
    }
    load_keys();
    while krill::verif::take_pooled_key().is_some() { }
    let keys = KEYS.lock().unwrap();
    if keys.is_empty() {
        return
    }
    let n = keys.len();
    for i in 0..n {
        krill::verif::key_pool_push(keys[(offset + i) % n].clone());
    }
}


//------------ Env -----------------------------------------------------------

#[derive(Clone, Debug)]
pub struct EnvOpts {
    pub memory: bool,
    pub agg_threshold: usize,
    pub deagg_threshold: usize,
    /// Extra TOML lines appended to the config file.
    pub extra_toml: String,
    /// Timing values set on the Config object after it was verified (the
    /// configuration check refuses margins that are not smaller than the
    /// lifetimes; a margin larger than the lifetime makes everything due
    /// at once, which stands in for the passing of time).
    pub timing_override: Vec<(String, u32)>,
}

impl Default for EnvOpts {
    fn default() -> Self {
        EnvOpts {
            memory: false,
            agg_threshold: 100,
            deagg_threshold: 90,
            extra_toml: String::new(),
            timing_override: Vec::new(),
        }
    }
}

pub struct Env {
    pub dir: PathBuf,
    pub opts: EnvOpts,
    pub krill: KrillRuntime,
    pub slow: SlowKrillRuntime,
    pub started: Timestamp,
    pub mem_seed: u64,
}

pub fn tokio_runtime() -> &'static tokio::runtime::Runtime {
    static RT: std::sync::OnceLock<tokio::runtime::Runtime>
        = std::sync::OnceLock::new();
    RT.get_or_init(|| {
        tokio::runtime::Builder::new_multi_thread()
            .worker_threads(2).enable_all().build().unwrap()
    })
}

impl Env {
    /// Creates a fresh environment in `dir` (wiped first).
    pub fn create(dir: &Path, opts: EnvOpts) -> Result<Self, String> {
        let _ = fs::remove_dir_all(dir);
        fs::create_dir_all(dir).map_err(|e| e.to_string())?;
        let mem_seed = {
            use std::hash::{Hash, Hasher};
            let mut h = std::collections::hash_map::DefaultHasher::new();
            dir.hash(&mut h);
            std::time::SystemTime::now().hash(&mut h);
            h.finish()
        };
        Self::open(dir, opts, mem_seed)
    }

    /// Opens (or re-opens after a restart) the environment in `dir`.
    pub fn open(
        dir: &Path, opts: EnvOpts, mem_seed: u64
    ) -> Result<Self, String> {
        let config = Self::config(dir, &opts, mem_seed)?;
        let storage = StorageSystem::new(config.storage_uri.clone());
        let krill = KrillRuntime::new(
            config, storage, tokio_runtime().handle().clone()
        ).map_err(|e| format!("runtime: {e}"))?;
        let slow = SlowKrillRuntime::new(krill.clone());
        Ok(Env {
            dir: dir.into(), opts, krill, slow,
            started: Timestamp::now(), mem_seed,
        })
    }

    pub fn config(
        dir: &Path, opts: &EnvOpts, mem_seed: u64,
    ) -> Result<Config, String> {
        let data = dir.join("data");
        let conf_path = dir.join("krill.conf");
        let storage_line = if opts.memory {
            format!("storage_uri = \"memory://{mem_seed:016x}\"")
        }
        else {
            format!("storage_uri = \"{}/\"", data.display())
        };
        let toml = format!(
            "{storage_line}\n\
             tls_keys_dir = \"{d}/ssl\"\n\
             repo_dir = \"{d}/repo\"\n\
             pid_file = \"{d}/krill.pid\"\n\
             admin_token = \"secret\"\n\
             log_type = \"stderr\"\n\
             log_level = \"off\"\n\
             service_uri = \"https://krill.example.org:3000/\"\n\
             ta_support_enabled = true\n\
             ta_signer_enabled = true\n\
             roa_aggregate_threshold = {agg}\n\
             roa_deaggregate_threshold = {deagg}\n\
             {extra}\n",
            d = dir.display(),
            agg = opts.agg_threshold, deagg = opts.deagg_threshold,
            extra = opts.extra_toml,
        );
        fs::write(&conf_path, toml).map_err(|e| e.to_string())?;
        let mut config = Config::read_config(&conf_path).map_err(|e| {
            format!("config: {e}")
        })?;
        config.process().map_err(|e| format!("config: {e}"))?;
        for (key, value) in &opts.timing_override {
            if key == "suspend_child_after_inactive_seconds" {
                // (children that have not been heard of for that long are
                // suspended by the SuspendChildrenIfNeeded task)
                config.suspend_child_after_inactive_seconds = Some(*value);
                continue
            }
            let t = &mut config.issuance_timing;
            match key.as_str() {
                "timing_publish_next_hours" => {
                    t.timing_publish_next_hours = *value
                }
                "timing_publish_next_jitter_hours" => {
                    t.timing_publish_next_jitter_hours = *value
                }
                "timing_publish_hours_before_next" => {
                    t.timing_publish_hours_before_next = *value
                }
                "timing_roa_valid_weeks" => t.timing_roa_valid_weeks = *value,
                "timing_roa_reissue_weeks_before" => {
                    t.timing_roa_reissue_weeks_before = *value
                }
                "timing_aspa_valid_weeks" => {
                    t.timing_aspa_valid_weeks = *value
                }
                "timing_aspa_reissue_weeks_before" => {
                    t.timing_aspa_reissue_weeks_before = *value
                }
                "timing_bgpsec_valid_weeks" => {
                    t.timing_bgpsec_valid_weeks = *value
                }
                "timing_bgpsec_reissue_weeks_before" => {
                    t.timing_bgpsec_reissue_weeks_before = *value
                }
                "timing_child_certificate_valid_weeks" => {
                    t.timing_child_certificate_valid_weeks = *value
                }
                "timing_child_certificate_reissue_weeks_before" => {
                    t.timing_child_certificate_reissue_weeks_before = *value
                }
                other => return Err(format!("unknown timing key {other}")),
            }
        }
        Ok(config)
    }

    pub fn storage_uri(&self) -> StorageUri {
        self.krill.config().storage_uri.clone()
    }
}


//------------ Trace writer --------------------------------------------------

pub struct TraceOut {
    file: std::io::BufWriter<fs::File>,
    pub lines: usize,
}

impl TraceOut {
    pub fn create(path: &Path) -> Self {
        if let Some(parent) = path.parent() {
            let _ = fs::create_dir_all(parent);
        }
        TraceOut {
            file: std::io::BufWriter::new(fs::File::create(path).unwrap()),
            lines: 0,
        }
    }

    pub fn push(&mut self, value: &Value) {
        serde_json::to_writer(&mut self.file, value).unwrap();
        self.file.write_all(b"\n").unwrap();
        self.lines += 1;
    }

    pub fn finish(mut self) {
        self.file.flush().unwrap();
    }
}

/// Reads an NDJSON file.
pub fn read_ndjson(path: &Path) -> Vec<Value> {
    let text = fs::read_to_string(path).unwrap_or_else(|e| {
        eprintln!("cannot read {}: {e}", path.display());
        std::process::exit(2);
    });
    text.lines().filter(|l| !l.trim().is_empty()).map(|l| {
        serde_json::from_str(l).unwrap_or_else(|e| {
            eprintln!("bad json line in {}: {e}", path.display());
            std::process::exit(2);
        })
    }).collect()
}

pub fn str_arg<'a>(v: &'a Value, key: &str) -> &'a str {
    v.get(key).and_then(|x| x.as_str()).unwrap_or("")
}

pub fn int_arg(v: &Value, key: &str) -> i64 {
    v.get(key).and_then(|x| x.as_i64()).unwrap_or(0)
}

pub fn reset_event(id: &Value) -> Value {
    json!({"ev": "reset", "behaviour": id})
}
