//! run-ca: executes Krill.tla behaviours on a real in-process Krill
//! (TA proxy + signer, CAs, publication server, task queue) and records the
//! projected state after every action.

use std::collections::{BTreeMap, BTreeSet, HashMap};
use std::path::Path;
use std::str::FromStr;
use bytes::Bytes;
use krill::api::admin::{
    AddChildRequest, ParentCaReq, PublicationServerUris, RepositoryContact,
    UpdateChildRequest,
};
use krill::api::aspa::{AspaDefinition, AspaDefinitionUpdates};
use krill::api::roa::{RoaConfiguration, RoaConfigurationUpdates, RoaPayload};
use krill::commons::actor::Actor;
use krill::commons::storage::Ident;
use krill::commons::eventsourcing::Aggregate;
use krill::constants::TASK_QUEUE_NS;
use krill::server::mq::{Task, TaskResult};
use krill::server::scheduler::verif_process_task;
use rpki::ca::idexchange::{
    CaHandle, ChildHandle, ParentHandle, PublisherRequest, RepoInfo,
};
use rpki::ca::provisioning::{
    self, IssuanceRequest, RequestResourceLimit, ResourceClassName,
    RevocationRequest,
};
use rpki::crypto::KeyIdentifier;
use rpki::repository::resources::ResourceSet;
use rpki::uri;
use serde_json::{json, Map, Value};
use crate::common::*;
use crate::rp;

pub const ATOMS: &[(&str, &str, &str)] = &[
    // name, kind, value
    ("p1", "v4", "10.0.0.0/16"),
    ("p2", "v4", "10.1.0.0/16"),
    ("p3", "v4", "10.2.0.0/16"),
    ("p4", "v6", "2001:db8::/32"),
    ("a1", "asn", "AS65001"),
    ("a2", "asn", "AS65002"),
    ("a3", "asn", "AS65003"),
];

pub fn atom_value(name: &str) -> (&'static str, &'static str) {
    for (n, k, v) in ATOMS {
        if *n == name {
            return (k, v)
        }
    }
    panic!("unknown atom {name}")
}

pub fn resources(atoms: &[String]) -> ResourceSet {
    let mut asn = Vec::new();
    let mut v4 = Vec::new();
    let mut v6 = Vec::new();
    for a in atoms {
        let (k, v) = atom_value(a);
        match k {
            "asn" => asn.push(v),
            "v4" => v4.push(v),
            _ => v6.push(v),
        }
    }
    ResourceSet::from_strs(
        &asn.join(", "), &v4.join(", "), &v6.join(", ")
    ).unwrap()
}

/// Projects a resource set onto the atoms it contains. Anything that is not
/// a union of atoms shows up as the extra element "?".
pub fn atoms_of(set: &ResourceSet) -> Vec<String> {
    let mut res = Vec::new();
    for (n, _, _) in ATOMS {
        let one = resources(&[n.to_string()]);
        if set.contains(&one) {
            res.push(n.to_string());
        }
    }
    // anything beyond the union of the atoms found?
    let found = resources(&res);
    if !found.contains(set) {
        res.push("?".into());
    }
    res
}

fn atoms_of_json(v: &Value) -> Vec<String> {
    // ResourceSet serialises as {"asn": "...", "ipv4": "...", "ipv6": "..."}
    let asn = v.get("asn").and_then(|x| x.as_str()).unwrap_or("");
    let v4 = v.get("ipv4").and_then(|x| x.as_str()).unwrap_or("");
    let v6 = v.get("ipv6").and_then(|x| x.as_str()).unwrap_or("");
    match ResourceSet::from_strs(asn, v4, v6) {
        Ok(set) => atoms_of(&set),
        Err(_) => vec!["?".into()],
    }
}

fn str_list(v: &Value, key: &str) -> Vec<String> {
    v.get(key).and_then(|x| x.as_array()).map(|a| {
        a.iter().filter_map(|x| x.as_str().map(String::from)).collect()
    }).unwrap_or_default()
}

fn ca_handle(name: &str) -> CaHandle {
    CaHandle::from_str(name).unwrap()
}

/// Abstract ROA "<atom>|<asn atom>" -> payload string.
fn roa_payload(abs: &str) -> RoaPayload {
    let (p, a) = abs.split_once('|').unwrap();
    let (_, pfx) = atom_value(p);
    let asn = if a == "a0" {
        "AS0"
    } else {
        atom_value(a).1
    };
    RoaPayload::from_str(&format!("{pfx} => {}", &asn[2..])).unwrap()
}

fn asn_num(atom: &str) -> u32 {
    atom_value(atom).1[2..].parse().unwrap()
}

/// "AS65001" or 65001 as JSON -> number
fn asn_of_json(v: &Value) -> u32 {
    match v {
        Value::Number(n) => n.as_u64().unwrap_or(u64::MAX) as u32,
        Value::String(s) => s.trim_start_matches("AS").parse()
            .unwrap_or(u32::MAX),
        _ => u32::MAX,
    }
}

/// A provider authorisation in the vocabulary of Krill.tla.
fn aspa_tuple(customer: u32, mut providers: Vec<u32>) -> Vec<String> {
    providers.sort();
    vec![
        asn_atom(customer),
        format!("prov:{}", providers.iter().map(|p| asn_atom(*p))
            .collect::<Vec<_>>().join("+")),
    ]
}

fn asn_atom(num: u32) -> String {
    for (n, k, v) in ATOMS {
        if *k == "asn" && v[2..].parse::<u32>().ok() == Some(num) {
            return n.to_string()
        }
    }
    if num == 0 { "a0".into() } else { format!("?{num}") }
}

fn prefix_atom(pfx: &str) -> String {
    for (n, k, v) in ATOMS {
        if *k != "asn" && *v == pfx {
            return n.to_string()
        }
    }
    format!("?{pfx}")
}

pub struct World {
    pub env: Env,
    pub actor: Actor,
    /// key identifier -> abstract key name
    keys: HashMap<String, String>,
    /// (issuer key name, serial) -> abstract object id
    objs: HashMap<(String, String), String>,
    /// abstract object id -> (issuer key name, serial)
    serials: HashMap<String, (String, rpki::repository::x509::Serial)>,
    /// CAs ever created (handles)
    pub cas: Vec<String>,
    /// key identifier -> (ca, role)
    key_roles: HashMap<String, (String, String)>,
    /// the CA directly under the TA (its parent syncs are not modelled)
    pub top: String,
    /// serial-number level facts of the last projection
    pub last_keys: Value,
    pub rrdp_problems: Vec<String>,
    /// router keys by label ("k1", ...): the signing request and the key
    /// identifier
    rtr_keys: BTreeMap<String, (rpki::ca::csr::BgpsecCsr, String)>,
    /// slot name -> the CA it belongs to, for the second (third ...)
    /// parents of a CA: Krill.tla has one *slot* per (CA, parent) pair; a
    /// CA's first slot has the CA's own name
    pub slots: BTreeMap<String, String>,
    /// slot name -> the parent of the slot (set when the CA is created /
    /// the parent is added; kept when the parent is removed again)
    pub slot_parent: BTreeMap<String, String>,
    /// a task that has been claimed and processed but whose result has not
    /// been applied to the queue yet (StepHold ... Release): the window in
    /// which the scheduler thread is still "running" the task
    held: Option<(Box<krill::commons::storage::Ident>, TaskResult)>,
    /// children that are not hosted by this instance (Krill.tla: Foreign):
    /// the harness plays their part of the provisioning protocol
    pub foreign: BTreeMap<String, ForeignChild>,
}

/// A child CA of another operator: an identity key, the parent it was
/// added to, and its certificate keys by the role name of Krill.tla.
pub struct ForeignChild {
    pub parent: String,
    id_key: KeyIdentifier,
    keys: BTreeMap<String, KeyIdentifier>,
}

/// A BGPsec router key signing request for a fresh P-256 key.
fn make_router_csr() -> rpki::ca::csr::BgpsecCsr {
    use openssl::ec::{EcGroup, EcKey};
    use openssl::hash::MessageDigest;
    use openssl::nid::Nid;
    use openssl::x509::{X509NameBuilder, X509ReqBuilder};
    let group = EcGroup::from_curve_name(Nid::X9_62_PRIME256V1).unwrap();
    let key = openssl::pkey::PKey::from_ec_key(
        EcKey::generate(&group).unwrap()
    ).unwrap();
    let mut name = X509NameBuilder::new().unwrap();
    name.append_entry_by_text("CN", "ROUTER-0000FA01").unwrap();
    let name = name.build();
    let mut req = X509ReqBuilder::new().unwrap();
    req.set_version(0).unwrap();
    req.set_subject_name(&name).unwrap();
    req.set_pubkey(&key).unwrap();
    let mut exts = openssl::stack::Stack::new().unwrap();
    exts.push(
        openssl::x509::extension::ExtendedKeyUsage::new()
            .other("1.3.6.1.5.5.7.3.30").build().unwrap()
    ).unwrap();
    req.add_extensions(&exts).unwrap();
    req.sign(&key, MessageDigest::sha256()).unwrap();
    rpki::ca::csr::BgpsecCsr::decode(
        req.build().to_der().unwrap().as_slice()
    ).unwrap()
}

impl World {
    /// The signing request for the router key with the given label.
    fn rtr_key(&mut self, label: &str) -> (rpki::ca::csr::BgpsecCsr, String) {
        if !self.rtr_keys.contains_key(label) {
            let csr = make_router_csr();
            let ki = csr.public_key().key_identifier().to_string();
            self.rtr_keys.insert(label.to_string(), (csr, ki));
        }
        self.rtr_keys[label].clone()
    }

    /// The label of a router key ("?" + identifier if unknown).
    fn rtr_label(&self, ki: &str) -> String {
        self.rtr_keys.iter().find(|(_, v)| v.1.eq_ignore_ascii_case(ki))
            .map(|(k, _)| k.clone()).unwrap_or(format!("?{ki}"))
    }

    /// Adds / removes a router key definition: r = [AS atom, "rtr:<label>"].
    pub fn rtr_update(
        &mut self, ca: &str, r: &[String], add: bool,
    ) -> Result<(), String> {
        use krill::api::bgpsec::{
            BgpSecAsnKey, BgpSecDefinition, BgpSecDefinitionUpdates,
        };
        let asn = rpki::resources::Asn::from_u32(asn_num(&r[0]));
        let label = r[1].trim_start_matches("rtr:").to_string();
        let (csr, _) = self.rtr_key(&label);
        let updates = if add {
            BgpSecDefinitionUpdates {
                add: vec![BgpSecDefinition { asn, csr }], remove: vec![],
            }
        }
        else {
            BgpSecDefinitionUpdates {
                add: vec![],
                remove: vec![BgpSecAsnKey {
                    asn, key: csr.public_key().key_identifier(),
                }],
            }
        };
        self.env.krill.ca_manager().ca_bgpsec_definitions_update(
            ca_handle(ca), updates, &self.actor, &self.env.krill
        ).map_err(|e| e.to_string())
    }

    pub fn create(dir: &Path, opts: EnvOpts) -> Result<Self, String> {
        let env = Env::create(dir, opts)?;
        let mut world = World {
            env, actor: Actor::system("verif"),
            keys: HashMap::new(), objs: HashMap::new(),
            serials: HashMap::new(),
            cas: Vec::new(), rrdp_problems: Vec::new(),
            rtr_keys: BTreeMap::new(),
            key_roles: HashMap::new(), top: "A".into(),
            last_keys: Value::Null,
            slots: BTreeMap::new(),
            slot_parent: BTreeMap::from([("A".to_string(), "ta".to_string())]),
            held: None,
            foreign: BTreeMap::new(),
        };
        world.init_ta()?;
        Ok(world)
    }

    /// The CA a slot belongs to.
    pub fn ca_of(&self, slot: &str) -> String {
        self.slots.get(slot).cloned().unwrap_or(slot.to_string())
    }

    /// The slot of a CA's resource class under a parent (the CA's first
    /// slot if no slot is registered for the pair).
    pub fn slot_for(&self, ca: &str, parent: &str) -> String {
        for (slot, p) in &self.slot_parent {
            if p == parent && self.ca_of(slot) == ca {
                return slot.clone()
            }
        }
        ca.to_string()
    }

    /// All slot names: the CAs ever created and their further slots.
    fn all_slots(&self) -> Vec<String> {
        let mut res = self.cas.clone();
        for (slot, ca) in &self.slots {
            if self.cas.contains(ca) && !res.contains(slot) {
                res.push(slot.clone());
            }
        }
        for name in self.foreign.keys() {
            if !res.contains(name) {
                res.push(name.clone());
            }
        }
        res
    }

    //--- children that are not hosted here

    /// The identifiers of the certificate keys of such children.
    pub fn foreign_key_ids(&self) -> Vec<String> {
        self.foreign.values().flat_map(|f| f.keys.values()).map(|k| {
            k.to_string()
        }).collect()
    }

    /// Is this problem of the relying-party walk the missing publication
    /// point of a child that is not hosted here?
    pub fn foreign_point_problem(&self, problem: &str) -> bool {
        self.foreign.values().flat_map(|f| f.keys.values()).any(|k| {
            problem.eq_ignore_ascii_case(
                &format!("ca {k}: manifest missing")
            )
        })
    }

    /// ca_add_child for a child of another operator.
    pub fn add_foreign(
        &mut self, name: &str, parent: &str, res: &[String],
    ) -> Result<(), String> {
        let krill = self.env.krill.clone();
        // (a child that was removed may be added again: a new identity, the
        // same certificate keys)
        let id_cert = krill.signer().create_self_signed_id_cert()
            .map_err(|e| e.to_string())?;
        let id_key = id_cert.public_key().key_identifier();
        let req = AddChildRequest {
            handle: ChildHandle::from_str(name).unwrap(),
            resources: resources(res),
            id_cert,
        };
        krill.ca_manager().ca_add_child(
            &ca_handle(parent), req, &self.actor, &krill
        ).map_err(|e| e.to_string())?;
        let keys = self.foreign.remove(name).map(|f| f.keys)
            .unwrap_or_default();
        self.foreign.insert(name.to_string(), ForeignChild {
            parent: parent.to_string(), id_key, keys,
        });
        Ok(())
    }

    /// The certificate key of a foreign child in the given role, created
    /// on first use.
    fn foreign_key(&mut self, name: &str, role: &str)
        -> Result<KeyIdentifier, String>
    {
        if let Some(ki) = self.foreign.get(name).and_then(|f| f.keys.get(role))
        {
            return Ok(*ki)
        }
        let ki = self.env.krill.signer().create_key().map_err(|e| {
            e.to_string()
        })?;
        self.foreign.get_mut(name).ok_or("unknown foreign child")?
            .keys.insert(role.to_string(), ki);
        Ok(ki)
    }

    /// The name of the resource class the parent offers the child (the
    /// parent's first class if it currently offers nothing).
    fn foreign_class(&self, name: &str) -> ResourceClassName {
        let Some(f) = self.foreign.get(name) else {
            return ResourceClassName::from("0")
        };
        if let Ok(ca) = self.env.krill.ca_manager().get_ca(
            &ca_handle(&f.parent)
        ) {
            if let Ok(list) = ca.list(
                &ChildHandle::from_str(name).unwrap(),
                &self.env.krill.config().issuance_timing,
            ) && let Some(class) = list.classes().first() {
                return class.class_name().clone()
            }
            let v = serde_json::to_value(ca.as_ref()).unwrap_or_default();
            if let Some(first) = v["resources"].as_object().and_then(|m| {
                m.keys().next().cloned()
            }) {
                return ResourceClassName::from(first.as_str())
            }
        }
        ResourceClassName::from("0")
    }

    /// One provisioning request of a foreign child, as a signed message
    /// through CaManager::rfc6492 (the path of a remote child).
    /// kind: "list" | "issue" | "revoke"; role: the key; limit: None = no
    /// limit, Some(atoms) = a limit naming exactly these resources.
    pub fn foreign_request(
        &mut self, name: &str, kind: &str, role: &str,
        limit: Option<&[String]>,
    ) -> Result<(), String> {
        self.foreign_request_fam(name, kind, role, limit, "all")
    }

    /// ... fam: "all" = the limit names every resource family, "v4" = the
    /// limit names the IPv4 family only (the other families are not
    /// limited).
    pub fn foreign_request_fam(
        &mut self, name: &str, kind: &str, role: &str,
        limit: Option<&[String]>, fam: &str,
    ) -> Result<(), String> {
        let krill = self.env.krill.clone();
        let Some(f) = self.foreign.get(name) else {
            return Err("unknown foreign child".into())
        };
        let parent = f.parent.clone();
        let id_key = f.id_key;
        let sender = rpki::ca::idexchange::SenderHandle::from_str(name)
            .map_err(|e| e.to_string())?;
        let recipient: rpki::ca::idexchange::RecipientHandle
            = ca_handle(&parent).convert();
        let class = self.foreign_class(name);
        let msg = match kind {
            "list" => provisioning::Message::list(sender, recipient),
            "issue" => {
                let ki = self.foreign_key(name, role)?;
                let repo = RepoInfo::new(
                    uri::Rsync::from_str(&format!(
                        "rsync://elsewhere.example.org/repo/{name}/"
                    )).unwrap(),
                    Some(uri::Https::from_str(
                        "https://elsewhere.example.org/rrdp/notification.xml"
                    ).unwrap()),
                );
                let csr = krill.signer().sign_csr(&repo, "0", &ki)
                    .map_err(|e| format!("csr: {e}"))?;
                let mut lim = RequestResourceLimit::new();
                if let Some(atoms) = limit {
                    // every family is named: the certificate is to carry
                    // exactly these resources
                    let set = resources(atoms);
                    if fam == "v4" {
                        lim.with_ipv4(set.ipv4().clone());
                    }
                    else {
                        lim.with_asn(set.asn().clone());
                        lim.with_ipv4(set.ipv4().clone());
                        lim.with_ipv6(set.ipv6().clone());
                    }
                }
                provisioning::Message::issue(
                    sender, recipient, IssuanceRequest::new(class, lim, csr),
                )
            }
            "revoke" => {
                let ki = self.foreign_key(name, role)?;
                provisioning::Message::revoke(
                    sender, recipient, RevocationRequest::new(class, ki),
                )
            }
            other => return Err(format!("unknown request kind {other}")),
        };
        let cms = krill.signer().create_rfc6492_cms(msg, &id_key)
            .map_err(|e| format!("sign: {e}"))?;
        let reply = krill.ca_manager().rfc6492(
            &ca_handle(&parent), cms.to_bytes(), Some("foreign".into()),
            &self.actor, &krill,
        ).map_err(|e| e.to_string())?;
        // the reply must be a signed message of the parent that is not an
        // error response
        let cms = provisioning::ProvisioningCms::decode(reply.as_ref())
            .map_err(|e| format!("reply undecodable: {e}"))?;
        match cms.into_message().into_payload() {
            provisioning::Payload::ErrorResponse(e) => {
                Err(format!("error response: {e}"))
            }
            _ => Ok(()),
        }
    }

    /// A restart: a new runtime on the same storage.
    pub fn restart(&mut self, timing: Option<Vec<(String, u32)>>)
        -> Result<(), String>
    {
        let dir = self.env.dir.clone();
        let mut opts = self.env.opts.clone();
        if let Some(timing) = timing {
            opts.timing_override = timing;
        }
        let seed = self.env.mem_seed;
        if opts.memory {
            return Ok(())
        }
        let env = Env::open(&dir, opts, seed)?;
        self.env = env;
        Ok(())
    }

    fn init_ta(&mut self) -> Result<(), String> {
        let krill = &self.env.krill;
        let uris = PublicationServerUris {
            rrdp_base_uri: uri::Https::from_str(
                "https://krill.example.org:3000/rrdp/"
            ).unwrap(),
            rsync_jail: uri::Rsync::from_str(
                "rsync://krill.example.org/repo/"
            ).unwrap(),
        };
        krill.repo_manager().init(uris, krill).map_err(|e| e.to_string())?;
        krill.ca_manager().ta_init_fully_embedded(
            uri::Rsync::from_str("rsync://krill.example.org/ta/ta.cer").unwrap(),
            vec![uri::Https::from_str(
                "https://krill.example.org:3000/ta/ta.cer"
            ).unwrap()],
            None,
            &self.actor,
            &self.env.slow,
        ).map_err(|e| e.to_string())
    }

    //--- actions

    pub fn add_ca(&mut self, name: &str) -> Result<(), String> {
        let krill = &self.env.krill;
        let handle = ca_handle(name);
        krill.ca_manager().init_ca(handle.clone(), krill).map_err(|e| {
            e.to_string()
        })?;
        if !self.cas.contains(&name.to_string()) {
            self.cas.push(name.into());
        }
        let pub_req = {
            let ca = krill.ca_manager().get_ca(&handle).map_err(|e| {
                e.to_string()
            })?;
            PublisherRequest::new(
                ca.id_cert().base64.clone(), handle.convert(), None,
            )
        };
        krill.repo_manager().create_publisher(
            pub_req, &self.actor
        ).map_err(|e| e.to_string())?;
        let repo_response = krill.repo_manager().repository_response(
            &handle.convert(), krill
        ).map_err(|e| e.to_string())?;
        let contact = RepositoryContact::try_from_response(
            repo_response
        ).map_err(|e| e.to_string())?;
        krill.ca_manager().update_repo(
            handle, contact, false, &self.actor, &self.env.slow,
        ).map_err(|e| e.to_string())
    }

    pub fn add_parent(
        &mut self, child: &str, parent: &str, res: &[String],
    ) -> Result<(), String> {
        let krill = &self.env.krill;
        let child_handle = ca_handle(child);
        let parent_handle = ca_handle(parent);
        let known = parent != "ta" && krill.ca_manager().get_ca(
            &parent_handle
        ).map(|p| p.get_child(&child_handle.convert()).is_ok())
            .unwrap_or(false);
        let response = if known {
            // a removed parent is added again: the parent's response for
            // the child it already knows
            krill.ca_manager().ca_parent_response(
                &parent_handle, child_handle.convert(), krill.service_uri()
            ).map_err(|e| e.to_string())?
        }
        else {
            let ca = krill.ca_manager().get_ca(&child_handle).map_err(|e| {
                e.to_string()
            })?;
            let id_cert = ca.child_request().validate().map_err(|e| {
                e.to_string()
            })?;
            let req = AddChildRequest {
                handle: child_handle.convert(),
                resources: resources(res),
                id_cert,
            };
            krill.ca_manager().ca_add_child(
                &parent_handle, req, &self.actor, krill
            ).map_err(|e| e.to_string())?
        };
        // (as server/manager.rs ca_parent_add_or_update does: verify that
        // the new parent answers before adding it)
        let contact = krill::api::admin::ParentCaContact
            ::try_from_rfc8183_parent_response(response.clone())
            .map_err(|e| e.to_string())?;
        krill.ca_manager().get_entitlements_from_contact(
            &child_handle, &parent_handle.convert(), &contact, false,
            &self.env.slow,
        ).map_err(|e| e.to_string())?;
        let req = ParentCaReq {
            handle: parent_handle.convert(), response
        };
        krill.ca_manager().ca_parent_add_or_update(
            child_handle, req, &self.actor, krill
        ).map_err(|e| e.to_string())
    }

    pub fn remove_parent(
        &mut self, child: &str, parent: &str
    ) -> Result<(), String> {
        self.env.krill.ca_manager().ca_parent_remove(
            ca_handle(child), ParentHandle::from_str(parent).unwrap(),
            &self.actor, &self.env.slow
        ).map_err(|e| e.to_string())
    }

    pub fn child_update(
        &mut self, parent: &str, child: &str, res: Option<&[String]>,
        suspend: Option<bool>,
    ) -> Result<(), String> {
        let req = UpdateChildRequest {
            id_cert: None,
            resources: res.map(resources),
            suspend,
            resource_class_name_mapping: None,
        };
        self.env.krill.ca_manager().ca_child_update(
            &ca_handle(parent), ChildHandle::from_str(child).unwrap(), req,
            &self.actor, &self.env.krill
        ).map_err(|e| e.to_string())
    }

    /// Maps the parent's class name to another name towards the child.
    pub fn child_map(
        &mut self, parent: &str, child: &str, in_parent: &str,
        for_child: &str,
    ) -> Result<(), String> {
        let req = UpdateChildRequest {
            id_cert: None, resources: None, suspend: None,
            resource_class_name_mapping: Some(
                krill::api::admin::ResourceClassNameMapping {
                    name_in_parent: in_parent.into(),
                    name_for_child: for_child.into(),
                }
            ),
        };
        self.env.krill.ca_manager().ca_child_update(
            &ca_handle(parent), ChildHandle::from_str(child).unwrap(), req,
            &self.actor, &self.env.krill
        ).map_err(|e| e.to_string())
    }

    pub fn child_remove(
        &mut self, parent: &str, child: &str
    ) -> Result<(), String> {
        self.env.krill.ca_manager().ca_child_remove(
            &ca_handle(parent), ChildHandle::from_str(child).unwrap(),
            &self.actor, &self.env.krill
        ).map_err(|e| e.to_string())
    }

    pub fn delete_ca(&mut self, name: &str) -> Result<(), String> {
        self.env.krill.ca_manager().delete_ca(
            &ca_handle(name), &self.actor, &self.env.slow
        ).map_err(|e| e.to_string())
    }

    pub fn roa_update(
        &mut self, ca: &str, add: &[String], del: &[String]
    ) -> Result<(), String> {
        let updates = RoaConfigurationUpdates {
            added: add.iter().map(|r| {
                RoaConfiguration::from(roa_payload(r))
            }).collect(),
            removed: del.iter().map(|r| roa_payload(r)).collect(),
        };
        self.env.krill.ca_manager().ca_routes_update(
            ca_handle(ca), updates, &self.actor, &self.env.krill
        ).map_err(|e| e.to_string())
    }

    pub fn aspa_update(
        &mut self, ca: &str, customer: &str, providers: &[String],
    ) -> Result<(), String> {
        let cust = asn_num(customer);
        let updates = if providers.is_empty() {
            AspaDefinitionUpdates {
                add_or_replace: vec![],
                remove: vec![
                    serde_json::from_value(json!(cust))
                        .map_err(|e| e.to_string())?
                ],
            }
        }
        else {
            let provs: Vec<String> = providers.iter().map(|p| {
                format!("AS{}", asn_num(p))
            }).collect();
            let def = AspaDefinition::from_str(
                &format!("AS{cust} => {}", provs.join(", "))
            ).map_err(|e| e.to_string())?;
            AspaDefinitionUpdates {
                add_or_replace: vec![def], remove: vec![]
            }
        };
        self.env.krill.ca_manager().ca_aspas_definitions_update(
            ca_handle(ca), updates, &self.actor, &self.env.krill
        ).map_err(|e| e.to_string())
    }

    pub fn roll_init(&mut self, ca: &str) -> Result<(), String> {
        self.env.krill.ca_manager().ca_keyroll_init(
            ca_handle(ca), chrono::Duration::seconds(0), &self.actor,
            &self.env.krill
        ).map_err(|e| e.to_string())
    }

    pub fn roll_activate(&mut self, ca: &str) -> Result<(), String> {
        self.env.krill.ca_manager().ca_keyroll_activate(
            ca_handle(ca), chrono::Duration::seconds(0), &self.actor,
            &self.env.krill
        ).map_err(|e| e.to_string())
    }

    /// Claims and processes the earliest due task like scheduler::run does.
    ///
    /// Returns the name of the task or None if nothing is due.
    pub fn step_task(&mut self) -> Result<Option<String>, String> {
        let krill = &self.env.krill;
        let Some((key, value)) = krill.tasks().pop() else {
            return Ok(None)
        };
        let name = key.as_str().split_once('-').map(|x| x.1).unwrap_or("")
            .to_string();
        let task: Task = serde_json::from_value(value).map_err(|e| {
            format!("cannot parse task {key}: {e}")
        })?;
        let res = verif_process_task(
            &self.env.slow, task, self.env.started
        ).map_err(|e| format!("fatal task error in {name}: {e}"))?;
        let tasks = krill.tasks();
        match res {
            TaskResult::Done => tasks.finish(&key),
            TaskResult::FollowUp(task, prio) => {
                tasks.schedule_and_finish_existing(task, prio)
            }
            TaskResult::Reschedule(prio) => tasks.reschedule(&key, prio),
        }.map_err(|e| format!("queue error after {name}: {e}"))?;
        Ok(Some(name))
    }

    pub fn has_due_task(&self) -> bool {
        self.project_tasks()["due"].as_array().map(|a| !a.is_empty())
            .unwrap_or(false)
    }

    /// A hash of the abstract state (to detect a fixed point).
    pub fn signature(&mut self) -> i64 {
        use std::hash::{Hash, Hasher};
        let mut abs = self.project_abs();
        // (the wall-clock reading is not part of the state)
        if let Some(m) = abs.as_object_mut() {
            m.remove("now");
        }
        let mut h = std::collections::hash_map::DefaultHasher::new();
        abs.to_string().hash(&mut h);
        (h.finish() >> 2) as i64
    }

    /// Processes the due task with the given name (any of the due tasks
    /// may be the next one the scheduler picks: their time stamps have a
    /// resolution of one second). Falls back to the earliest due task.
    /// Is a task of exactly that name due?
    pub fn has_due_task_named(&self, wanted: &str) -> bool {
        self.project_tasks()["due"].as_array().map(|d| {
            d.iter().any(|t| t.as_str() == Some(wanted))
        }).unwrap_or(false)
    }

    pub fn step_named(&mut self, wanted: &str) -> Result<Option<String>, String> {
        self.step_named_opt(wanted, false)
    }

    /// ... with hold: the result is not applied (see `held`); without a
    /// due task of that name nothing happens.
    pub fn step_named_opt(
        &mut self, wanted: &str, hold: bool
    ) -> Result<Option<String>, String> {
        let krill = self.env.krill.clone();
        let store = krill.storage().open(TASK_QUEUE_NS).map_err(|e| {
            e.to_string()
        })?;
        let now = chrono::Utc::now().timestamp_millis();
        let pending = Ident::make("pending");
        let mut found = None;
        for key in store.keys(Some(pending), "").map_err(|e| e.to_string())? {
            // (the class name at the end of a ResourceClassRemoved task is
            // the CA's numbering: matched up to it)
            let stem = wanted.strip_suffix("_rcn_0").map(|x| {
                format!("{x}_rcn_")
            });
            if let Some((ts, name)) = key.as_str().split_once('-')
                && (name == wanted
                    || stem.as_ref().map(|s| name.starts_with(s.as_str()))
                        .unwrap_or(false))
                && ts.parse::<i64>().unwrap_or(i64::MAX) <= now
            {
                found = Some((key.clone(), name.to_string()));
                break
            }
        }
        let Some((key, actual)) = found else {
            if hold {
                return Ok(None)
            }
            return self.step_task()
        };
        let wanted = actual.as_str();
        let value: Value = store.get(Some(pending), &key).map_err(|e| {
            e.to_string()
        })?.ok_or("task vanished")?;
        // Claim it the way the queue does: move it to the running scope
        // under a key with the claim time.
        let running = Ident::make("running");
        let running_key = Ident::boxed_from_string(
            format!("{now}-{wanted}")
        ).map_err(|e| e.to_string())?;
        store.store(Some(running), &running_key, &value).map_err(|e| {
            e.to_string()
        })?;
        store.drop_key(Some(pending), &key).map_err(|e| e.to_string())?;
        let task: Task = serde_json::from_value(value).map_err(|e| {
            format!("cannot parse task {key}: {e}")
        })?;
        let res = verif_process_task(
            &self.env.slow, task, self.env.started
        ).map_err(|e| format!("fatal task error in {wanted}: {e}"))?;
        if hold {
            // the task stays in the running state until Release
            self.held = Some((running_key, res));
            return Ok(Some(wanted.to_string()))
        }
        self.apply_result(&running_key, res, wanted)?;
        Ok(Some(wanted.to_string()))
    }

    /// Applies the result of a processed task the way scheduler::run does.
    fn apply_result(
        &mut self, running_key: &krill::commons::storage::Ident,
        res: TaskResult, name: &str,
    ) -> Result<(), String> {
        let krill = self.env.krill.clone();
        let tasks = krill.tasks();
        match res {
            TaskResult::Done => tasks.finish(running_key),
            TaskResult::FollowUp(task, prio) => {
                tasks.schedule_and_finish_existing(task, prio)
            }
            TaskResult::Reschedule(prio) => {
                tasks.reschedule(running_key, prio)
            }
        }.map_err(|e| format!("queue error after {name}: {e}"))
    }

    /// The scheduler thread finishes the task it was holding.
    pub fn release(&mut self) -> Result<(), String> {
        if let Some((key, res)) = self.held.take() {
            let name = key.as_str().to_string();
            self.apply_result(&key, res, &name)?;
        }
        Ok(())
    }

    /// Runs due tasks until none is left (bounded).
    pub fn pump(&mut self, max: usize) -> Result<Vec<String>, String> {
        let mut done = Vec::new();
        for _ in 0..max {
            match self.step_task()? {
                Some(name) => done.push(name),
                None => return Ok(done),
            }
        }
        Err(format!("tasks did not settle within {max} steps: {done:?}"))
    }

    /// Runs one maintenance task out of band (as if its time had come).
    pub fn run_task(&mut self, task: Task) -> Result<(), String> {
        verif_process_task(
            &self.env.slow, task, self.env.started
        ).map(|_| ()).map_err(|e| format!("fatal task error: {e}"))
    }

    //--- projection

    fn key_name(&mut self, key_id: &str) -> String {
        let n = self.keys.len() + 1;
        self.keys.entry(key_id.to_string()).or_insert_with(|| {
            format!("k{n}")
        }).clone()
    }

    fn obj_id(
        &mut self, issuer: &str, serial: &str,
        raw: Option<rpki::repository::x509::Serial>,
    ) -> String {
        let n = self.objs.len() + 1;
        let id = self.objs.entry(
            (issuer.into(), serial.into())
        ).or_insert_with(|| format!("o{n}")).clone();
        if let Some(raw) = raw {
            self.serials.entry(id.clone()).or_insert((issuer.into(), raw));
        }
        id
    }

    fn project_key(&mut self, key: &Value) -> Value {
        // CertifiedKeyInfo
        let id = key.get("key_id").and_then(|x| x.as_str()).unwrap_or("");
        let name = self.key_name(id);
        let res = key.get("incoming_cert").and_then(|c| {
            c.get("resources")
        }).map(atoms_of_json).unwrap_or_default();
        json!({
            "key": name,
            "res": res,
            "req": !key.get("request").map(|r| r.is_null()).unwrap_or(true),
        })
    }

    fn project_ca(&mut self, name: &str) -> Value {
        let handle = ca_handle(name);
        let ca = match self.env.krill.ca_manager().get_ca(&handle) {
            Ok(ca) => ca,
            Err(_) => return json!({"exists": false}),
        };
        let info = serde_json::to_value(ca.as_ca_info()).unwrap();
        let mut rcs = Map::new();
        let mut rc_names: Vec<String> = info["resource_classes"].as_object()
            .map(|m| m.keys().cloned().collect()).unwrap_or_default();
        rc_names.sort();
        for rcn in rc_names {
            let rc = &info["resource_classes"][&rcn];
            let parent = rc["parent_handle"].as_str().unwrap_or("")
                .to_string();
            let keys = &rc["keys"];
            // serde: externally tagged enum {"active": {...}}
            let mut out = Map::new();
            out.insert("parent".into(), json!(parent));
            let (state, body) = keys.as_object().and_then(|m| {
                m.iter().next()
            }).map(|(k, v)| (k.clone(), v.clone())).unwrap_or_default();
            out.insert("state".into(), json!(state));
            for (field, role) in [
                ("active_key", "cur"), ("new_key", "new"),
                ("old_key", "old"),
            ] {
                if let Some(k) = body.get(field) {
                    out.insert(role.into(), self.project_key(k));
                }
            }
            if let Some(p) = body.get("pending_key") {
                let id = p["key_id"].as_str().unwrap_or("");
                let name = self.key_name(id);
                out.insert("pend".into(), json!({"key": name}));
            }
            rcs.insert(rcn, Value::Object(out));
        }
        // pending requests per parent, as the CA reports them
        let mut reqs = Map::new();
        for p in ca.parents() {
            reqs.insert(p.to_string(), json!(ca.has_pending_requests(p)));
        }
        let mut children = Map::new();
        let mut child_names: Vec<String>
            = ca.children().map(|c| c.to_string()).collect();
        child_names.sort();
        for child in child_names {
            let ch = ChildHandle::from_str(&child).unwrap();
            if let Ok(details) = ca.get_child(&ch) {
                let d = serde_json::to_value(details).unwrap();
                let state = d["state"].as_str().unwrap_or("?").to_string();
                let ent = atoms_of_json(&d["resources"]);
                children.insert(child, json!({
                    "ent": ent, "state": state,
                }));
            }
        }
        let routes: BTreeSet<String> = ca.configured_roas().iter().map(|r| {
            let p = r.roa_configuration.payload;
            format!(
                "{}|{}",
                prefix_atom(&p.prefix.to_string()),
                asn_atom(p.asn.to_string().trim_start_matches("AS").parse().unwrap_or(u32::MAX))
            )
        }).collect();
        let aspas = serde_json::to_value(ca.aspas_definitions_show())
            .unwrap_or(Value::Null);
        json!({
            "exists": true,
            "version": ca.version(),
            "parents": ca.parents().map(|p| p.to_string())
                .collect::<Vec<_>>(),
            "ent": atoms_of(&ca.all_resources()),
            "rcs": rcs,
            "reqs": reqs,
            "children": children,
            "routes": routes,
            "aspas": aspas,
        })
    }

    fn project_tasks(&self) -> Value {
        let store = self.env.krill.storage().open(TASK_QUEUE_NS).unwrap();
        let now = chrono::Utc::now().timestamp_millis();
        let mut due = Vec::new();
        let mut later = Vec::new();
        for key in store.keys(Some(Ident::make("pending")), "").unwrap() {
            if let Some((ts, name)) = key.as_str().split_once('-') {
                let ts: i64 = ts.parse().unwrap_or(0);
                if ts <= now + 2000 {
                    due.push(name.to_string())
                }
                else {
                    later.push(name.to_string())
                }
            }
        }
        let mut running = Vec::new();
        for key in store.keys(Some(Ident::make("running")), "").unwrap() {
            running.push(key.to_string());
        }
        due.sort();
        later.sort();
        json!({"due": due, "later": later, "running": running})
    }

    /// The content the publication server holds for each publisher
    /// (including changes not yet visible in RRDP).
    pub fn pubserver_objects(&self) -> (rp::Objects, Map<String, Value>) {
        let mut objects = rp::Objects::new();
        let mut per = Map::new();
        let repo = self.env.krill.repo_manager();
        let mut publishers = repo.publishers().unwrap_or_default();
        publishers.sort_by_key(|p| p.to_string());
        for p in publishers {
            let mut uris = Vec::new();
            if let Ok(details) = repo.get_publisher_details(p.clone()) {
                let d = serde_json::to_value(&details).unwrap();
                for f in d["current_files"].as_array().cloned()
                    .unwrap_or_default()
                {
                    let uri = f["uri"].as_str().unwrap_or("").to_string();
                    let b64 = f["base64"].as_str().unwrap_or("");
                    use base64::Engine;
                    let data = base64::engine::general_purpose::STANDARD
                        .decode(b64).unwrap_or_default();
                    uris.push(uri.clone());
                    objects.insert(uri, Bytes::from(data));
                }
            }
            uris.sort();
            per.insert(p.to_string(), json!(uris));
        }
        (objects, per)
    }

    fn ta_cert(&self) -> Option<Bytes> {
        let proxy = self.env.krill.ca_manager().get_trust_anchor_proxy()
            .ok()?;
        Some(proxy.get_ta_details().ok()?.cert.to_bytes())
    }

    fn project_rp(&mut self, objects: &rp::Objects) -> Value {
        let Some(ta) = self.ta_cert() else {
            return json!({"problems": ["no ta cert"]})
        };
        let res = rp::walk(ta, objects);
        let mut points = Map::new();
        for p in &res.points {
            let key = self.key_name(&p.key);
            let issuer = if p.issuer.is_empty() {
                "none".to_string()
            } else {
                self.key_name(&p.issuer)
            };
            let mut objs = Map::new();
            for (name, fact) in &p.objects {
                let id = if fact.kind == "crl" {
                    "crl".to_string()
                } else {
                    self.obj_id(&key, &fact.serial, fact.serial_raw)
                };
                let payload: Vec<String> = match fact.kind {
                    "cer" => fact.payload.iter().map(|k| {
                        self.key_name(k)
                    }).collect(),
                    _ => fact.payload.clone(),
                };
                objs.insert(name.clone(), json!({
                    "id": id, "kind": fact.kind, "payload": payload,
                }));
            }
            // Which of the objects ever seen under this key are on the CRL.
            let mut revoked: Vec<String> = Vec::new();
            if let Some(crl) = p.crl.as_ref() {
                for (id, (issuer, serial)) in &self.serials {
                    if issuer == &key && crl.contains(*serial) {
                        revoked.push(id.clone());
                    }
                }
            }
            revoked.sort();
            points.insert(key, json!({
                "issuer": issuer,
                "certid": if p.issuer.is_empty() {
                    "ta".to_string()
                } else {
                    let issuer = self.key_name(&p.issuer);
                    self.obj_id(&issuer, &p.serial, p.serial_raw)
                },
                "res": p.resources.as_ref().map(atoms_of)
                    .unwrap_or_default(),
                "mft": p.mft_number.map(|n| n as u64),
                "crln": p.crl_number.map(|n| n as u64),
                "mft_this": p.mft_this_update,
                "mft_next": p.mft_next_update,
                "revoked": revoked,
                "objs": objs,
            }));
        }
        let vrps: BTreeSet<Vec<String>> = res.vrps.iter().map(|v| {
            vec![prefix_atom(&v.0), asn_atom(v.2), self.key_name(&v.3),
                 v.1.to_string()]
        }).collect();
        let mut aspas: Vec<Value> = Vec::new();
        for a in &res.aspas {
            let provs: Vec<String> = a.1.iter().map(|p| {
                asn_atom(*p)
            }).collect();
            aspas.push(json!([asn_atom(a.0), provs, self.key_name(&a.2)]));
        }
        json!({
            "points": points,
            "vrps": vrps,
            "aspas": aspas,
            "problems": res.problems,
            "orphans": res.orphans,
            "files": res.files_total,
            "accepted": res.files_accepted,
        })
    }

    fn project_status(&self, name: &str) -> Value {
        match self.env.krill.ca_manager().get_ca_status(&ca_handle(name)) {
            Ok(status) => serde_json::to_value(&status).unwrap_or(Value::Null),
            Err(_) => Value::Null,
        }
    }

    /// The complete projection.
    pub fn project(&mut self, with_status: bool) -> Value {
        let mut cas = BTreeMap::new();
        let mut names = vec!["ta".to_string()];
        names.extend(self.cas.iter().cloned());
        for name in &names {
            if name == "ta" {
                continue
            }
            cas.insert(name.clone(), self.project_ca(name));
        }
        let (objects, per_publisher) = self.pubserver_objects();
        let rp = self.project_rp(&objects);
        let mut status = Map::new();
        if with_status {
            for name in &names {
                if name != "ta" {
                    status.insert(name.clone(), self.project_status(name));
                }
            }
        }
        json!({
            "cas": cas,
            "ta": self.project_ta(),
            "tasks": self.project_tasks(),
            "pub": per_publisher,
            "rp": rp,
            "status": status,
        })
    }

    fn project_ta(&mut self) -> Value {
        let Ok(proxy) = self.env.krill.ca_manager().get_trust_anchor_proxy()
        else {
            return Value::Null
        };
        let d = serde_json::to_value(proxy.as_ref()).unwrap_or(Value::Null);
        let mut children = Map::new();
        if let Some(map) = d.get("child_details").and_then(|c| c.as_object())
        {
            for (name, c) in map {
                children.insert(name.clone(), json!({
                    "ent": atoms_of_json(&c["resources"]),
                    "state": c["state"].as_str().unwrap_or("?"),
                }));
            }
        }
        json!({
            "children": children,
            "open_request": proxy.has_open_request(),
        })
    }
}

//------------ abstract projection (the variables of Krill.tla) --------------

const ROLES: [&str; 3] = ["cur", "new", "old"];

fn atoms_json(v: &[String]) -> Value {
    json!(v)
}

impl World {
    /// key identifier -> (ca, role); refreshed from the live CAs, entries
    /// of deleted CAs keep their last known value.
    fn refresh_key_roles(&mut self, cas: &BTreeMap<String, Value>) {
        for (ca_name, ca) in cas {
            let Some(rcs) = ca.get("resources").and_then(|r| r.as_object())
            else { continue };
            for rc in rcs.values() {
                // the slot of the class: by its parent
                let name = &self.slot_for(
                    ca_name, rc["parent_handle"].as_str().unwrap_or("")
                );
                let ks = &rc["key_state"];
                let Some((_, body)) = ks.as_object().and_then(|m| {
                    m.iter().next()
                }) else { continue };
                let mut set = |id: Option<&str>, role: &str| {
                    if let Some(id) = id {
                        self.key_roles.insert(
                            id.to_string(), (name.clone(), role.to_string())
                        );
                    }
                };
                match body {
                    Value::Array(items) => {
                        // tuple variants: [pending|new, current] or
                        // [current, old]
                        let state = ks.as_object().unwrap().keys().next()
                            .unwrap().as_str();
                        match state {
                            "roll_pending" => {
                                set(items[0]["key_id"].as_str(), "pend");
                                set(items[1]["key_id"].as_str(), "cur");
                            }
                            "roll_new" => {
                                set(items[0]["key_id"].as_str(), "new");
                                set(items[1]["key_id"].as_str(), "cur");
                            }
                            "roll_old" => {
                                set(items[0]["key_id"].as_str(), "cur");
                                set(items[1]["key"]["key_id"].as_str(), "old");
                            }
                            _ => { }
                        }
                    }
                    Value::Object(_) => {
                        let state = ks.as_object().unwrap().keys().next()
                            .unwrap().as_str();
                        match state {
                            "pending" => set(body["key_id"].as_str(), "pend"),
                            _ => set(body["key_id"].as_str(), "cur"),
                        }
                    }
                    _ => { }
                }
            }
        }
    }

    /// The state of all CAs in the vocabulary of Krill.tla.
    pub fn project_abs(&mut self) -> Value {
        let mut full: BTreeMap<String, Value> = BTreeMap::new();
        for name in self.cas.clone() {
            if let Ok(ca) = self.env.krill.ca_manager().get_ca(
                &ca_handle(&name)
            ) {
                full.insert(
                    name.clone(), serde_json::to_value(ca.as_ref()).unwrap()
                );
            }
        }
        self.refresh_key_roles(&full);
        for (name, f) in &self.foreign {
            for (role, ki) in &f.keys {
                self.key_roles.insert(
                    ki.to_string(), (name.clone(), role.clone())
                );
            }
        }

        let mut exists = Map::new();
        let mut parent = Map::new();
        let mut ent = Map::new();
        let mut cstate = Map::new();
        let mut iss = Map::new();
        let mut sus = Map::new();
        let mut rc = Map::new();
        let mut rcv = Map::new();
        let mut req = Map::new();
        let mut routes = Map::new();
        let mut odd: Vec<String> = Vec::new();
        let no_certs = || json!({"cur": [], "new": [], "old": []});

        let mut hasp = Map::new();
        for slot in self.all_slots() {
            // the CA the slot belongs to; what krill keeps per CA is
            // projected at the CA's first slot
            let name = self.ca_of(&slot);
            let first = name == slot;
            exists.insert(
                slot.clone(), json!(first && full.contains_key(&name))
            );
            // defaults
            rc.insert(slot.clone(), json!("none"));
            rcv.insert(slot.clone(), no_certs());
            req.insert(slot.clone(), json!([]));
            routes.insert(slot.clone(), json!([]));
            if !ent.contains_key(&slot) {
                ent.insert(slot.clone(), json!([]));
                cstate.insert(slot.clone(), json!("none"));
                iss.insert(slot.clone(), no_certs());
                sus.insert(slot.clone(), no_certs());
            }
            if let Some(f) = self.foreign.get(&slot) {
                // a child that is not hosted here: only its parent's record
                // of it exists (projected with the parent's children)
                parent.insert(slot.clone(), json!(f.parent));
                hasp.insert(slot.clone(), json!(true));
                continue
            }
            let Some(ca) = full.get(&name) else { continue };
            // parents
            let parents: Vec<String> = ca["parents"].as_object().map(|m| {
                m.keys().cloned().collect()
            }).unwrap_or_default();
            let my_parent = self.slot_parent.get(&slot).cloned()
                .unwrap_or("none".into());
            if first {
                for p in &parents {
                    if self.slot_for(&name, p) == name
                        && self.slot_parent.get(&name) != Some(p)
                    {
                        odd.push(format!("{name}: parent {p} without slot"));
                    }
                }
            }
            parent.insert(slot.clone(), json!(my_parent));
            hasp.insert(slot.clone(), json!(parents.contains(&my_parent)));
            // the resource class of the slot: the one under its parent (at
            // most one in this model: parents have one class)
            let all_rcs = ca["resources"].as_object().cloned()
                .unwrap_or_default();
            let rcs: Vec<&Value> = all_rcs.values().filter(|rc| {
                rc["parent_handle"].as_str() == Some(my_parent.as_str())
            }).collect();
            if rcs.len() > 1 {
                odd.push(format!(
                    "{name}: several resource classes under {my_parent}"
                ));
            }
            if first {
                for rc in all_rcs.values() {
                    let p = rc["parent_handle"].as_str().unwrap_or("");
                    if self.slot_for(&name, p) == name
                        && self.slot_parent.get(&name).map(|x| x.as_str())
                            != Some(p)
                    {
                        odd.push(format!("{name}: class under {p} without slot"));
                    }
                }
            }
            if let Some(rcv_rc) = rcs.first() {
                let ks = &rcv_rc["key_state"];
                let state = ks.as_object().and_then(|m| {
                    m.keys().next().cloned()
                }).unwrap_or_default();
                rc.insert(slot.clone(), json!(state));
                let body = &ks[&state];
                let mut certs = Map::new();
                for r in ROLES {
                    certs.insert(r.into(), json!([]));
                }
                let mut reqs: Vec<&str> = Vec::new();
                let mut certified = |k: &Value, role: &str,
                                     certs: &mut Map<String, Value>,
                                     reqs: &mut Vec<&'static str>| {
                    certs.insert(
                        role.into(),
                        json!(atoms_of_json(&k["incoming_cert"]["resources"]))
                    );
                    if !k["request"].is_null() {
                        reqs.push(match role {
                            "cur" => "cur", "new" => "new", _ => "oldcert",
                        });
                    }
                };
                let pending = |k: &Value, reqs: &mut Vec<&'static str>| {
                    if !k["request"].is_null() {
                        reqs.push("pend");
                    }
                };
                match state.as_str() {
                    "pending" => pending(body, &mut reqs),
                    "active" => certified(body, "cur", &mut certs, &mut reqs),
                    "roll_pending" => {
                        pending(&body[0], &mut reqs);
                        certified(&body[1], "cur", &mut certs, &mut reqs);
                    }
                    "roll_new" => {
                        certified(&body[0], "new", &mut certs, &mut reqs);
                        certified(&body[1], "cur", &mut certs, &mut reqs);
                    }
                    "roll_old" => {
                        certified(&body[0], "cur", &mut certs, &mut reqs);
                        certified(
                            &body[1]["key"], "old", &mut certs, &mut reqs
                        );
                        reqs.push("rev");
                    }
                    other => odd.push(format!("{name}: key state {other}")),
                }
                rcv.insert(slot.clone(), Value::Object(certs));
                reqs.sort();
                req.insert(slot.clone(), json!(reqs));
            }
            if !first {
                continue
            }
            // routes
            let handle = ca_handle(&name);
            if let Ok(live) = self.env.krill.ca_manager().get_ca(&handle) {
                let rs: BTreeSet<Vec<String>> = live.configured_roas().iter()
                    .map(|r| {
                        let p = r.roa_configuration.payload;
                        vec![
                            prefix_atom(&p.prefix.to_string()),
                            asn_atom(p.asn.to_string().trim_start_matches(
                                "AS"
                            ).parse().unwrap_or(u32::MAX)),
                        ]
                    }).collect();
                let mut rs = rs;
                // provider authorisations in the same shape:
                // [customer AS atom, "prov:<provider atoms>"]
                for def in live.aspas_definitions_show().as_slice().iter() {
                    let v = serde_json::to_value(def).unwrap_or_default();
                    rs.insert(aspa_tuple(
                        asn_of_json(&v["customer"]),
                        v["providers"].as_array().cloned()
                            .unwrap_or_default().iter().map(asn_of_json)
                            .collect()
                    ));
                }
                // router keys: [AS atom, "rtr:<label>"]
                for info in live.bgpsec_definitions_show().as_slice() {
                    rs.insert(vec![
                        asn_atom(info.asn.into_u32()),
                        format!("rtr:{}", self.rtr_label(
                            &info.key_identifier.to_string()
                        )),
                    ]);
                }
                routes.insert(name.clone(), json!(rs));
            }
            // the children this CA knows (by the slot of the child under
            // this CA)
            let children = ca["children"].as_object().cloned()
                .unwrap_or_default();
            for (child_ca, details) in &children {
                let child = &self.slot_for(child_ca, &name);
                ent.insert(
                    child.clone(), json!(atoms_of_json(&details["resources"]))
                );
                cstate.insert(child.clone(), details["state"].clone());
                let mut issued = Map::new();
                let mut suspended = Map::new();
                for r in ROLES {
                    issued.insert(r.into(), json!([]));
                    suspended.insert(r.into(), json!([]));
                }
                for rcv_rc in all_rcs.values() {
                    for (field, target) in [
                        ("issued", &mut issued),
                        ("suspended", &mut suspended),
                    ] {
                        let Some(map)
                            = rcv_rc["certificates"][field].as_object()
                        else { continue };
                        for (key, cert) in map {
                            // whose key is it?
                            let used = details["used_keys"].get(key)
                                .is_some();
                            if !used {
                                continue
                            }
                            let (kslot, role) = self.key_roles.get(key)
                                .cloned().unwrap_or(("?".into(), "?".into()));
                            let res = atoms_of_json(&cert["resources"]);
                            if role == "pend" || role == "?"
                                || &kslot != child
                            {
                                odd.push(format!(
                                    "{name}: cert for {child} key in role \
                                    {kslot}:{role}"
                                ));
                            }
                            else {
                                target.insert(role, json!(res));
                            }
                        }
                    }
                }
                iss.insert(child.clone(), Value::Object(issued));
                sus.insert(child.clone(), Value::Object(suspended));
            }
        }
        // The top CA is a child of the TA: its entitlement is fixed and its
        // certificate is what it received.
        let top = self.top.clone();
        if full.contains_key(&top) {
            let top_rcv = rcv.get(&top).cloned().unwrap_or(no_certs());
            ent.insert(top.clone(), top_rcv["cur"].clone());
            cstate.insert(top.clone(), json!("active"));
            iss.insert(top.clone(), top_rcv);
            sus.insert(top.clone(), no_certs());
        }
        // A child whose parent exists but does not list it is unknown there.
        for slot in self.all_slots() {
            let p = parent.get(&slot).and_then(|x| x.as_str())
                .unwrap_or("none").to_string();
            if let Some(pca) = full.get(&p) {
                if pca["children"].get(self.ca_of(&slot)).is_none() {
                    ent.insert(slot.clone(), json!([]));
                    cstate.insert(slot.clone(), json!("none"));
                    iss.insert(slot.clone(), no_certs());
                    sus.insert(slot.clone(), no_certs());
                }
            }
        }
        // (a slot of a deleted CA: nothing is known about its parent)
        for slot in self.all_slots() {
            if !full.contains_key(&self.ca_of(&slot))
                && !self.foreign.contains_key(&slot)
            {
                parent.remove(&slot);
                hasp.remove(&slot);
            }
        }
        // tasks that are due
        let mut tasks: BTreeSet<Vec<String>> = BTreeSet::new();
        let mut other_tasks: Vec<String> = Vec::new();
        if let Some(due) = self.project_tasks()["due"].as_array() {
            for t in due {
                let t = t.as_str().unwrap_or("");
                if let Some(ca) = t.strip_prefix("sync_repo_") {
                    if ca != "ta" {
                        tasks.insert(vec!["sync_repo".into(), ca.into()]);
                    }
                }
                else if let Some(rest) = t.strip_prefix("sync_")
                    && let Some((ca, p)) = rest.split_once("_with_parent_")
                {
                    if ca != self.top {
                        tasks.insert(vec![
                            "sync_parent".into(), self.slot_for(ca, p)
                        ]);
                    }
                }
                else if let Some(rest)
                    = t.strip_prefix("resource_class_removed_ca_")
                    && let Some((ca, rest)) = rest.split_once("_parent_")
                {
                    let p = rest.rsplit_once("_rcn_").map(|x| x.0)
                        .unwrap_or(rest);
                    tasks.insert(vec![
                        "rc_removed".into(), self.slot_for(ca, p)
                    ]);
                }
                else {
                    other_tasks.push(t.to_string());
                }
            }
        }
        // the slots whose (recurring) synchronisation with the parent is
        // somewhere in the queue: due, scheduled for later, or running
        let mut qsync: BTreeSet<String> = BTreeSet::new();
        {
            let pt = self.project_tasks();
            let names = ["due", "later", "running"].iter().flat_map(|k| {
                pt[*k].as_array().cloned().unwrap_or_default()
            }).filter_map(|v| v.as_str().map(|s| s.to_string()));
            for t in names {
                // (a key under running/ carries its timestamp)
                let t = match t.split_once('-') {
                    Some((ts, rest))
                        if ts.chars().all(|c| c.is_ascii_digit()) => {
                        rest.to_string()
                    }
                    _ => t,
                };
                if let Some(rest) = t.strip_prefix("sync_")
                    && let Some((ca, p)) = rest.split_once("_with_parent_")
                {
                    qsync.insert(self.slot_for(ca, p));
                }
            }
        }
        // which keys of a child that is not hosted here its parent's record
        // of it lists as in use
        let mut inuse = Map::new();
        for (name, f) in &self.foreign {
            let used = &full.get(&f.parent).map(|p| {
                p["children"][name]["used_keys"].clone()
            }).unwrap_or_default();
            let roles: Vec<String> = f.keys.iter().filter(|(_, ki)| {
                used.as_object().map(|m| m.iter().any(|(k, v)| {
                    k.eq_ignore_ascii_case(&ki.to_string())
                        && v.get("in_use").is_some()
                })).unwrap_or(false)
            }).map(|(role, _)| role.clone()).collect();
            inuse.insert(name.clone(), json!(roles));
        }
        let mut pubs = self.project_pub(&full);
        for name in self.foreign.keys() {
            // (their publication points are somewhere else)
            pubs[name] = json!({
                "cur": false, "new": false, "old": false, "vrps": [],
                "agg": false, "kids": [], "ovrps": [], "okids": [],
                "stray": [],
            });
        }
        // The status reports (C19): per CA the outcome of the most recent
        // exchange with its parent and the entitlements last returned, the
        // outcome of the most recent exchange with the repository and
        // whether the list of published objects shown is what the server
        // holds for the CA, and per child the outcome its parent reports.
        let outcome = |exchange: &Value| -> &'static str {
            if exchange.is_null() {
                "none"
            }
            else if exchange["result"].as_str() == Some("Success") {
                "ok"
            }
            else {
                "fail"
            }
        };
        let mut pst = Map::new();
        let mut rst = Map::new();
        let mut kst = Map::new();
        let mut marked: BTreeSet<String> = BTreeSet::new();
        let mut pubknown = Map::new();
        let mut statuses: BTreeMap<String, Value> = BTreeMap::new();
        for name in self.cas.clone() {
            if full.contains_key(&name) {
                statuses.insert(name.clone(), self.project_status(&name));
            }
        }
        let repo = self.env.krill.repo_manager();
        for slot in self.all_slots() {
            let name = self.ca_of(&slot);
            let first = name == slot;
            let Some(st) = statuses.get(&name) else { continue };
            let p = parent.get(&slot).and_then(|x| x.as_str())
                .unwrap_or("none").to_string();
            let ps = &st["parents"][&p];
            // (status entries for parents no slot stands for)
            let others: Vec<String> = if first {
                st["parents"].as_object().map(|m| {
                    m.keys().filter(|k| {
                        self.slot_for(&name, k) == name
                            && self.slot_parent.get(&name) != Some(*k)
                    }).cloned().collect::<Vec<_>>()
                }).unwrap_or_default()
            } else { Vec::new() };
            pst.insert(slot.clone(), json!({
                "last": outcome(&ps["last_exchange"]),
                "ents": atoms_of_json(&ps["all_resources"]),
                "others": others,
            }));
            if !first {
                continue
            }
            let details = repo.get_publisher_details(
                ca_handle(&name).convert()
            ).ok().map(|d| serde_json::to_value(&d).unwrap());
            pubknown.insert(name.clone(), json!(details.is_some()));
            let mut shown: Vec<(String, String)> = st["repo"]["published"]
                .as_array().cloned().unwrap_or_default().iter().map(|f| {
                    (f["uri"].as_str().unwrap_or("").to_string(),
                     f["base64"].as_str().unwrap_or("").to_string())
                }).collect();
            shown.sort();
            let mut held: Vec<(String, String)> = details.as_ref().map(|d| {
                d["current_files"].as_array().cloned().unwrap_or_default()
                    .iter().map(|f| {
                        (f["uri"].as_str().unwrap_or("").to_string(),
                         f["base64"].as_str().unwrap_or("").to_string())
                    }).collect()
            }).unwrap_or_default();
            held.sort();
            let mut uris: Vec<&String> = shown.iter().map(|x| &x.0).collect();
            let total = uris.len();
            uris.dedup();
            rst.insert(name.clone(), json!({
                "last": outcome(&st["repo"]["last_exchange"]),
                "same": shown == held,
                "empty": shown.is_empty(),
                "dups": total - uris.len(),
                "stale": shown.iter().filter(|x| !held.contains(x)).count(),
                "missing": held.iter().filter(|x| !shown.contains(x)).count(),
            }));
            // what this CA reports about its children
            if let Some(children) = st["children"].as_object() {
                for (child, cs) in children {
                    kst.insert(
                        self.slot_for(child, &name),
                        json!(outcome(&cs["last_exchange"]))
                    );
                    // the mark the check for inactive children leaves in
                    // the parent's record of the child (until the child's
                    // next exchange)
                    if !cs["suspended"].is_null() {
                        marked.insert(self.slot_for(child, &name));
                    }
                }
            }
        }
        // children without an entry at an existing parent
        for slot in self.all_slots() {
            let p = parent.get(&slot).and_then(|x| x.as_str())
                .unwrap_or("none").to_string();
            if statuses.contains_key(&p) && !kst.contains_key(&slot) {
                kst.insert(slot.clone(), json!("none"));
            }
        }
        // The trust anchor's side of its exchanges with the top CA: what
        // the proxy has queued for the signer, the responses waiting for the
        // CA, the keys of the CA the TA has certified and those whose
        // certificate it publishes -- by the role of the key in the CA.
        let mut taq: BTreeSet<&'static str> = BTreeSet::new();
        let mut tar: BTreeSet<&'static str> = BTreeSet::new();
        let mut taiss: BTreeSet<String> = BTreeSet::new();
        let mut tapub: BTreeSet<String> = BTreeSet::new();
        let kind_of = |this: &Self, key: &str, odd: &mut Vec<String>|
            -> Option<&'static str>
        {
            match this.key_roles.get(key) {
                Some((ca, role)) if ca == &this.top => match role.as_str() {
                    "pend" => Some("pend"), "cur" => Some("cur"),
                    "new" => Some("new"), "old" => Some("rev"),
                    _ => None,
                },
                other => {
                    odd.push(format!("ta: request for key of {other:?}"));
                    None
                }
            }
        };
        if let Ok(proxy) = self.env.krill.ca_manager().get_trust_anchor_proxy()
        {
            let d = serde_json::to_value(proxy.as_ref()).unwrap_or_default();
            if let Some(child) = d["child_details"].get(&self.top) {
                for (field, target) in [
                    ("open_requests", &mut taq), ("open_responses", &mut tar),
                ] {
                    for key in child[field].as_object().map(|m| {
                        m.keys().cloned().collect::<Vec<_>>()
                    }).unwrap_or_default() {
                        if let Some(k) = kind_of(self, &key, &mut odd) {
                            target.insert(k);
                        }
                    }
                }
            }
            for key in d["signer"]["objects"]["issued"].as_object().map(|m| {
                m.keys().cloned().collect::<Vec<_>>()
            }).unwrap_or_default() {
                match self.key_roles.get(&key) {
                    Some((ca, role)) if ca == &self.top => {
                        taiss.insert(role.clone());
                    }
                    other => odd.push(format!("ta: cert for {other:?}")),
                }
            }
        }
        if let Ok(details) = repo.get_publisher_details(
            ca_handle("ta").convert()
        ) {
            let d = serde_json::to_value(&details).unwrap_or_default();
            for f in d["current_files"].as_array().cloned()
                .unwrap_or_default()
            {
                let uri = f["uri"].as_str().unwrap_or("");
                if !uri.ends_with(".cer") {
                    continue
                }
                use base64::Engine;
                let data = base64::engine::general_purpose::STANDARD.decode(
                    f["base64"].as_str().unwrap_or("")
                ).unwrap_or_default();
                if let Ok(cert) = rpki::repository::cert::Cert::decode(
                    Bytes::from(data)
                ) {
                    let subject = cert.subject_key_identifier().to_string();
                    match self.key_roles.get(&subject) {
                        Some((ca, role)) if ca == &self.top => {
                            tapub.insert(role.clone());
                        }
                        other => odd.push(format!(
                            "ta publishes a cert for {other:?}"
                        )),
                    }
                }
            }
        }
        json!({
            "taq": taq, "tar": tar, "taiss": taiss, "tapub": tapub,
            "inuse": inuse,
            "pst": pst, "rst": rst, "kst": kst, "pubknown": pubknown,
            "exists": exists, "parent": parent, "hasp": hasp,
            "ent": ent, "cstate": cstate,
            "iss": iss, "sus": sus, "rc": rc, "rcv": rcv, "req": req,
            "routes": routes, "pub": pubs, "tasks": tasks,
            "keys": self.last_keys.clone(),
            "now": chrono::Utc::now().timestamp(),
            "other_tasks": other_tasks, "odd": odd,
            "qsync": qsync,
            "marked": marked,
        })
    }

    /// The relying party's verdict on the publication server's content in
    /// the vocabulary of Krill.tla: validated route origins attributed to
    /// CAs, and the problems found.
    pub fn project_rp_abs(&mut self) -> Value {
        let (objects, _) = self.pubserver_objects();
        let Some(ta) = self.ta_cert() else {
            return json!({"problems": ["no ta cert"], "vrps": []})
        };
        let res = rp::walk(ta, &objects);
        let mut vrps: BTreeSet<Vec<String>> = BTreeSet::new();
        let mut odd = Vec::new();
        for v in &res.vrps {
            let (ca, role) = self.key_roles.get(&v.3).cloned()
                .unwrap_or(("?".into(), "?".into()));
            let ca = self.ca_of(&ca);
            if role != "cur" && role != "old" {
                odd.push(format!("vrp under key {ca}:{role}"));
            }
            vrps.insert(vec![prefix_atom(&v.0), asn_atom(v.2), ca]);
        }
        for r in &res.router_keys {
            let (ca, role) = self.key_roles.get(&r.2).cloned()
                .unwrap_or(("?".into(), "?".into()));
            let ca = self.ca_of(&ca);
            if role != "cur" && role != "old" {
                odd.push(format!("router key under key {ca}:{role}"));
            }
            vrps.insert(vec![
                asn_atom(r.0), format!("rtr:{}", self.rtr_label(&r.1)), ca,
            ]);
        }
        for a in &res.aspas {
            let (ca, role) = self.key_roles.get(&a.2).cloned()
                .unwrap_or(("?".into(), "?".into()));
            let ca = self.ca_of(&ca);
            if role != "cur" && role != "old" {
                odd.push(format!("aspa under key {ca}:{role}"));
            }
            let mut t = aspa_tuple(a.0, a.1.clone());
            t.push(ca);
            vrps.insert(t);
        }
        // What is served: the RRDP snapshot named by the notification file
        // and the rsync tree, compared with the repository content (they
        // agree once the RRDP update task that every publication leaves in
        // the queue has run).
        let repo_dir = self.env.dir.join("repo");
        let differs = |served: &rp::Objects| -> usize {
            served.iter().filter(|(k, v)| objects.get(*k) != Some(v)).count()
                + objects.keys().filter(|k| !served.contains_key(*k)).count()
        };
        let rrdp_diff = match rp::read_rrdp_snapshot(&repo_dir) {
            Ok((served, _, _)) => differs(&served) as i64,
            Err(_) => -1,
        };
        let rsync_diff = differs(
            &rp::read_rsync_tree(&repo_dir, "rsync://krill.example.org/repo/")
        ) as i64;
        // (the publication point of a child that is not hosted here is
        // somewhere else: not finding it in this repository is no problem)
        let problems: Vec<String> = res.problems.iter().filter(|p| {
            !self.foreign_point_problem(p)
        }).cloned().collect();
        json!({
            "vrps": vrps, "problems": problems, "odd": odd,
            "orphans": res.orphans,
            "rrdpdiff": rrdp_diff, "rsyncdiff": rsync_diff,
        })
    }

    /// What the publication server holds for each CA, decoded without
    /// validation and attributed to the CA's keys by role.
    fn project_pub(&mut self, full: &BTreeMap<String, Value>) -> Value {
        let krill = self.env.krill.clone();
        let repo = krill.repo_manager();
        let mut res = Map::new();
        // serial-number level facts per key (by abstract key name)
        let mut keyfacts: BTreeMap<String, KeyFacts> = BTreeMap::new();
        #[derive(Default)]
        struct SlotPub {
            cur: bool, new: bool, old: bool,
            vrps: BTreeSet<Vec<String>>,
            kids: BTreeSet<(String, String, Vec<String>)>,
            ovrps: BTreeSet<Vec<String>>,
            okids: BTreeSet<(String, String, Vec<String>)>,
        }
        for name in self.cas.clone() {
            // what is published per slot of the CA (by the key that signed
            // it: every resource class has its own keys)
            let mut per: BTreeMap<String, SlotPub> = BTreeMap::new();
            for slot in self.all_slots() {
                if self.ca_of(&slot) == name {
                    per.insert(slot, SlotPub::default());
                }
            }
            let mut stray: Vec<String> = Vec::new();
            // route origin objects aggregated per origin AS (AS<n>.roa)
            let mut agg = false;
            let handle = ca_handle(&name);
            let files = match repo.get_publisher_details(handle.convert()) {
                Ok(details) => {
                    serde_json::to_value(&details).unwrap()["current_files"]
                        .as_array().cloned().unwrap_or_default()
                }
                Err(_) => Vec::new(),
            };
            let _ = full;
            // the slot and role of a key of this CA ("" = not one of its
            // slots)
            let role_of = |this: &Self, key: &str| -> (String, String) {
                match this.key_roles.get(key) {
                    Some((slot, role)) if this.ca_of(slot) == name => {
                        (slot.clone(), role.clone())
                    }
                    Some((slot, role)) => {
                        (String::new(), format!("{slot}:{role}"))
                    }
                    None => (String::new(), "?".into()),
                }
            };
            for f in files {
                let uri = f["uri"].as_str().unwrap_or("").to_string();
                let fname = uri.rsplit('/').next().unwrap_or("").to_string();
                use base64::Engine;
                let data = Bytes::from(
                    base64::engine::general_purpose::STANDARD.decode(
                        f["base64"].as_str().unwrap_or("")
                    ).unwrap_or_default()
                );
                if let Some(key) = fname.strip_suffix(".mft") {
                    let kname = self.key_name(key);
                    let (kslot, _) = role_of(self, key);
                    let facts = keyfacts.entry(kname).or_default();
                    facts.ca = name.clone();
                    // (the resource class the key belongs to, as the slot
                    // of Krill.tla: due-ness is decided per class)
                    facts.slot = if kslot.is_empty() { name.clone() }
                                 else { kslot };
                    if let Ok(mft) = rpki::repository::manifest::Manifest
                        ::decode(data.clone(), true)
                    {
                        facts.mft = mft.content().manifest_number()
                            .to_string().parse::<i64>().ok();
                        facts.mft_this
                            = mft.content().this_update().timestamp();
                        facts.mft_next
                            = mft.content().next_update().timestamp();
                        facts.listed = mft.content().iter().map(|item| {
                            String::from_utf8_lossy(item.file().as_ref())
                                .to_string()
                        }).collect();
                    }
                    let (slot, role) = role_of(self, key);
                    let acc = per.entry(slot).or_default();
                    match role.as_str() {
                        "cur" => acc.cur = true,
                        "new" => acc.new = true,
                        "old" => acc.old = true,
                        other => stray.push(format!("mft of key {other}")),
                    }
                }
                else if let Some(key) = fname.strip_suffix(".crl") {
                    let kname = self.key_name(key);
                    let facts = keyfacts.entry(kname).or_default();
                    if let Ok(crl) = rpki::repository::crl::Crl::decode(
                        data.clone()
                    ) {
                        facts.crl_number = crl.crl_number().to_string()
                            .parse::<i64>().ok();
                        facts.crl = Some(crl);
                    }
                }
                else if fname.ends_with(".roa") {
                    if fname.starts_with("AS") {
                        agg = true;
                    }
                    match rpki::repository::roa::Roa::decode(data, true) {
                        Ok(roa) => {
                            let aki = roa.cert().authority_key_identifier()
                                .map(|k| k.to_string()).unwrap_or_default();
                            let (slot, role) = role_of(self, &aki);
                            {
                                let kname = self.key_name(&aki);
                                let serial = roa.cert().serial_number();
                                let id = self.obj_id(
                                    &kname, &serial.to_string(), Some(serial)
                                );
                                let facts
                                    = keyfacts.entry(kname).or_default();
                                facts.roas.insert(id.clone());
                                facts.kinds.insert("roa");
                                facts.objs.insert(id);
                                facts.files.insert(fname.clone());
                            }
                            let asn = roa.content().as_id().into_u32();
                            for addr in roa.content().iter() {
                                let pfx = format!(
                                    "{}/{}", addr.address(),
                                    addr.address_length()
                                );
                                if role == "cur" {
                                    per.entry(slot.clone()).or_default()
                                        .vrps.insert(vec![
                                        prefix_atom(&pfx), asn_atom(asn)
                                    ]);
                                }
                                else if role == "old" {
                                    per.entry(slot.clone()).or_default()
                                        .ovrps.insert(vec![
                                        prefix_atom(&pfx), asn_atom(asn)
                                    ]);
                                }
                                else {
                                    stray.push(format!(
                                        "roa {pfx} under key {role}"
                                    ));
                                }
                            }
                        }
                        Err(e) => stray.push(format!("bad roa {fname}: {e}")),
                    }
                }
                else if fname.ends_with(".cer") {
                    match rpki::repository::cert::Cert::decode(data) {
                        Ok(cert) => {
                            let aki = cert.authority_key_identifier()
                                .map(|k| k.to_string()).unwrap_or_default();
                            let (slot, role) = role_of(self, &aki);
                            {
                                let kname = self.key_name(&aki);
                                let serial = cert.serial_number();
                                let id = self.obj_id(
                                    &kname, &serial.to_string(), Some(serial)
                                );
                                let facts
                                    = keyfacts.entry(kname).or_default();
                                facts.objs.insert(id);
                                facts.files.insert(fname.clone());
                            }
                            let subject
                                = cert.subject_key_identifier().to_string();
                            if !cert.basic_ca().unwrap_or(false) {
                                // a router certificate
                                {
                                    let kname = self.key_name(&aki);
                                    let serial = cert.serial_number();
                                    let id = self.obj_id(
                                        &kname, &serial.to_string(),
                                        Some(serial)
                                    );
                                    let facts
                                        = keyfacts.entry(kname).or_default();
                                    facts.kinds.insert("rtr");
                                    facts.roas.insert(id);
                                }
                                let label = self.rtr_label(&subject);
                                for block in cert.as_resources().to_blocks()
                                    .iter().flat_map(|b| b.iter())
                                {
                                    let t = vec![
                                        asn_atom(block.min().into_u32()),
                                        format!("rtr:{label}"),
                                    ];
                                    if role == "cur" {
                                        per.entry(slot.clone()).or_default()
                                            .vrps.insert(t);
                                    }
                                    else if role == "old" {
                                        per.entry(slot.clone()).or_default()
                                            .ovrps.insert(t);
                                    }
                                    else {
                                        stray.push(format!(
                                            "router cert under key {role}"
                                        ));
                                    }
                                }
                                continue
                            }
                            let (child, crole) = self.key_roles.get(&subject)
                                .cloned().unwrap_or(("?".into(), "?".into()));
                            let set = ResourceSet::try_from(&cert).ok();
                            let atoms = set.as_ref().map(atoms_of)
                                .unwrap_or(vec!["?".into()]);
                            if role == "cur" {
                                per.entry(slot.clone()).or_default()
                                    .kids.insert((child, crole, atoms));
                            }
                            else if role == "old" {
                                per.entry(slot.clone()).or_default()
                                    .okids.insert((child, crole, atoms));
                            }
                            else {
                                stray.push(format!(
                                    "cert for {child} under key {role}"
                                ));
                            }
                        }
                        Err(e) => stray.push(format!("bad cer {fname}: {e}")),
                    }
                }
                else if fname.ends_with(".asa") {
                    match rpki::repository::aspa::Aspa::decode(data, true) {
                        Ok(aspa) => {
                            let aki = aspa.cert().authority_key_identifier()
                                .map(|k| k.to_string()).unwrap_or_default();
                            let (slot, role) = role_of(self, &aki);
                            {
                                let kname = self.key_name(&aki);
                                let serial = aspa.cert().serial_number();
                                let id = self.obj_id(
                                    &kname, &serial.to_string(), Some(serial)
                                );
                                let facts
                                    = keyfacts.entry(kname).or_default();
                                // (renewed like route origins)
                                facts.kinds.insert("asa");
                                facts.roas.insert(id.clone());
                                facts.objs.insert(id);
                                facts.files.insert(fname.clone());
                            }
                            let tuple = aspa_tuple(
                                aspa.content().customer_as().into_u32(),
                                aspa.content().provider_as_set().iter()
                                    .map(|p| p.into_u32()).collect()
                            );
                            if role == "cur" {
                                per.entry(slot.clone()).or_default()
                                    .vrps.insert(tuple);
                            }
                            else if role == "old" {
                                per.entry(slot.clone()).or_default()
                                    .ovrps.insert(tuple);
                            }
                            else {
                                stray.push(format!(
                                    "aspa {fname} under key {role}"
                                ));
                            }
                        }
                        Err(e) => stray.push(format!("bad aspa {fname}: {e}")),
                    }
                }
                else {
                    stray.push(format!("unknown file {fname}"));
                }
            }
            per.remove("");
            for (slot, acc) in per {
                let first = slot == name;
                res.insert(slot, json!({
                    "cur": acc.cur, "new": acc.new, "old": acc.old,
                    "vrps": acc.vrps, "agg": agg,
                    "kids": acc.kids.into_iter().map(|k| {
                        json!([k.0, k.1, k.2])
                    }).collect::<Vec<_>>(),
                    "ovrps": acc.ovrps,
                    "okids": acc.okids.into_iter().map(|k| {
                        json!([k.0, k.1, k.2])
                    }).collect::<Vec<_>>(),
                    "stray": if first { stray.clone() } else { Vec::new() },
                }));
            }
        }
        // the manifest numbers in the CAs' own object stores
        let mut store_numbers: HashMap<String, i64> = HashMap::new();
        let mut store_next: HashMap<String, i64> = HashMap::new();
        if let Ok(store) = krill.storage().open(
            krill::constants::CA_OBJECTS_NS
        ) {
            for name in self.cas.clone() {
                let Ok(key) = Ident::boxed_from_string(format!("{name}.json"))
                else { continue };
                let Ok(Some(objects)) = store.get::<Value>(None, &key)
                else { continue };
                let Some(classes) = objects["classes"].as_object()
                else { continue };
                for class in classes.values() {
                    for field in ["current_set", "staging_set", "old_set"] {
                        let set = &class["keys"][field];
                        // (the last segment of the URI: the name field of
                        // a certificate issued by the trust anchor lacks
                        // its first character)
                        let Some(cert_name)
                            = set["signing_cert"]["uri"].as_str()
                                .and_then(|u| u.rsplit('/').next())
                        else { continue };
                        let key_id = cert_name.trim_end_matches(".cer");
                        let kname = self.key_name(key_id);
                        let next = &set["revision"]["next_update"];
                        let next = next.as_i64().or_else(|| {
                            next.as_str().and_then(|s| {
                                chrono::DateTime::parse_from_rfc3339(s).ok()
                            }).map(|t| t.timestamp())
                        });
                        if let Some(t) = next {
                            store_next.insert(kname.clone(), t);
                        }
                        if let Some(n) = set["revision"]["number"].as_i64() {
                            store_numbers.insert(kname, n);
                        }
                    }
                }
            }
        }
        // which of the objects ever seen under a key are on its CRL
        let mut keys = Map::new();
        for (kname, facts) in keyfacts {
            let mut revoked = Vec::new();
            if let Some(crl) = facts.crl.as_ref() {
                for (id, (issuer, serial)) in &self.serials {
                    if issuer == &kname && crl.contains(*serial) {
                        revoked.push(id.clone());
                    }
                }
            }
            revoked.sort();
            let mut unlisted: Vec<String> = facts.files.iter().filter(|f| {
                !facts.listed.contains(*f)
            }).cloned().collect();
            unlisted.sort();
            let mut missing: Vec<String> = facts.listed.iter().filter(|f| {
                !facts.files.contains(*f) && !f.ends_with(".crl")
            }).cloned().collect();
            missing.sort();
            keys.insert(kname.clone(), json!({
                "ca": facts.ca, "slot": facts.slot,
                "mft": facts.mft.unwrap_or(-1),
                "store": store_numbers.get(&kname).copied().unwrap_or(-1),
                "store_next": store_next.get(&kname).copied().unwrap_or(-1),
                "crl": facts.crl_number.unwrap_or(-1),
                "mft_this": facts.mft_this, "mft_next": facts.mft_next,
                "objs": facts.objs, "roas": facts.roas, "revoked": revoked,
                "kinds": facts.kinds.len(),
                "unlisted": unlisted, "missing": missing,
            }));
        }
        self.last_keys = Value::Object(keys);
        Value::Object(res)
    }
}

#[derive(Default)]
struct KeyFacts {
    ca: String,
    slot: String,
    mft: Option<i64>,
    mft_this: i64,
    mft_next: i64,
    crl_number: Option<i64>,
    crl: Option<rpki::repository::crl::Crl>,
    objs: BTreeSet<String>,
    roas: BTreeSet<String>,
    /// the kinds of renewable objects under the key (roa, asa, rtr): each
    /// kind is renewed by its own command
    kinds: BTreeSet<&'static str>,
    files: BTreeSet<String>,
    listed: BTreeSet<String>,
}

//------------ driver --------------------------------------------------------

pub fn list_arg(v: &Value, key: &str) -> Vec<String> {
    str_list(v, key)
}

/// Classifies a task name: [kind, ca] with kind one of sync_parent,
/// sync_repo, rc_removed, other.
fn task_kind(w: &World, name: &str) -> Value {
    let top = w.top.as_str();
    if let Some(ca) = name.strip_prefix("sync_repo_") {
        if ca != "ta" {
            return json!(["sync_repo", ca])
        }
    }
    else if let Some(rest) = name.strip_prefix("sync_")
        && let Some((ca, p)) = rest.split_once("_with_parent_")
    {
        if ca != top {
            return json!(["sync_parent", w.slot_for(ca, p)])
        }
    }
    else if let Some(rest) = name.strip_prefix("resource_class_removed_ca_")
        && let Some((ca, rest)) = rest.split_once("_parent_")
    {
        let p = rest.rsplit_once("_rcn_").map(|x| x.0).unwrap_or(rest);
        return json!(["rc_removed", w.slot_for(ca, p)])
    }
    json!(["other", name])
}

fn roa_arg(action: &Value) -> String {
    match action.get("r") {
        Some(Value::Array(a)) => {
            a.iter().filter_map(|x| x.as_str()).collect::<Vec<_>>().join("|")
        }
        Some(Value::String(s)) => s.clone(),
        _ => String::new(),
    }
}

pub fn apply_action(w: &mut World, action: &Value) -> Result<Value, String> {
    let a = str_arg(action, "a");
    match a {
        "AddCa" => {
            let c = str_arg(action, "c");
            // A generated behaviour may not be applicable to the real state
            // (the code chooses between due tasks differently than the
            // generator did): creating a CA under a parent that does not
            // hold the resources would leave a half set-up CA behind.
            let p = str_arg(action, "p");
            if !p.is_empty() && p != "ta" {
                let wanted = resources(&list_arg(action, "res"));
                let ok = w.env.krill.ca_manager().get_ca(&ca_handle(p))
                    .map(|ca| {
                        !wanted.is_empty()
                        && ca.all_resources().contains(&wanted)
                    }).unwrap_or(false);
                let exists = w.env.krill.ca_manager().has_ca(&ca_handle(c))
                    .unwrap_or(false);
                // ("again": a CA that was deleted -- and removed by its
                // parent, its publisher removed at the server -- is created
                // once more under the same name)
                let again = action.get("again").and_then(|x| x.as_bool())
                    .unwrap_or(false);
                let known = w.cas.contains(&c.to_string());
                let child_left = w.env.krill.ca_manager()
                    .get_ca(&ca_handle(p)).map(|ca| {
                        ca.get_child(&ca_handle(c).convert()).is_ok()
                    }).unwrap_or(false);
                let publisher_left = w.env.krill.repo_manager()
                    .get_publisher_details(ca_handle(c).convert()).is_ok();
                if !ok || exists
                    || (known && !(again && !child_left && !publisher_left))
                {
                    return Ok(json!({"skipped": true}))
                }
            }
            w.add_ca(c)?;
            let p = str_arg(action, "p");
            if !p.is_empty() {
                w.slot_parent.insert(c.to_string(), p.to_string());
                w.add_parent(c, p, &list_arg(action, "res"))?;
            }
            Ok(json!("ok"))
        }
        "AddParent" => {
            // (c is a slot: the CA's class under this parent)
            let slot = str_arg(action, "c");
            let ca = w.ca_of(slot);
            let p = str_arg(action, "p");
            // a generated behaviour may not be applicable to the real state
            let exists = w.env.krill.ca_manager().has_ca(&ca_handle(&ca))
                .unwrap_or(false);
            let pexists = w.env.krill.ca_manager().has_ca(&ca_handle(p))
                .unwrap_or(false);
            if !exists || !pexists {
                return Ok(json!({"skipped": true}))
            }
            let known = w.slot_parent.get(slot).cloned();
            if known.is_some() && known.as_deref() != Some(p) {
                return Ok(json!({"skipped": true}))
            }
            w.slot_parent.insert(slot.to_string(), p.to_string());
            let res = w.add_parent(&ca, p, &list_arg(action, "res"));
            if res.is_err() && known.is_none() {
                // (a refused first addition leaves the slot unused)
                let child_known = w.env.krill.ca_manager().get_ca(
                    &ca_handle(p)
                ).map(|pc| {
                    pc.get_child(&ca_handle(&ca).convert()).is_ok()
                }).unwrap_or(false);
                if !child_known {
                    w.slot_parent.remove(slot);
                }
            }
            res?;
            Ok(json!("ok"))
        }
        "RemoveParent" => {
            let ca = w.ca_of(str_arg(action, "c"));
            w.remove_parent(&ca, str_arg(action, "p"))?;
            Ok(json!("ok"))
        }
        "ChildRes" => {
            let ca = w.ca_of(str_arg(action, "c"));
            w.child_update(
                str_arg(action, "p"), &ca,
                Some(&list_arg(action, "res")), None
            )?;
            Ok(json!("ok"))
        }
        "ChildSuspend" => {
            let ca = w.ca_of(str_arg(action, "c"));
            w.child_update(
                str_arg(action, "p"), &ca, None, Some(true)
            )?;
            Ok(json!("ok"))
        }
        "ChildUnsuspend" => {
            let ca = w.ca_of(str_arg(action, "c"));
            w.child_update(
                str_arg(action, "p"), &ca, None, Some(false)
            )?;
            Ok(json!("ok"))
        }
        "ChildRemove" => {
            let ca = w.ca_of(str_arg(action, "c"));
            w.child_remove(str_arg(action, "p"), &ca)?;
            Ok(json!("ok"))
        }
        "DeleteCa" => {
            w.delete_ca(str_arg(action, "c"))?;
            Ok(json!("ok"))
        }
        "RoaAdd" => {
            w.roa_update(
                str_arg(action, "c"), &[roa_arg(action)], &[]
            )?;
            Ok(json!("ok"))
        }
        "RoaDel" => {
            w.roa_update(
                str_arg(action, "c"), &[], &[roa_arg(action)]
            )?;
            Ok(json!("ok"))
        }
        "AddForeign" => {
            let c = str_arg(action, "c");
            let p = str_arg(action, "p");
            let wanted = resources(&list_arg(action, "res"));
            let ok = w.env.krill.ca_manager().get_ca(&ca_handle(p))
                .map(|ca| {
                    !wanted.is_empty() && ca.all_resources().contains(&wanted)
                }).unwrap_or(false);
            let known = w.env.krill.ca_manager().get_ca(&ca_handle(p))
                .map(|ca| {
                    ca.get_child(&ChildHandle::from_str(c).unwrap()).is_ok()
                }).unwrap_or(false);
            let other_parent = w.foreign.get(c).map(|f| f.parent != p)
                .unwrap_or(false);
            if !ok || known || other_parent {
                return Ok(json!({"skipped": true}))
            }
            w.slot_parent.insert(c.to_string(), p.to_string());
            w.add_foreign(c, p, &list_arg(action, "res"))?;
            Ok(json!("ok"))
        }
        "FList" | "FIssue" | "FRevoke" => {
            let c = str_arg(action, "c");
            // (only while the parent exists and knows the child)
            let known = w.foreign.get(c).map(|f| {
                w.env.krill.ca_manager().get_ca(&ca_handle(&f.parent))
                    .map(|p| {
                        p.get_child(&ChildHandle::from_str(c).unwrap()).is_ok()
                    }).unwrap_or(false)
            }).unwrap_or(false);
            if !known {
                return Ok(json!({"skipped": true}))
            }
            let kind = match a {
                "FList" => "list", "FIssue" => "issue", _ => "revoke",
            };
            let lim = list_arg(action, "lim");
            let nolim = action.get("nolim").and_then(|x| x.as_bool())
                .unwrap_or(false);
            let fam = match str_arg(action, "fam") { "v4" => "v4", _ => "all" };
            w.foreign_request_fam(
                c, kind, str_arg(action, "x"),
                if nolim || a != "FIssue" { None } else { Some(&lim) }, fam,
            )?;
            Ok(json!("ok"))
        }
        "ChildMap" => {
            let ca = w.ca_of(str_arg(action, "c"));
            w.child_map(
                str_arg(action, "p"), &ca,
                str_arg(action, "in_parent"), str_arg(action, "for_child"),
            )?;
            Ok(json!("ok"))
        }
        "RtrAdd" => {
            w.rtr_update(str_arg(action, "c"), &list_arg(action, "r"), true)?;
            Ok(json!("ok"))
        }
        "RtrDel" => {
            w.rtr_update(str_arg(action, "c"), &list_arg(action, "r"), false)?;
            Ok(json!("ok"))
        }
        "RoaDelta" => {
            w.roa_update(
                str_arg(action, "c"), &list_arg(action, "add"),
                &list_arg(action, "del")
            )?;
            Ok(json!("ok"))
        }
        "AspaSet" => {
            w.aspa_update(
                str_arg(action, "c"), str_arg(action, "cust"),
                &list_arg(action, "prov")
            )?;
            Ok(json!("ok"))
        }
        "RollInit" => {
            w.roll_init(str_arg(action, "c"))?;
            Ok(json!("ok"))
        }
        "RollActivate" => {
            w.roll_activate(str_arg(action, "c"))?;
            Ok(json!("ok"))
        }
        "StepHold" => {
            // the task is claimed and processed; the scheduler thread
            // finishes it at the next Release
            if w.held.is_some() {
                return Ok(json!({"skipped": true}))
            }
            Ok(match w.step_named_opt(str_arg(action, "task"), true)? {
                Some(name) => json!({"task": name}),
                None => json!({"skipped": true}),
            })
        }
        "Release" => {
            w.release()?;
            Ok(json!("ok"))
        }
        "Step" if !str_arg(action, "task").is_empty() => {
            Ok(match w.step_named(str_arg(action, "task"))? {
                Some(name) => json!({"task": name}),
                None => json!({"task": "none"}),
            })
        }
        "Step" => {
            // no task named: take the due task whose name comes first (the
            // real queue breaks ties between equal time stamps arbitrarily;
            // a fixed choice keeps replays reproducible)
            let first = w.project_tasks()["due"].as_array().and_then(|a| {
                a.first().and_then(|x| x.as_str().map(String::from))
            });
            if let Some(name) = first {
                return Ok(match w.step_named(&name)? {
                    Some(name) => json!({"task": name}),
                    None => json!({"task": "none"}),
                })
            }
            Ok(match w.step_task()? {
                Some(name) => json!({"task": name}),
                None => json!({"task": "none"}),
            })
        }
        "Pump" => {
            let done = w.pump(300)?;
            Ok(json!({"tasks": done}))
        }
        "Republish" | "RepublishByMargin" | "RepublishByStoreMargin" => {
            w.run_task(Task::RepublishIfNeeded)?;
            Ok(json!("ok"))
        }
        "Renew" => {
            w.run_task(Task::RenewObjectsIfNeeded)?;
            Ok(json!("ok"))
        }
        "AutoSuspend" => {
            // the check for inactive children of every CA ("bulk suspend";
            // the behaviour runs with a threshold of one second): wait
            // until every exchange so far is older than the threshold,
            // schedule the tasks and run them
            std::thread::sleep(std::time::Duration::from_millis(2100));
            w.env.krill.ca_manager().cas_schedule_suspend_all(
                &w.env.krill
            ).map_err(|e| e.to_string())?;
            let mut done = Vec::new();
            for ca in w.cas.clone() {
                let name = format!("suspend_children_if_needed_{ca}");
                if w.has_due_task_named(&name)
                    && let Some(n) = w.step_named(&name)?
                {
                    done.push(n);
                }
            }
            Ok(json!({"tasks": done}))
        }
        "UpdateSnapshots" => {
            // the daily job: a new snapshot of every aggregate and of the
            // publication server's content (whose change sets are folded
            // into it and removed)
            w.run_task(Task::UpdateSnapshots)?;
            Ok(json!("ok"))
        }
        "Dump" => {
            let ca = w.env.krill.ca_manager().get_ca(
                &ca_handle(str_arg(action, "c"))
            ).map_err(|e| e.to_string())?;
            Ok(serde_json::to_value(ca.as_ref()).unwrap())
        }
        "PubRemove" => {
            // the publication server's operator removes the publisher
            let krill = &w.env.krill;
            krill.repo_manager().remove_publisher(
                ca_handle(str_arg(action, "c")).convert(), &w.actor, krill
            ).map_err(|e| e.to_string())?;
            Ok(json!("ok"))
        }
        "PubAdd" => {
            // ... and adds it again with the CA's (unchanged) identity
            let krill = &w.env.krill;
            let handle = ca_handle(str_arg(action, "c"));
            let pub_req = {
                let ca = krill.ca_manager().get_ca(&handle).map_err(|e| {
                    e.to_string()
                })?;
                PublisherRequest::new(
                    ca.id_cert().base64.clone(), handle.convert(), None,
                )
            };
            krill.repo_manager().create_publisher(
                pub_req, &w.actor
            ).map_err(|e| e.to_string())?;
            Ok(json!("ok"))
        }
        "RepoSyncAll" => {
            // "bulk sync": all CAs synchronise with their repository
            w.env.krill.ca_manager().cas_schedule_repo_sync_all(
                &w.env.krill
            ).map_err(|e| e.to_string())?;
            Ok(json!("ok"))
        }
        "Refresh" => {
            // the periodic refresh / "bulk refresh": all CAs sync with
            // their parents
            w.env.krill.ca_manager().cas_schedule_refresh_all(
                &w.env.krill
            ).map_err(|e| e.to_string())?;
            Ok(json!("ok"))
        }
        "Settled" | "NotSettled" | "Mark" | "ExpectSame" | "ExpectReissued"
        | "ExpectRenewed" | "ExpectByMargin" | "ExpectStoreByMargin"
        => Ok(json!("ok")),
        "Restart" | "RestartDue" | "RestartNormal" | "RestartMargin" => {
            // a restart, possibly with other timing values: margins larger
            // than the lifetimes make everything due at the next
            // maintenance run, which stands in for the passing of time
            let timing = action.get("timing").and_then(|t| t.as_object())
                .map(|m| m.iter().filter_map(|(k, v)| {
                    v.as_u64().map(|v| (k.clone(), v as u32))
                }).collect::<Vec<_>>());
            w.restart(timing)?;
            Ok(json!("ok"))
        }
        other => Err(format!("unknown action {other}")),
    }
}

pub fn run(behaviours: &Path, out: &Path, workdir: &Path, memory: bool) {
    let behaviours = read_ndjson(behaviours);
    let mut trace = TraceOut::create(out);
    for (idx, beh) in behaviours.iter().enumerate() {
        let id = beh.get("id").cloned().unwrap_or(json!(idx));
        let actions = beh.get("actions").and_then(|a| a.as_array()).cloned()
            .unwrap_or_default();
        let opts = EnvOpts {
            memory,
            agg_threshold: beh.get("agg").and_then(|x| x.as_u64())
                .unwrap_or(100) as usize,
            deagg_threshold: beh.get("deagg").and_then(|x| x.as_u64())
                .unwrap_or(90) as usize,
            extra_toml: beh.get("toml").and_then(|x| x.as_str())
                .unwrap_or("").to_string(),
            timing_override: beh.get("timing").and_then(|t| t.as_object())
                .map(|m| m.iter().filter_map(|(k, v)| {
                    v.as_u64().map(|v| (k.clone(), v as u32))
                }).collect()).unwrap_or_default(),
        };
        refill_keys(idx * 37);
        trace.push(&json!({
            "ev": "reset", "behaviour": id,
            "slots": beh.get("slots").cloned().unwrap_or(json!([])),
            "agg": beh.get("agg").and_then(|x| x.as_u64()).unwrap_or(100),
            "deagg": beh.get("deagg").and_then(|x| x.as_u64()).unwrap_or(90),
            "mftdue": beh.get("mftdue").and_then(|x| x.as_bool())
                .unwrap_or(false),
            "objdue": beh.get("objdue").and_then(|x| x.as_bool())
                .unwrap_or(false),
            "timing": beh.get("timing").cloned().unwrap_or(json!({})),
        }));
        let mut world = match guarded(|| World::create(workdir, opts)) {
            Outcome::Ok(Ok(w)) => w,
            Outcome::Ok(Err(e)) => {
                trace.push(&json!({"ev": "Setup", "status": "error", "msg": e}));
                continue
            }
            Outcome::Panic(m) | Outcome::Crash(m) => {
                trace.push(&json!({"ev": "Setup", "status": "panic", "msg": m}));
                continue
            }
        };
        // further slots of CAs with several parents: [[slot, ca], ...]
        for pair in beh.get("slots").and_then(|x| x.as_array()).cloned()
            .unwrap_or_default()
        {
            if let (Some(slot), Some(ca)) = (
                pair.get(0).and_then(|x| x.as_str()),
                pair.get(1).and_then(|x| x.as_str()),
            ) {
                world.slots.insert(slot.to_string(), ca.to_string());
            }
        }
        let top_name = world.top.clone();
        world.slot_parent.insert(top_name, "ta".into());
        let full_proj = std::env::var_os("VERIF_FULL_PROJ").is_some();
        // The top CA under the trust anchor, with fixed holdings.
        if let Some(topres) = beh.get("top").and_then(|t| t.as_array()) {
            let topres: Vec<String> = topres.iter().filter_map(|x| {
                x.as_str().map(String::from)
            }).collect();
            let top = world.top.clone();
            let res = guarded(|| {
                world.add_ca(&top)?;
                world.add_parent(&top, "ta", &topres)?;
                world.pump(300).map(|_| ())
            });
            let mut line = json!({"ev": "Setup"});
            match res {
                Outcome::Ok(Ok(())) => line["status"] = json!("ok"),
                Outcome::Ok(Err(e)) => {
                    line["status"] = json!("error");
                    line["msg"] = json!(e);
                }
                Outcome::Panic(m) | Outcome::Crash(m) => {
                    line["status"] = json!("panic");
                    line["msg"] = json!(m);
                }
            }
            line["abs"] = world.project_abs();
            line["rp"] = world.project_rp_abs();
            trace.push(&line);
        }
        let mut queue: std::collections::VecDeque<Value>
            = actions.iter().cloned().collect();
        let mut budget = 2000;
        // between RestartDue and RestartNormal everything is due: every
        // command re-issues manifests as a side effect and krill schedules
        // repository synchronisations for that; a DueTouch event after each
        // event lets the trace specification take those tasks over
        let mut due_phase = false;
        while let Some(action) = queue.pop_front() {
            budget -= 1;
            if budget == 0 {
                trace.push(&json!({"ev": "abort", "res": "step budget"}));
                break
            }
            let a = str_arg(&action, "a").to_string();
            // Pump and Settle are expanded into single task steps so that
            // every task execution is one event of the trace.
            if a == "Pump" || a == "PumpMore" {
                if world.has_due_task() {
                    queue.push_front(json!({"a": "PumpMore"}));
                    queue.push_front(json!({"a": "Step"}));
                }
                continue
            }
            if a == "Settle" {
                let round = int_arg(&action, "round");
                if world.has_due_task() {
                    queue.push_front(action.clone());
                    queue.push_front(json!({"a": "Step"}));
                    continue
                }
                // no task due: one more refresh round, until a round
                // changes nothing
                let before = int_arg(&action, "sig");
                let sig = world.signature();
                if round > 0 && before == sig {
                    queue.push_front(json!({"a": "Settled", "rounds": round}));
                    continue
                }
                if round >= 8 {
                    queue.push_front(json!({
                        "a": "NotSettled", "rounds": round
                    }));
                    continue
                }
                queue.push_front(json!({
                    "a": "Settle", "round": round + 1, "sig": sig
                }));
                queue.push_front(json!({"a": "Refresh"}));
                continue
            }
            let action = &action;
            let mut line = action.clone();
            let res = guarded(|| apply_action(&mut world, action));
            if let Outcome::Ok(Ok(v)) = &res
                && v.get("skipped").is_some()
            {
                continue
            }
            line["ev"] = json!(if a == "StepHold" { "Step" } else { a.as_str() });
            if a == "StepHold" {
                line["held"] = json!(true);
            }
            match res {
                Outcome::Ok(Ok(v)) => {
                    line["status"] = json!("ok");
                    if let Some(t) = v.get("task") {
                        line["task"] = t.clone();
                        line["tk"] = task_kind(
                            &world, t.as_str().unwrap_or("")
                        );
                    }
                    else if !v.is_string() {
                        line["out"] = v;
                    }
                }
                Outcome::Ok(Err(e)) => {
                    line["status"] = json!("error");
                    line["msg"] = json!(e);
                }
                Outcome::Panic(m) => {
                    line["status"] = json!("panic");
                    line["msg"] = json!(m);
                }
                Outcome::Crash(m) => {
                    line["status"] = json!("crash");
                    line["msg"] = json!(m);
                }
            }
            if full_proj {
                let proj = guarded(|| world.project(true));
                line["proj"] = match proj {
                    Outcome::Ok(v) => v,
                    Outcome::Panic(m) | Outcome::Crash(m) => {
                        json!({"panic": m})
                    }
                };
            }
            line["abs"] = match guarded(|| world.project_abs()) {
                Outcome::Ok(v) => v,
                Outcome::Panic(m) | Outcome::Crash(m) => json!({"panic": m}),
            };
            line["rp"] = match guarded(|| world.project_rp_abs()) {
                Outcome::Ok(v) => v,
                Outcome::Panic(m) | Outcome::Crash(m) => json!({"panic": m}),
            };
            trace.push(&line);
            if a == "RestartDue" {
                due_phase = true;
            }
            else if a == "RestartNormal" || a == "Restart" {
                due_phase = false;
            }
            else if due_phase {
                trace.push(&json!({
                    "ev": "DueTouch", "a": "DueTouch", "status": "ok",
                    "abs": line["abs"].clone(), "rp": line["rp"].clone(),
                }));
            }
        }
    }
    trace.finish();
}
