//! A relying-party walk over the published repository content.
//!
//! The walk is an *observer*: it validates top-down from the trust anchor
//! with the validation routines of the `rpki` crate and emits facts. It
//! decides nothing itself; TLC compares the facts with what the
//! specification derives from its own state.

use std::collections::{BTreeMap, BTreeSet, HashMap, HashSet};
use std::fs;
use std::path::Path;
use std::sync::Arc;
use bytes::Bytes;
use rpki::crypto::KeyIdentifier;
use rpki::repository::aspa::Aspa;
use rpki::repository::cert::{Cert, ResourceCert};
use rpki::repository::crl::Crl;
use rpki::repository::manifest::Manifest;
use rpki::repository::resources::{
    AsBlocks, Asn, IpBlocks, Ipv4Blocks, Ipv6Blocks, ResourceSet
};
use rpki::repository::roa::Roa;
use rpki::repository::tal::TalInfo;
use rpki::repository::error::ValidationError;
use rpki::repository::x509::{Serial, Time};
use rpki::uri;

/// Everything found under one CA certificate (one publication point).
#[derive(Clone, Default)]
pub struct CaPoint {
    /// Key identifier of the CA key.
    pub key: String,
    /// Key identifier of the issuing key (empty for the TA).
    pub issuer: String,
    /// Serial of the CA certificate.
    pub serial: String,
    /// Resources on the CA certificate.
    pub resources: Option<ResourceSet>,
    /// URI of the publication point directory.
    pub repo: String,
    /// URI of the manifest.
    pub mft_uri: String,
    pub serial_raw: Option<Serial>,
    pub mft_number: Option<u128>,
    pub mft_this_update: i64,
    pub mft_next_update: i64,
    pub crl_number: Option<u128>,
    /// The validated CRL (to look up serials).
    pub crl: Option<Crl>,
    /// Files listed on the manifest.
    pub listed: BTreeSet<String>,
    /// Accepted objects: file name -> (serial of cert or EE cert, kind).
    pub objects: BTreeMap<String, ObjectFact>,
}

#[derive(Clone, Debug)]
pub struct ObjectFact {
    pub serial: String,
    pub serial_raw: Option<Serial>,
    pub kind: &'static str,
    pub not_after: i64,
    /// For ROAs: the VRPs; for ASPAs: "customer=>providers"; for router
    /// certs: "asn:keyid"; for CA certs: subject key id.
    pub payload: Vec<String>,
}

#[derive(Clone, Default)]
pub struct RpResult {
    pub points: Vec<CaPoint>,
    /// Problems: listed-but-missing, present-but-unlisted, hash mismatch,
    /// rejected objects, stale or missing manifest/CRL, ...
    pub problems: Vec<String>,
    /// VRPs as (prefix, max_len, asn, ca key).
    pub vrps: BTreeSet<(String, u8, u32, String)>,
    /// ASPAs as (customer, providers, ca key).
    pub aspas: BTreeSet<(u32, Vec<u32>, String)>,
    /// Router keys as (asn, key id, ca key).
    pub router_keys: BTreeSet<(u32, String, String)>,
    pub files_total: usize,
    pub files_accepted: usize,
    pub orphans: usize,
}

pub type Objects = HashMap<String, Bytes>;

/// Reads the current RRDP snapshot from the repository directory.
///
/// Returns the objects plus (session, serial).
pub fn read_rrdp_snapshot(
    repo_dir: &Path,
) -> Result<(Objects, String, u64), String> {
    let rrdp = repo_dir.join("rrdp");
    let notification = fs::read(rrdp.join("notification.xml")).map_err(|e| {
        format!("no notification file: {e}")
    })?;
    let notification = rpki::rrdp::NotificationFile::parse(
        notification.as_slice()
    ).map_err(|e| format!("cannot parse notification: {e}"))?;
    // The snapshot URI is <base>/<session>/<serial>/<random>/snapshot.xml
    let uri = notification.snapshot().uri().to_string();
    let idx = uri.find("/rrdp/").ok_or("odd snapshot uri")?;
    let rel = &uri[idx + 6..];
    let path = rrdp.join(rel);
    let data = fs::read(&path).map_err(|e| {
        format!("snapshot {} missing: {e}", path.display())
    })?;
    if !notification.snapshot().hash().matches(&data) {
        return Err("snapshot hash mismatch".into())
    }
    let snapshot = rpki::rrdp::Snapshot::parse(data.as_slice()).map_err(|e| {
        format!("cannot parse snapshot: {e}")
    })?;
    if snapshot.serial() != notification.serial()
        || snapshot.session_id() != notification.session_id()
    {
        return Err("snapshot session/serial differs from notification".into())
    }
    let mut objects = Objects::new();
    for el in snapshot.into_elements() {
        let (uri, data) = el.unpack();
        if objects.insert(uri.to_string(), data).is_some() {
            return Err(format!("uri {uri} twice in snapshot"))
        }
    }
    Ok((
        objects,
        notification.session_id().to_string(),
        notification.serial()
    ))
}

/// Reads the rsync tree (`repo_dir/rsync/current`).
pub fn read_rsync_tree(repo_dir: &Path, base: &str) -> Objects {
    fn recurse(dir: &Path, prefix: &str, out: &mut Objects) {
        let Ok(entries) = fs::read_dir(dir) else { return };
        for entry in entries.flatten() {
            let path = entry.path();
            let name = entry.file_name().to_string_lossy().to_string();
            if path.is_dir() {
                recurse(&path, &format!("{prefix}{name}/"), out);
            }
            else if let Ok(data) = fs::read(&path) {
                out.insert(format!("{prefix}{name}"), Bytes::from(data));
            }
        }
    }
    let mut out = Objects::new();
    recurse(&repo_dir.join("rsync").join("current"), base, &mut out);
    out
}

fn hexkey(key: KeyIdentifier) -> String {
    key.to_string()
}

fn serial_str(serial: Serial) -> String {
    serial.to_string()
}

fn resources_of(cert: &ResourceCert) -> ResourceSet {
    let asn: AsBlocks = cert.as_resources().clone();
    let v4: IpBlocks = cert.v4_resources().clone();
    let v6: IpBlocks = cert.v6_resources().clone();
    ResourceSet::new(asn, Ipv4Blocks::from(v4), Ipv6Blocks::from(v6))
}

struct Walker<'a> {
    objects: &'a Objects,
    res: RpResult,
    seen_files: HashSet<String>,
    visited_keys: HashSet<String>,
    now: Time,
}

impl Walker<'_> {
    fn problem(&mut self, msg: String) {
        self.res.problems.push(msg);
    }

    fn process_ca(&mut self, cert: ResourceCert, issuer: String) {
        let key = hexkey(cert.as_cert().subject_key_identifier());
        if !self.visited_keys.insert(key.clone()) {
            self.problem(format!("ca key {key} reachable twice"));
            return
        }
        let mut point = CaPoint {
            key: key.clone(),
            issuer,
            serial: serial_str(cert.as_cert().serial_number()),
            serial_raw: Some(cert.as_cert().serial_number()),
            resources: Some(resources_of(&cert)),
            ..Default::default()
        };
        let Some(repo_uri) = cert.as_cert().ca_repository().cloned() else {
            self.problem(format!("ca {key}: no caRepository"));
            self.res.points.push(point);
            return
        };
        point.repo = repo_uri.to_string();
        let Some(mft_uri) = cert.as_cert().rpki_manifest().cloned() else {
            self.problem(format!("ca {key}: no manifest uri"));
            self.res.points.push(point);
            return
        };
        let Some(mft_bytes) = self.objects.get(mft_uri.as_str()).cloned()
        else {
            self.problem(format!("ca {key}: manifest missing"));
            self.res.points.push(point);
            return
        };
        self.seen_files.insert(mft_uri.to_string());
        point.mft_uri = mft_uri.to_string();
        let mft = match Manifest::decode(mft_bytes, true) {
            Ok(mft) => mft,
            Err(e) => {
                self.problem(format!("ca {key}: manifest undecodable: {e}"));
                self.res.points.push(point);
                return
            }
        };
        let mft_ee_serial = mft.cert().serial_number();
        let mft_ee_not_after = mft.cert().validity().not_after();
        let (mft_ee, content) = match mft.validate_at(&cert, true, self.now) {
            Ok(res) => res,
            Err(e) => {
                self.problem(format!("ca {key}: manifest invalid: {e}"));
                self.res.points.push(point);
                return
            }
        };
        let _ = mft_ee;
        point.mft_number = Some(serial_to_u128(content.manifest_number()));
        point.mft_this_update = content.this_update().timestamp();
        point.mft_next_update = content.next_update().timestamp();
        if content.this_update() > self.now || content.next_update() < self.now
        {
            self.problem(format!("ca {key}: manifest not current"));
        }
        self.res.files_accepted += 1;
        point.objects.insert(
            file_name(mft_uri.as_str()),
            ObjectFact {
                serial: serial_str(mft_ee_serial),
                serial_raw: Some(mft_ee_serial), kind: "mft",
                not_after: mft_ee_not_after.timestamp(),
                payload: Vec::new(),
            }
        );

        // Files on the manifest.
        let mut files: Vec<(String, Bytes)> = Vec::new();
        for item in content.iter() {
            let (name, hash) = item.into_pair();
            let name = String::from_utf8_lossy(name.as_ref()).to_string();
            point.listed.insert(name.clone());
            let uri = format!("{}{}", point.repo, name);
            match self.objects.get(&uri) {
                None => {
                    self.problem(format!(
                        "ca {key}: listed but missing: {name}"
                    ));
                }
                Some(data) => {
                    self.seen_files.insert(uri.clone());
                    let hash = rpki::repository::manifest::ManifestHash::new(
                        Bytes::copy_from_slice(hash.as_ref()),
                        content.file_hash_alg()
                    );
                    if hash.verify(data.as_ref()).is_err() {
                        self.problem(format!(
                            "ca {key}: hash mismatch: {name}"
                        ));
                    }
                    else {
                        files.push((name, data.clone()));
                    }
                }
            }
        }
        // The CRL.
        let crl_name = cert.as_cert().subject_key_identifier().to_string()
            + ".crl";
        let mut crl_opt: Option<Crl> = None;
        let crls: Vec<_> = files.iter().filter(|(n, _)| {
            n.ends_with(".crl")
        }).collect();
        if crls.len() != 1 {
            self.problem(format!(
                "ca {key}: {} CRLs on manifest", crls.len()
            ));
        }
        if let Some((name, data)) = crls.first() {
            let _ = &crl_name;
            match Crl::decode(data.clone()) {
                Err(e) => {
                    self.problem(format!("ca {key}: crl undecodable: {e}"))
                }
                Ok(mut crl) => {
                    if crl.verify_signature(
                        cert.as_cert().subject_public_key_info()
                    ).is_err() {
                        self.problem(format!("ca {key}: crl signature"));
                    }
                    else if crl.this_update() > self.now
                        || crl.next_update() < self.now
                    {
                        self.problem(format!("ca {key}: crl not current"));
                    }
                    else {
                        crl.cache_serials();
                        point.crl_number = Some(
                            serial_to_u128(crl.crl_number())
                        );
                        point.crl = Some(crl.clone());
                        self.res.files_accepted += 1;
                        point.objects.insert(name.clone(), ObjectFact {
                            serial: String::new(), serial_raw: None,
                            kind: "crl",
                            not_after: crl.next_update().timestamp(),
                            payload: Vec::new(),
                        });
                        crl_opt = Some(crl);
                    }
                }
            }
        }
        let Some(crl) = crl_opt else {
            self.res.points.push(point);
            return
        };
        if crl.contains(mft_ee_serial) {
            self.problem(format!("ca {key}: manifest EE revoked"));
        }

        let mut children = Vec::new();
        for (name, data) in files {
            if name.ends_with(".crl") {
                continue
            }
            let check_crl = |c: &Cert| {
                if crl.contains(c.serial_number()) {
                    Err(ValidationError::from(
                        rpki::repository::error::VerificationError::new(
                            "revoked"
                        )
                    ))
                }
                else {
                    Ok(())
                }
            };
            if name.ends_with(".cer") {
                let c = match Cert::decode(data) {
                    Ok(c) => c,
                    Err(e) => {
                        self.problem(format!(
                            "ca {key}: {name} undecodable: {e}"
                        ));
                        continue
                    }
                };
                if crl.contains(c.serial_number()) {
                    self.problem(format!("ca {key}: {name} revoked"));
                    continue
                }
                let serial = serial_str(c.serial_number());
                let serial_raw = Some(c.serial_number());
                let not_after = c.validity().not_after().timestamp();
                if c.basic_ca() == Some(true) {
                    let subject = hexkey(c.subject_key_identifier());
                    match c.validate_ca_at(&cert, true, self.now) {
                        Ok(child) => {
                            self.res.files_accepted += 1;
                            point.objects.insert(name, ObjectFact {
                                serial, serial_raw, kind: "cer", not_after,
                                payload: vec![subject],
                            });
                            children.push(child);
                        }
                        Err(e) => self.problem(format!(
                            "ca {key}: {name} rejected: {e}"
                        )),
                    }
                }
                else {
                    match c.validate_router_at(&cert, true, self.now) {
                        Ok(()) => {
                            self.res.files_accepted += 1;
                            let rkey = hexkey(c.subject_key_identifier());
                            let mut payload = Vec::new();
                            for block in c.as_resources().to_blocks().iter()
                                .flat_map(|b| b.iter())
                            {
                                let (min, max) = (
                                    block.min().into_u32(),
                                    block.max().into_u32()
                                );
                                for asn in min..=max.min(min + 16) {
                                    self.res.router_keys.insert(
                                        (asn, rkey.clone(), key.clone())
                                    );
                                    payload.push(format!("{asn}:{rkey}"));
                                }
                            }
                            point.objects.insert(name, ObjectFact {
                                serial, serial_raw, kind: "rtr", not_after,
                                payload,
                            });
                        }
                        Err(e) => self.problem(format!(
                            "ca {key}: {name} rejected: {e}"
                        )),
                    }
                }
            }
            else if name.ends_with(".roa") {
                let roa = match Roa::decode(data, true) {
                    Ok(roa) => roa,
                    Err(e) => {
                        self.problem(format!(
                            "ca {key}: {name} undecodable: {e}"
                        ));
                        continue
                    }
                };
                let serial = serial_str(roa.cert().serial_number());
                let serial_raw = Some(roa.cert().serial_number());
                let not_after
                    = roa.cert().validity().not_after().timestamp();
                match roa.process(&cert, true, check_crl) {
                    Ok((_, content)) => {
                        self.res.files_accepted += 1;
                        let asn = content.as_id().into_u32();
                        let mut payload = Vec::new();
                        for addr in content.iter() {
                            let s = format!(
                                "{}/{}", addr.address(),
                                addr.address_length()
                            );
                            self.res.vrps.insert((
                                s.clone(), addr.max_length(), asn,
                                key.clone()
                            ));
                            payload.push(format!(
                                "{s}-{} => {asn}", addr.max_length()
                            ));
                        }
                        point.objects.insert(name, ObjectFact {
                            serial, serial_raw, kind: "roa", not_after,
                            payload,
                        });
                    }
                    Err(e) => self.problem(format!(
                        "ca {key}: {name} rejected: {e}"
                    )),
                }
            }
            else if name.ends_with(".asa") {
                let aspa = match Aspa::decode(data, true) {
                    Ok(aspa) => aspa,
                    Err(e) => {
                        self.problem(format!(
                            "ca {key}: {name} undecodable: {e}"
                        ));
                        continue
                    }
                };
                let serial = serial_str(aspa.cert().serial_number());
                let serial_raw = Some(aspa.cert().serial_number());
                let not_after
                    = aspa.cert().validity().not_after().timestamp();
                match aspa.process(&cert, true, check_crl) {
                    Ok((_, content)) => {
                        self.res.files_accepted += 1;
                        let customer = content.customer_as().into_u32();
                        let providers: Vec<u32> = content.provider_as_set()
                            .iter().map(|p| p.into_u32()).collect();
                        self.res.aspas.insert((
                            customer, providers.clone(), key.clone()
                        ));
                        point.objects.insert(name, ObjectFact {
                            serial, serial_raw, kind: "asa", not_after,
                            payload: vec![format!(
                                "{customer}=>{providers:?}"
                            )],
                        });
                    }
                    Err(e) => self.problem(format!(
                        "ca {key}: {name} rejected: {e}"
                    )),
                }
            }
            else {
                self.problem(format!("ca {key}: unknown object {name}"));
            }
        }
        self.res.points.push(point);
        for child in children {
            self.process_ca(child, key.clone());
        }
    }
}

fn serial_to_u128(serial: Serial) -> u128 {
    // Serial is 20 bytes; numbers used here are small.
    let s = serial.to_string();
    s.parse::<u128>().unwrap_or(u128::MAX)
}

fn file_name(uri: &str) -> String {
    uri.rsplit('/').next().unwrap_or("").to_string()
}

/// Walks the repository top-down from the trust anchor certificate.
pub fn walk(
    ta_cert: Bytes, objects: &Objects,
) -> RpResult {
    let mut walker = Walker {
        objects,
        res: RpResult::default(),
        seen_files: HashSet::new(),
        visited_keys: HashSet::new(),
        now: Time::now(),
    };
    walker.res.files_total = objects.len();
    let cert = match Cert::decode(ta_cert) {
        Ok(cert) => cert,
        Err(e) => {
            walker.problem(format!("ta certificate undecodable: {e}"));
            return walker.res
        }
    };
    let tal = Arc::new(TalInfo::from_name("ta".into()));
    let now = walker.now;
    match cert.validate_ta_at(tal, true, now) {
        Ok(cert) => walker.process_ca(cert, String::new()),
        Err(e) => walker.problem(format!("ta certificate invalid: {e}")),
    }
    // Present but unlisted: a file directly inside the publication point
    // directory of an accepted CA certificate that is neither a manifest
    // of an accepted CA certificate nor listed on one. (Several keys of a
    // CA share one directory during a roll, so this is judged over all
    // manifests of the directory.) Files under directories no accepted CA
    // certificate points to are counted as orphans, not as problems: a
    // relying party never looks at them.
    let dirs: HashSet<String> = walker.res.points.iter().filter(|p| {
        p.mft_number.is_some()
    }).map(|p| p.repo.clone()).collect();
    let mut accounted: HashSet<String> = HashSet::new();
    for p in &walker.res.points {
        if p.mft_number.is_some() {
            accounted.insert(p.mft_uri.clone());
            for name in &p.listed {
                accounted.insert(format!("{}{}", p.repo, name));
            }
        }
    }
    let mut uris: Vec<_> = objects.keys().cloned().collect();
    uris.sort();
    for uri in uris {
        let dir = match uri.rfind('/') {
            Some(idx) => uri[..=idx].to_string(),
            None => String::new(),
        };
        if dirs.contains(&dir) {
            if !accounted.contains(&uri) {
                walker.problem(format!("present but unlisted: {uri}"));
            }
        }
        else {
            walker.res.orphans += 1;
        }
    }
    walker.res
}

#[allow(dead_code)]
pub fn asn_u32(asn: Asn) -> u32 {
    asn.into_u32()
}
