//! krillverif: conformance harness binding the TLA+ specifications in
//! /verif/spec to the real Krill code (built with --cfg krill_verif).

mod common;
mod queue;
mod rp;
mod ca;

use std::path::PathBuf;

fn arg(args: &[String], name: &str) -> Option<String> {
    args.iter().position(|a| a == name).and_then(|i| args.get(i + 1)).cloned()
}

fn flag(args: &[String], name: &str) -> bool {
    args.iter().any(|a| a == name)
}

fn main() {
    let args: Vec<String> = std::env::args().collect();
    let cmd = args.get(1).map(|s| s.as_str()).unwrap_or("");
    common::install_panic_hook();
    let behaviours = arg(&args, "--in").map(PathBuf::from);
    let out = arg(&args, "--out").map(PathBuf::from);
    let workdir = arg(&args, "--work").map(PathBuf::from);
    match cmd {
        "gen-keys" => {
            let n: usize = arg(&args, "--count").and_then(|s| {
                s.parse().ok()
            }).unwrap_or(1000);
            common::gen_keys(n, &common::key_pool_file());
        }
        "run-queue" => {
            queue::run(
                &behaviours.unwrap(), &out.unwrap(), &workdir.unwrap(),
                flag(&args, "--memory"),
            );
        }
        "run-ca" => {
            ca::run(
                &behaviours.unwrap(), &out.unwrap(), &workdir.unwrap(),
                flag(&args, "--memory"),
            );
        }
        _ => {
            eprintln!("usage: krillverif <gen-keys|run-queue|...> [options]");
            std::process::exit(2);
        }
    }
}
