//! run-queue: replays TaskQueue.tla behaviours on the real task queue.
//!
//! Every behaviour is a JSON array of actions. After every action the
//! "pending" and "running" scopes of the real queue are listed through the
//! key-value store and written to the trace, projected onto the spec's
//! variables.

use std::path::Path;
use std::str::FromStr;
use krill::commons::queue::{Queue, ScheduleMode};
use krill::commons::storage::Ident;
use krill::constants::TASK_QUEUE_NS;
use krill::server::mq::{Priority, Task, TaskResult};
use krill::server::scheduler::verif_process_task;
use rpki::ca::idexchange::CaHandle;
use serde_json::{json, Value};
use crate::common::*;

const NAMES: &[&str] = &["start", "rep", "ren", "snap", "sa", "sb"];

fn task_for(name: &str) -> Task {
    match name {
        "start" => Task::QueueStartTasks,
        "rep" => Task::RepublishIfNeeded,
        "ren" => Task::RenewObjectsIfNeeded,
        "snap" => Task::UpdateSnapshots,
        "sa" => Task::SyncRepo {
            ca_handle: CaHandle::from_str("a").unwrap(), ca_version: 0
        },
        "sb" => Task::SyncRepo {
            ca_handle: CaHandle::from_str("b").unwrap(), ca_version: 0
        },
        _ => panic!("unknown task name {name}"),
    }
}

/// The task of that name with the payload `v` (the version guard of a
/// repository synchronisation; the other tasks carry nothing).
fn task_for_v(name: &str, v: u64) -> Task {
    match task_for(name) {
        Task::SyncRepo { ca_handle, .. } => {
            Task::SyncRepo { ca_handle, ca_version: v }
        }
        other => other,
    }
}

fn carries_payload(name: &str) -> bool {
    matches!(name, "sa" | "sb")
}

/// A stored task value with its payload blanked out.
fn without_payload(mut v: Value) -> Value {
    fn walk(v: &mut Value) {
        match v {
            Value::Object(map) => {
                for (k, x) in map.iter_mut() {
                    if k == "ca_version" { *x = json!(0) } else { walk(x) }
                }
            }
            Value::Array(items) => items.iter_mut().for_each(walk),
            _ => { }
        }
    }
    walk(&mut v);
    v
}

/// The payloads of the entries pending under a (model) name.
fn pending_payloads(env: &Env, name: &str) -> Vec<u64> {
    fn find(v: &Value) -> Option<u64> {
        match v {
            Value::Object(map) => {
                if let Some(x) = map.get("ca_version") {
                    return x.as_u64()
                }
                map.values().find_map(find)
            }
            Value::Array(items) => items.iter().find_map(find),
            _ => None,
        }
    }
    let store = env.krill.storage().open(TASK_QUEUE_NS).unwrap();
    let scope = Ident::make("pending");
    let mut res = Vec::new();
    for key in store.keys(Some(scope), "").unwrap() {
        if split_key(key.as_str()).map(|(_, n)| model_name(n)).as_deref()
            == Some(name)
            && let Ok(Some(v)) = store.get::<Value>(Some(scope), &key)
            && let Some(p) = find(&v)
        {
            res.push(p);
        }
    }
    res.sort();
    res
}

fn real_name(name: &str) -> &'static str {
    match name {
        "start" => "queue_start_tasks",
        "rep" => "all_cas_republish_if_needed",
        "ren" => "all_cas_renew_objects_if_needed",
        "snap" => "update_stored_snapshots",
        "sa" => "sync_repo_a",
        "sb" => "sync_repo_b",
        _ => panic!("unknown task name {name}"),
    }
}

fn model_name(real: &str) -> String {
    for n in NAMES {
        if real_name(n) == real {
            return n.to_string()
        }
    }
    format!("?{real}")
}

struct Clock {
    start_ms: i64,
    now_level: i64,
}

impl Clock {
    // Levels: 0..now_level-1 are caller-chosen times in the past (exact
    // values ten days ago), now_level is "now" (stamped by the code),
    // now_level+1 is a later time chosen by the code ("in ten minutes",
    // "in 24 hours"), higher levels are caller-chosen times in the future
    // (exact values ten days ahead).
    const FAR: i64 = 10 * 86_400_000;

    fn to_real(&self, ts: i64) -> i64 {
        if ts < self.now_level {
            self.start_ms - Self::FAR + ts * 1000
        }
        else {
            self.start_ms + Self::FAR + ts * 1000
        }
    }

    fn to_model(&self, ms: i64) -> i64 {
        if ms < self.start_ms - Self::FAR / 2 {
            (ms - (self.start_ms - Self::FAR)) / 1000
        }
        else if ms > self.start_ms + Self::FAR / 2 {
            (ms - (self.start_ms + Self::FAR)) / 1000
        }
        else if ms > self.start_ms + 30_000 {
            self.now_level + 1
        }
        else {
            self.now_level
        }
    }
}

fn split_key(key: &str) -> Option<(i64, &str)> {
    let (ts, name) = key.split_once('-')?;
    Some((ts.parse().ok()?, name))
}

fn project(env: &Env, clock: &Clock) -> (Value, Value) {
    let store = env.krill.storage().open(TASK_QUEUE_NS).unwrap();
    let mut keys = Vec::new();
    for key in store.keys(Some(Ident::make("pending")), "").unwrap() {
        match split_key(key.as_str()) {
            Some((ts, name)) => {
                keys.push((clock.to_model(ts), model_name(name)))
            }
            None => keys.push((-1, format!("?{key}"))),
        }
    }
    keys.sort();
    // copies with an equal abstract key are numbered 1..count
    let mut pending = Vec::new();
    let mut prev: Option<(i64, String)> = None;
    let mut k = 0;
    for key in keys {
        if prev.as_ref() == Some(&key) {
            k += 1;
        }
        else {
            k = 1;
        }
        pending.push(json!([key.0, key.1, k]));
        prev = Some(key);
    }
    let mut running = serde_json::Map::new();
    for n in NAMES {
        running.insert(n.to_string(), json!(0));
    }
    for key in store.keys(Some(Ident::make("running")), "").unwrap() {
        let name = split_key(key.as_str()).map(|(_, n)| {
            model_name(n)
        }).unwrap_or_else(|| format!("?{key}"));
        let cnt = running.get(&name).and_then(|v| v.as_i64()).unwrap_or(0);
        running.insert(name, json!(cnt + 1));
    }
    (Value::Array(pending), Value::Object(running))
}

pub fn run(behaviours: &Path, out: &Path, workdir: &Path, memory: bool) {
    let behaviours = read_ndjson(behaviours);
    let mut trace = TraceOut::create(out);
    for (idx, beh) in behaviours.iter().enumerate() {
        let id = beh.get("id").cloned().unwrap_or(json!(idx));
        let now_level = int_arg(beh, "now");
        let actions = beh.get("actions").and_then(|a| a.as_array()).cloned()
            .unwrap_or_default();
        trace.push(&json!({
            "ev": "reset", "behaviour": id, "now": now_level,
        }));
        run_one(&actions, now_level, workdir, memory, &mut trace);
    }
    trace.finish();
}

fn run_one(
    actions: &[Value], now_level: i64, workdir: &Path, memory: bool,
    trace: &mut TraceOut,
) {
    let opts = EnvOpts {
        memory,
        extra_toml: "bgp_riswhois_enabled = false\n".into(),
        ..Default::default()
    };
    let mut env = Some(Env::create(workdir, opts.clone()).unwrap());
    let mem_seed = env.as_ref().unwrap().mem_seed;
    let clock = Clock {
        start_ms: chrono::Utc::now().timestamp() * 1000,
        now_level,
    };
    // The key of the task claimed last (the scheduler thread's task).
    let mut cur: Option<(Box<Ident>, String)> = None;
    let mut up = false;
    let mut payload: u64 = 0;
    // With the memory back-end a "crash" cannot drop the storage. We keep
    // the runtime and only forget the scheduler's state.

    let mut queue: std::collections::VecDeque<Value>
        = actions.iter().cloned().collect();
    while let Some(action) = queue.pop_front() {
        let action = &action;
        let a = str_arg(action, "a");
        // Which task is handed out is the code's choice, so a generated
        // behaviour may not be applicable as it stands: make it so.
        match a {
            "Startup" if up => {
                queue.push_front(action.clone());
                queue.push_front(json!({"a": "Crash"}));
                continue
            }
            "Startup" | "Crash" => { }
            _ if !up => {
                if a == "Crash" { continue }
                queue.push_front(action.clone());
                queue.push_front(json!({"a": "Startup"}));
                continue
            }
            "Claim" if cur.is_some() => continue,
            "Finish" | "Reschedule" | "FollowUp" | "ProcessStart"
            | "Process" if cur.is_none() => continue,
            _ => { }
        }
        if a == "Crash" && !up { continue }
        let mut actual = a;
        let mut line = action.clone();
        let e = env.as_ref().unwrap();
        let res: Outcome<Result<String, String>> = match a {
            "Startup" => {
                if !memory {
                    env = None;
                    env = Some(
                        Env::open(workdir, opts.clone(), mem_seed).unwrap()
                    );
                }
                let e = env.as_ref().unwrap();
                up = true;
                cur = None;
                guarded(|| {
                    // StartupManager::run_scheduler, first two lines.
                    e.krill.tasks().reschedule_tasks_at_startup().map_err(
                        |e| e.to_string()
                    )?;
                    e.krill.tasks().schedule(
                        Task::QueueStartTasks, krill::server::mq::now()
                    ).map_err(|e| e.to_string())?;
                    Ok("ok".into())
                })
            }
            "Crash" => {
                up = false;
                cur = None;
                Outcome::Ok(Ok("ok".into()))
            }
            "Schedule" => {
                let n = str_arg(action, "n");
                let ts = clock.to_real(int_arg(action, "ts"));
                let mode = str_arg(action, "m");
                let prio = Priority::from_timestamp_ms(ts as u128);
                // every call carries a payload of its own
                payload += 1;
                let pv = payload;
                if carries_payload(n) {
                    line["pv"] = json!(pv);
                }
                guarded(|| {
                    let tasks = e.krill.tasks();
                    let r = match mode {
                        "IfMissing" => {
                            tasks.schedule_missing(task_for_v(n, pv), prio)
                        }
                        "ReplaceExistingSoonest" => {
                            tasks.schedule(task_for_v(n, pv), prio)
                        }
                        "FinishOrReplaceExistingSoonest" => {
                            tasks.schedule_and_finish_existing(
                                task_for_v(n, pv), prio
                            )
                        }
                        other => {
                            let q = Queue::create(
                                e.krill.storage(), TASK_QUEUE_NS
                            ).map_err(|e| e.to_string())?;
                            let mode = match other {
                                "ReplaceExisting" => {
                                    ScheduleMode::ReplaceExisting
                                }
                                "FinishOrReplaceExisting" => {
                                    ScheduleMode::FinishOrReplaceExisting
                                }
                                _ => return Err(format!("mode {other}")),
                            };
                            let name = Ident::from_str(
                                real_name(n)
                            ).map_err(|e| e.to_string())?;
                            return q.schedule_task(
                                &name,
                                &serde_json::to_value(
                                    task_for_v(n, pv)
                                ).unwrap(),
                                Some(ts as u128), mode
                            ).map(|_| "ok".into()).map_err(|e| {
                                e.to_string()
                            })
                        }
                    };
                    r.map(|_| "ok".into()).map_err(|e| e.to_string())
                })
            }
            "Claim" => {
                let r = guarded(|| e.krill.tasks().pop());
                match r {
                    Outcome::Ok(Some((key, value))) => {
                        let name = split_key(key.as_str()).map(|(_, n)| {
                            model_name(n)
                        }).unwrap_or_default();
                        // The value must be the task of that name.
                        let expected = serde_json::to_value(
                            task_for_checked(&name)
                        ).unwrap_or(Value::Null);
                        line["value_ok"] = json!(
                            without_payload(value) == without_payload(expected)
                        );
                        cur = Some((key, name));
                        Outcome::Ok(Ok("ok".into()))
                    }
                    Outcome::Ok(None) => Outcome::Ok(Ok("none".into())),
                    Outcome::Panic(m) => Outcome::Panic(m),
                    Outcome::Crash(m) => Outcome::Crash(m),
                }
            }
            "Finish" | "Reschedule" | "FollowUp" | "ProcessStart" | "Process"
            => {
                match cur.take() {
                    None => Outcome::Ok(Err("no current task".into())),
                    Some((key, name)) => {
                        // Which task the real queue handed out is the
                        // code's choice (ties); what the scheduler does
                        // with it depends on the task: the start task and
                        // the recurring tasks are processed by the real
                        // code, for the others the behaviour decides.
                        let a = match (name.as_str(), a) {
                            ("start", _) => "ProcessStart",
                            ("rep" | "ren" | "snap", _) => "Process",
                            (_, "Process" | "ProcessStart") => "Finish",
                            (_, other) => other,
                        };
                        line["a"] = json!(a);
                        actual = a;
                        let ts = clock.to_real(int_arg(action, "ts"));
                        let prio = Priority::from_timestamp_ms(ts as u128);
                        guarded(|| {
                            let tasks = e.krill.tasks();
                            match a {
                                "Finish" => tasks.finish(&key),
                                "Reschedule" => tasks.reschedule(&key, prio),
                                "FollowUp" => {
                                    tasks.schedule_and_finish_existing(
                                        task_for(&name), prio
                                    )
                                }
                                _ => {
                                    // The real processing of the start task
                                    // followed by what scheduler::run does
                                    // with its result.
                                    match verif_process_task(
                                        &e.slow, task_for(&name), e.started
                                    ) {
                                        Ok(TaskResult::Done) => {
                                            tasks.finish(&key)
                                        }
                                        Ok(TaskResult::FollowUp(t, p)) => {
                                            tasks
                                            .schedule_and_finish_existing(
                                                t, p
                                            )
                                        }
                                        Ok(TaskResult::Reschedule(p)) => {
                                            tasks.reschedule(&key, p)
                                        }
                                        Err(e) => {
                                            return Err(format!("fatal: {e}"))
                                        }
                                    }
                                }
                            }.map(|_| "ok".into()).map_err(|e| e.to_string())
                        })
                    }
                }
            }
            other => Outcome::Ok(Err(format!("unknown action {other}"))),
        };
        if matches!(actual, "Finish" | "Reschedule")
            && !matches!(res, Outcome::Ok(Ok(_)))
        {
            // scheduler::run stops the daemon when it cannot finish or
            // reschedule its task.
            up = false;
        }
        let e = env.as_ref().unwrap();
        let (pending, running) = project(e, &clock);
        if line.get("pv").is_some() {
            // what the entries pending under the name carry after the call
            line["pays"] = json!(pending_payloads(e, str_arg(action, "n")));
        }
        line["ev"] = json!(actual);
        line["pending"] = pending;
        line["running"] = running;
        line["up"] = json!(up);
        line["cur"] = json!(
            cur.as_ref().map(|c| c.1.clone()).unwrap_or("none".into())
        );
        line["res"] = match res {
            Outcome::Ok(Ok(s)) => json!(s),
            Outcome::Ok(Err(s)) => json!(format!("error: {s}")),
            Outcome::Panic(m) => json!(format!("panic: {m}")),
            Outcome::Crash(m) => json!(format!("crash: {m}")),
        };
        trace.push(&line);
    }
}

fn task_for_checked(name: &str) -> Option<Task> {
    NAMES.contains(&name).then(|| task_for(name))
}
